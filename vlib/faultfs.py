"""File-system fault injector for crash-point enumeration (DESIGN 1.8).

A *child process* (python -m vlib.faultfs ...) installs the shim before running a scenario.  The shim
numbers every mutating file-system operation on paths below `root` (open for writing = create /
truncate, each write call, flush, close, replace/rename, remove/unlink, makedirs, h5py open/close).
With `kill=(k, when)` the child dies by os._exit(137) around operation k:

  when = "before" : immediately before operation k is performed;
  when = "after"  : immediately after it (for a write: the data is flushed to the OS first, as if the
                    buffer had been written out);
  when = "partial": (write operations only) a prefix of the data, `cut` in (0,1), is written and
                    flushed, then the process dies.

os._exit drops all unflushed Python/HDF5 buffers, like SIGKILL.  The parent then starts a fresh child
that resumes without faults.

Command line:  python -m vlib.faultfs <module>:<function> <json-kwargs> <root> <result-file> [k when cut]
The scenario function receives **kwargs and returns a picklable result; the child writes
pickle((result, oplog)) to <result-file> and exits 0; a Python exception exits 3 with the traceback in
<result-file>.err.
"""
import builtins
import io
import os
import pickle
import sys
import traceback

KILL_STATUS = 137


class Shim:
    def __init__(self, root, kill=None):
        self.root = os.path.realpath(root)
        self.kill = kill          # (k, when, cut) or None
        self.n = 0
        self.log = []
        self._orig = {}

    # ------------------------------------------------------------------ bookkeeping
    def _inside(self, path):
        try:
            p = os.path.realpath(os.fspath(path))
        except TypeError:
            return False
        return p == self.root or p.startswith(self.root + os.sep)

    def _rel(self, path):
        return os.path.relpath(os.path.realpath(os.fspath(path)), self.root)

    def op(self, label, perform, partial=None, after_hook=None):
        """count one operation; die around it if it is the selected crash point"""
        self.n += 1
        k = self.n
        self.log.append(label)
        if self.kill and self.kill[0] == k:
            when = self.kill[1]
            if when == "before":
                os._exit(KILL_STATUS)
            if when == "partial" and partial is not None:
                partial(self.kill[2])
                os._exit(KILL_STATUS)
            try:
                perform()      # (may raise, e.g. unlink of a missing file: the operation still "happened")
                if after_hook is not None:
                    after_hook()
            finally:
                os._exit(KILL_STATUS)
        return perform()

    # ------------------------------------------------------------------ install
    def install(self):
        shim = self
        o_open = builtins.open
        self._orig["open"] = o_open

        def my_open(file, mode="r", *a, **kw):
            if isinstance(file, int) or not shim._inside(file) or not any(c in mode for c in "wax+"):
                return o_open(file, mode, *a, **kw)
            rel = shim._rel(file)
            kind = "open_trunc" if "w" in mode else ("open_append" if "a" in mode else "open_rw")
            fobj = shim.op(f"{kind}:{rel}", lambda: o_open(file, mode, *a, **kw))
            return _FileProxy(shim, fobj, rel)

        builtins.open = my_open
        io.open = my_open

        for name in ("replace", "rename", "remove", "unlink", "makedirs", "mkdir", "rmdir"):
            orig = getattr(os, name)
            self._orig["os." + name] = orig

            def wrapper(*a, _orig=orig, _name=name, **kw):
                paths = [x for x in a[:2] if isinstance(x, (str, bytes, os.PathLike))]
                if not paths or not any(shim._inside(p) for p in paths):
                    return _orig(*a, **kw)
                if _name in ("makedirs", "mkdir") and os.path.isdir(paths[0]):
                    return _orig(*a, **kw)      # no-op on an existing directory: not a mutation
                lab = f"{_name}:" + "->".join(shim._rel(p) for p in paths)
                return shim.op(lab, lambda: _orig(*a, **kw))
            setattr(os, name, wrapper)

        try:
            import h5py
            o_init = h5py.File.__init__
            o_close = h5py.File.close
            self._orig["h5init"] = o_init
            self._orig["h5close"] = o_close

            def h5_init(fself, name, mode="r", *a, **kw):
                if isinstance(name, (str, os.PathLike)) and shim._inside(name) and mode != "r":
                    fself._shim_rel = shim._rel(name)
                    return shim.op(f"h5open_{mode}:{fself._shim_rel}", lambda: o_init(fself, name, mode, *a, **kw))
                return o_init(fself, name, mode, *a, **kw)

            def h5_close(fself):
                rel = getattr(fself, "_shim_rel", None)
                if rel is not None and fself.id.valid:
                    return shim.op(f"h5close:{rel}", lambda: o_close(fself))
                return o_close(fself)

            h5py.File.__init__ = h5_init
            h5py.File.close = h5_close
        except ImportError:
            pass

    def uninstall(self):
        builtins.open = self._orig["open"]
        io.open = self._orig["open"]
        for k, v in self._orig.items():
            if k.startswith("os."):
                setattr(os, k[3:], v)
        if "h5init" in self._orig:
            import h5py
            h5py.File.__init__ = self._orig["h5init"]
            h5py.File.close = self._orig["h5close"]


class _FileProxy:
    def __init__(self, shim, f, rel):
        object.__setattr__(self, "_s", shim)
        object.__setattr__(self, "_f", f)
        object.__setattr__(self, "_rel", rel)
        object.__setattr__(self, "_nw", 0)

    def write(self, data):
        f = self._f
        object.__setattr__(self, "_nw", self._nw + 1)

        def partial(cut):
            m = max(1, min(len(data) - 1, int(len(data) * cut))) if len(data) > 1 else 0
            f.write(data[:m])
            f.flush()
        return self._s.op(f"write:{self._rel}#{self._nw}", lambda: f.write(data), partial=partial,
                          after_hook=f.flush)

    def writelines(self, lines):
        for ln in lines:
            self.write(ln)

    def flush(self):
        return self._s.op(f"flush:{self._rel}", self._f.flush)

    def close(self):
        if self._f.closed:
            return None
        return self._s.op(f"close:{self._rel}", self._f.close)

    def __enter__(self):
        return self

    def __exit__(self, *exc):
        self.close()
        return False

    def __iter__(self):
        return iter(self._f)

    def __getattr__(self, name):
        return getattr(self._f, name)

    def __setattr__(self, name, value):
        setattr(self._f, name, value)


def main(argv):
    target, kwargs_json, root, result_file = argv[:4]
    kill = None
    if len(argv) >= 6:
        kill = (int(argv[4]), argv[5], float(argv[6]) if len(argv) > 6 else 0.5)
    import importlib
    import json
    modname, fname = target.split(":")
    kwargs = json.loads(kwargs_json)
    shim = Shim(root, kill)
    try:
        fn = getattr(importlib.import_module(modname), fname)
        shim.install()
        res = fn(**kwargs)
        shim.uninstall()
        with open(result_file, "wb") as f:
            pickle.dump((res, shim.log), f)
        sys.stdout.flush()
        os._exit(0)
    except BaseException:  # noqa: BLE001
        try:
            shim.uninstall()
        except Exception:  # noqa: BLE001
            pass
        with open(result_file + ".err", "w") as f:
            f.write(traceback.format_exc())
        os._exit(3)


def run_child(target, kwargs, root, result_file, kill=None, timeout=600, env=None):
    """parent side: returns (exit_status, result, oplog, errtext)"""
    import json
    import subprocess
    for p in (result_file, result_file + ".err"):
        if os.path.exists(p):
            os.remove(p)
    cmd = [sys.executable, "-m", "vlib.faultfs", target, json.dumps(kwargs), root, result_file]
    if kill:
        cmd += [str(kill[0]), kill[1], str(kill[2] if len(kill) > 2 else 0.5)]
    e = dict(os.environ if env is None else env)
    pr = subprocess.run(cmd, stdout=subprocess.DEVNULL, stderr=subprocess.PIPE, timeout=timeout, env=e,
                        cwd=os.path.dirname(os.path.dirname(os.path.abspath(__file__))))
    res = log = None
    err = ""
    if pr.returncode == 0 and os.path.exists(result_file):
        with open(result_file, "rb") as f:
            res, log = pickle.load(f)
    elif os.path.exists(result_file + ".err"):
        err = open(result_file + ".err").read()
    else:
        err = pr.stderr.decode(errors="replace")[-3000:]
    return pr.returncode, res, log, err


if __name__ == "__main__":
    main(sys.argv[1:])
