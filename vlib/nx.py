"""Helpers around nifty.cl objects: flat vectors <-> fields, dense matrices of linear operators."""
import numpy as np

import nifty.cl as ift

from .core import Violation

TIMES, ADJ, INV, ADJINV = 1, 2, 4, 8
MODES = (TIMES, ADJ, INV, ADJINV)
MODE_NAME = {1: "times", 2: "adjoint_times", 4: "inverse_times", 8: "adjoint_inverse_times"}


def dom_size(dom):
    if isinstance(dom, ift.MultiDomain):
        return sum(dom[k].size for k in dom.keys())
    return dom.size


def flat(f):
    """Field / MultiField -> 1-D numpy array (MultiField: keys in domain order, i.e. sorted)."""
    if isinstance(f, ift.MultiField):
        parts = [np.asarray(f[k].asnumpy()).reshape(-1) for k in f.domain.keys()]
        if not parts:
            return np.zeros(0)
        return np.concatenate(parts)
    return np.asarray(f.asnumpy()).reshape(-1)


def unflat(dom, vec, dtype=None):
    vec = np.asarray(vec)
    if dtype is not None:
        vec = vec.astype(dtype)
    if isinstance(dom, ift.MultiDomain):
        res, ofs = {}, 0
        for k in dom.keys():
            n = dom[k].size
            res[k] = ift.makeField(dom[k], np.array(vec[ofs:ofs + n].reshape(dom[k].shape)))
            ofs += n
        return ift.MultiField.from_dict(res, dom)
    return ift.makeField(dom, np.array(vec.reshape(dom.shape)))


def op_dom(op, mode):
    return op.domain if (mode & 9) else op.target


def op_tgt(op, mode):
    return op.domain if (mode & 6) else op.target


def apply_flat(op, vec, mode, dtype=None, check_input_unchanged=True):
    """apply `op` in `mode` to the flat vector; returns the flat result.

    Also enforces: the result lives on the declared output domain and the input field's
    bytes are unchanged by the application.
    """
    din = op_dom(op, mode)
    x = unflat(din, vec, dtype)
    before = flat(x).tobytes()
    y = op.apply(x, mode)
    dout = op_tgt(op, mode)
    if y.domain is not dout:
        if y.domain != dout:
            raise Violation("output_domain", f"mode {mode}: {y.domain} is not {dout}")
    if check_input_unchanged and flat(x).tobytes() != before:
        raise Violation("input_modified", f"mode {mode}")
    return flat(y)


def dense(op, mode, dtype=np.complex128):
    """matrix of `op` in `mode` w.r.t. the flat bases (complex-linear operators).

    dtype float64 uses real basis vectors (the result may still be complex)."""
    n_in = dom_size(op_dom(op, mode))
    n_out = dom_size(op_tgt(op, mode))
    cols = []
    for i in range(n_in):
        e = np.zeros(n_in, dtype=dtype)
        e[i] = 1
        cols.append(apply_flat(op, e, mode))
    if not cols:
        return np.zeros((n_out, 0))
    return np.stack(cols, axis=1)


def dense_real(op, mode):
    """real 2N representation [[Re],[Im]] of a (possibly only real-linear) operator acting on
    complex fields: columns are images of e_i and 1j*e_i, stacked as (Re, Im)."""
    n_in = dom_size(op_dom(op, mode))
    cols = []
    for fac in (1.0, 1j):
        for i in range(n_in):
            e = np.zeros(n_in, dtype=np.complex128)
            e[i] = fac
            y = apply_flat(op, e, mode).astype(np.complex128)
            cols.append(np.concatenate([y.real, y.imag]))
    return np.stack(cols, axis=1)


def num(x):
    """recipe number -> python number; complex encoded as {'re':..,'im':..} or [re, im]"""
    if isinstance(x, dict):
        return complex(x["re"], x["im"])
    return x


def arr(lst):
    """recipe array (nested lists of numbers / complex dicts) -> ndarray"""
    def conv(v):
        if isinstance(v, dict):
            return complex(v["re"], v["im"])
        if isinstance(v, list):
            return [conv(u) for u in v]
        return v
    return np.array(conv(lst))
