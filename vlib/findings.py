"""known_findings.json: committed list of recorded ('known') and repaired ('fixed') defects.

Entry keys: property, status ('known'|'fixed'), what, and for 'known' entries either
  sub + kind_regex (+ recipe_regex): matches a failure bucket found by generated search, or
  probe: name of a function in the property module's KNOWN_PROBES that re-executes the specific
         failing input (the generator then excludes that region by construction).
'fixed' entries never suppress anything.  The file is never written at run time.
"""
import json
import os
import re

from .core import canon

PATH = os.path.join(os.path.dirname(os.path.dirname(os.path.abspath(__file__))), "known_findings.json")


def load():
    if not os.path.exists(PATH):
        return []
    return json.load(open(PATH)).get("findings", [])


def match(entries, pid, sub, kind, recipe):
    for e in entries:
        if e.get("property") != pid or e.get("status") != "known" or "kind_regex" not in e:
            continue
        if e.get("sub") not in (None, sub):
            continue
        if not re.search(e["kind_regex"], kind):
            continue
        if "recipe_regex" in e and not re.search(e["recipe_regex"], canon(recipe)):
            continue
        return e
    return None


def known_tags(pid):
    """tags of known findings whose region generators must exclude by construction"""
    return {e["exclude_tag"] for e in load()
            if e.get("property") == pid and e.get("status") == "known" and e.get("exclude_tag")}
