"""Crash-point enumeration on top of faultfs: calibration, case lists, the kill+resume oracle."""
import hashlib
import os
import shutil
import tempfile
from concurrent.futures import ThreadPoolExecutor

from . import faultfs
from .core import Violation, require


class CrashEnum:
    """target: "module:function" scenario run in child processes with kwargs
    (odir=..., resume=bool, **config); it returns a picklable digest of the run's results."""

    def __init__(self, target, configs, quick_limit=28, env_extra=None, timeout=900,
                 known_window=None):
        self.target = target
        self.configs = configs
        self.quick_limit = quick_limit
        self.env_extra = env_extra or {}
        self.timeout = timeout
        # known_window(cfgname, log, k, when) -> tag or None: crash points inside a recorded
        # known finding's window (reported as Violation kind "known:<tag>")
        self.known_window = known_window

    def _env(self):
        e = dict(os.environ)
        e.update(self.env_extra)
        return e

    # ---- main process, once per run
    def prepare(self, tier, seed):
        with ThreadPoolExecutor(max(1, len(self.configs))) as ex:
            return dict(zip(self.configs, ex.map(self._calibrate, self.configs)))

    def _calibrate(self, cfgname):
        cfg = self.configs[cfgname]
        tmp = tempfile.mkdtemp(prefix="crashenum_")
        try:
            def one(i):
                odir = os.path.join(tmp, f"out{i}")
                return faultfs.run_child(self.target, dict(odir=odir, resume=False, **cfg), odir,
                                         os.path.join(tmp, f"res{i}.pkl"), env=self._env(), timeout=self.timeout)
            with ThreadPoolExecutor(2) as ex:
                (rc, res, log, err), (rc2, res2, log2, err2) = ex.map(one, (0, 1))
            if rc != 0:
                raise RuntimeError(f"calibration run failed rc={rc}: {err}")
            if rc2 != 0 or res2 != res or log2 != log:
                raise RuntimeError("uninterrupted run is not reproducible across fresh processes; "
                                   f"cannot calibrate ({cfgname}) {err2}")
        finally:
            shutil.rmtree(tmp, ignore_errors=True)
        return res, log

    def calibration(self, cfgname):
        from . import runner
        return runner.prepared()[cfgname]

    # ---- case list
    def cases(self, tier, seed):
        out = []
        for cfgname in self.configs:
            _, log = self.calibration(cfgname)
            pts = []
            for k, label in enumerate(log, start=1):
                pts.append((k, "before", 0.5))
                pts.append((k, "after", 0.5))
                if label.startswith("write:"):
                    for cut in (0.25, 0.75):
                        pts.append((k, "partial", cut))
            if tier == "quick":
                seen, sel = set(), []
                order = sorted(pts, key=lambda p: hashlib.sha1(f"{seed}:{cfgname}:{p}".encode()).hexdigest())
                for p in order:
                    lab = log[p[0] - 1]
                    cls = (lab.split("#")[0], p[1], min(p[0] * 3 // max(len(log), 1), 2))
                    if cls not in seen:
                        seen.add(cls)
                        sel.append(p)
                pts = sel[:self.quick_limit]
            for k, when, cut in pts:
                out.append({"cfg": cfgname, "k": k, "when": when, "cut": cut})
        return out

    # ---- oracle
    def check(self, rec):
        cfgname = rec["cfg"]
        cfg = self.configs[cfgname]
        ref, log = self.calibration(cfgname)
        k, when = min(rec["k"], len(log)), rec["when"]
        label = log[k - 1]
        if when == "partial" and not label.startswith("write:"):
            when = "after"
        tmp = tempfile.mkdtemp(prefix="crashenum_")
        try:
            odir = os.path.join(tmp, "out")
            rc, res, _, err = faultfs.run_child(self.target, dict(odir=odir, resume=False, **cfg), odir,
                                                os.path.join(tmp, "r1.pkl"), kill=(k, when, rec.get("cut", 0.5)),
                                                env=self._env(), timeout=self.timeout)
            if rc != faultfs.KILL_STATUS:
                raise RuntimeError(f"harness: child was not killed at op {k} ({label}) rc={rc} {err}")
            rc, res, _, err = faultfs.run_child(self.target, dict(odir=odir, resume=True, **cfg), odir,
                                                os.path.join(tmp, "r2.pkl"), env=self._env(), timeout=self.timeout)
            where = f"[{cfgname}] killed {when} op {k}/{len(log)} '{label}'"
            tag = self.known_window(cfgname, log, k, when) if self.known_window else None
            pre = f"known:{tag}:" if tag else ""
            require(rc == 0, pre + "resume_impossible", f"{where}: resumed run failed: {err[-1500:]}")
            if res != ref:
                diff = [kk for kk in ref if res.get(kk) != ref[kk]] if isinstance(ref, dict) else "result"
                raise Violation(pre + "resumed_result_differs", f"{where}: differing entries {diff}")
        finally:
            shutil.rmtree(tmp, ignore_errors=True)
        kind = label.split(":")[0]
        fname = label.split(":")[1].split("#")[0] if ":" in label else ""
        return dict(nontrivial=True, classes=[f"cfg_{cfgname}", f"op_{kind}", f"when_{when}", f"file_{fname}"])
