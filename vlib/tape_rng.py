"""White-noise tape (DESIGN 1.8): prescribed standard normals for nifty.cl sampling code.

Gaussian sampling code is linear in its standard-normal draws.  All normals of nifty.cl are drawn
through one primitive: the ``normal`` method of the generator on top of the generator stack of
``nifty.cl.random`` (``Random.normal`` -> ``_rng[-1].normal``; ``Field.from_random``,
``from_random`` and every ``draw_sample`` end there).  While a :class:`Tape` is active that stack is
replaced by one whose every entry (also entries pushed later through ``push_sseq`` / ``Context``)
is a stand-in generator handing out consecutive slices of a prescribed vector ``w``.  The code of
``Random.normal`` itself (complex = two real draws, ``std``/``mean`` handling, dtype cast) stays
under test.

Feeding ``w = e_i`` for all i yields the sampling matrix ``S`` (sample = S w) column by column,
hence the exact covariance ``S S^H`` (and pseudo-covariance ``S S^T``) without Monte-Carlo error.

Soundness: a run that consumes a different number of normals (or a different request pattern) than
the calibration run, that asks the generator for anything but normals, or that rebinds the
generator stack, raises :class:`TapeError` -- a harness error (exit 2), never a violation.
What the tape cannot see: code that creates a private ``numpy.random`` generator.  Such code makes
the draws irreproducible, which the repeated calibration run detects (``not reproducible``).

Scope: nifty.cl only (used by C13).  The JAX side mentioned in DESIGN 1.8 (``random_like`` in
nifty.re.evi) draws from explicit PRNG keys and needs no global interception; it is not handled here.
"""
import numpy as np

import nifty.cl.random as nrandom


class TapeError(RuntimeError):
    """the tape could not intercept / was used inconsistently: harness error, never a violation"""


class _TapeGen:
    """stand-in for numpy.random.Generator: only normal draws are served"""

    def __init__(self, tape):
        self._tape = tape

    def normal(self, loc=0.0, scale=1.0, size=None):
        return self._tape._take(size) * scale + loc

    def standard_normal(self, size=None, dtype=np.float64, out=None):
        if out is not None:
            raise TapeError("standard_normal(out=...) is not supported by the tape")
        return self._tape._take(size).astype(dtype, copy=False)

    def __getattr__(self, name):
        raise TapeError(f"generator attribute {name!r} requested while the white-noise tape is active "
                        "(only normal draws can be prescribed)")


class _TapeStack(list):
    """generator stack on which every pushed generator is the tape"""

    def __init__(self, depth, gen):
        super().__init__([gen] * depth)
        self._gen = gen

    def append(self, _ignored):
        super().append(self._gen)


class Tape:
    """context manager; ``w=None`` is the calibration mode (all normals are 0, requests are logged)"""

    def __init__(self, w=None):
        self.w = None if w is None else np.asarray(w, dtype=np.float64).reshape(-1)
        self.pos = 0
        self.requests = []
        self._active = False

    def _take(self, size):
        if not self._active:
            raise TapeError("tape generator used after the tape was closed")
        if size is None:
            shape, n = (), 1
        else:
            shape = tuple(int(s) for s in np.atleast_1d(size))
            n = int(np.prod(shape, dtype=np.int64))
        self.requests.append(shape)
        if self.w is None:
            out = np.zeros(n)
        else:
            if self.pos + n > self.w.size:
                self.pos += n
                raise TapeError(f"run asks for more normals than the calibration run ({self.w.size})")
            out = self.w[self.pos:self.pos + n].copy()
        self.pos += n
        return out.reshape(shape) if size is not None else float(out[0])

    def __enter__(self):
        self._saved = nrandom._rng
        self._depth = len(nrandom._rng)
        self._stack = _TapeStack(self._depth, _TapeGen(self))
        nrandom._rng = self._stack
        self._active = True
        return self

    def __exit__(self, et, ev, tb):
        self._active = False
        rebound = nrandom._rng is not self._stack
        depth = len(nrandom._rng)
        nrandom._rng = self._saved
        if et is not None:
            return False
        if rebound:
            raise TapeError("nifty.cl.random generator stack was rebound while the tape was active")
        if depth != self._depth:
            raise TapeError(f"generator stack depth changed under the tape ({self._depth} -> {depth})")
        if self.w is not None and self.pos != self.w.size:
            raise TapeError(f"run consumed {self.pos} normals, calibration run consumed {self.w.size}")
        return False


def run(draw, w=None):
    """evaluate draw() with the prescribed normals; returns (value, tape)"""
    with Tape(w) as t:
        val = draw()
    return val, t


def sampling_matrix(draw):
    """draw() -> 1-D numpy vector (the flattened sample).

    Returns (S, s0, K): K = number of standard normals consumed per draw, s0 = sample for w = 0
    (the mean), S = matrix with columns draw(w=e_i) - s0, so that sample = s0 + S w for a sampler
    that is affine in w.  Exceptions of draw() in the calibration run propagate unchanged (a
    refusal to sample); later inconsistencies are TapeErrors.
    """
    s0, t0 = run(draw, None)
    s0 = np.asarray(s0)
    if s0.ndim != 1:
        raise TapeError("draw() must return a flat vector")
    again, t1 = run(draw, None)
    if t1.requests != t0.requests or np.asarray(again).tobytes() != s0.tobytes():
        raise TapeError("draws are not reproducible under the tape (a private RNG bypasses the primitive?)")
    K = t0.pos
    cols = []
    for i in range(K):
        w = np.zeros(K)
        w[i] = 1.0
        col, t = run(draw, w)
        if t.requests != t0.requests:
            raise TapeError(f"request pattern differs from the calibration run: {t.requests} vs {t0.requests}")
        col = np.asarray(col)
        if col.shape != s0.shape:
            raise TapeError(f"sample shape changed between runs: {col.shape} vs {s0.shape}")
        cols.append(col - s0)
    if K == 0:
        S = np.zeros((s0.size, 0), dtype=s0.dtype)
    else:
        S = np.stack(cols, axis=1)
    return S, s0, K


def selftest():
    """the tape reproduces a hand-written sampler and detects misuse"""
    import nifty.cl as ift
    dom = ift.DomainTuple.make(ift.UnstructuredDomain(3))

    def draw():
        f = ift.from_random(dom, "normal", dtype=np.complex128, std=2.0)
        return np.asarray(f.asnumpy()).reshape(-1)

    S, s0, K = sampling_matrix(draw)
    assert K == 6 and np.all(s0 == 0)
    ref = np.concatenate([2 * np.eye(3), 2j * np.eye(3)], axis=1)
    assert np.array_equal(S, ref), S
    try:
        run(draw, np.zeros(5))
    except TapeError:
        pass
    else:
        raise AssertionError("short tape not detected")
    try:
        run(lambda: ift.from_random(dom, "uniform"), None)
    except TapeError:
        pass
    else:
        raise AssertionError("non-normal draw not detected")
    depth = len(nrandom._rng)
    with Tape(None):
        with ift.random.Context(7):
            v = ift.from_random(dom, "normal").asnumpy()
    assert np.all(np.asarray(v) == 0) and len(nrandom._rng) == depth
    assert isinstance(nrandom.current_rng(), np.random.Generator)
    return True


if __name__ == "__main__":
    print("tape selftest:", selftest())
