"""Seeding, sharding, bucketing, shrinking, evidence and known-finding handling.

A property module (props/cNN.py) provides
    PROPERTY   = "C01"
    LEVEL      = "exploration" | "fault_enumeration"
    SUBS       = [vlib.Sub(...), ...]
    ASSUMPTIONS= [str, ...]
    KNOWN_PROBES (optional) = {tag: callable() -> str|None}  (see findings.py)

Exit codes of the command line (vlib/cli.py): 0 held, 1 violation, 2 harness error.
"""
import glob
import hashlib
import importlib
import json
import multiprocessing as mp
import os
import sys
import time
import traceback

from .core import Discard, Violation, canon, rhash

ROOT = os.path.dirname(os.path.dirname(os.path.abspath(__file__)))
REPO = os.environ.get("VERIF_REPO", "/repo")
NPROC = int(os.environ.get("VERIF_NPROC", "16"))
EVIDENCE_DIR = os.environ.get("VERIF_EVIDENCE_DIR") or os.path.join(ROOT, "evidence")
REPLAY_DIR = os.environ.get("VERIF_REPLAY_DIR") or os.path.join(ROOT, "replays")


def mix(seed, *parts):
    h = hashlib.sha256(":".join([str(seed)] + [str(p) for p in parts]).encode()).hexdigest()
    return int(h[:12], 16)


def load_prop(pid):
    pid = pid.upper()
    mods = glob.glob(os.path.join(ROOT, "props", pid.lower() + "*.py"))
    if len(mods) != 1:
        raise RuntimeError(f"no unique module for {pid}: {mods}")
    name = "props." + os.path.basename(mods[0])[:-3]
    return importlib.import_module(name)


def _setup_worker(need_jax):
    # some nifty code paths print to stdout (e.g. MatrixProductOperator.apply); keep the
    # check's stdout reserved for the runner's report
    sys.stdout = open(os.devnull, "w")
    import logging
    import warnings
    warnings.filterwarnings("ignore")
    logging.getLogger("NIFTy").setLevel(logging.CRITICAL)
    if need_jax:
        import jax
        jax.config.update("jax_enable_x64", True)
        jax.config.update("jax_platform_name", "cpu")
    try:
        import ducc0
        ducc0.misc.thread_pool_size()  # noqa: B018  (touch)
    except Exception:
        pass


def _owner(exc):
    """innermost traceback frame that belongs to nifty (/repo) or to the harness (/verif)."""
    frames = traceback.extract_tb(exc.__traceback__)
    for fr in reversed(frames):
        fn = os.path.abspath(fr.filename)
        if fn.startswith(REPO + os.sep):
            return "nifty", f"{os.path.relpath(fn, REPO)}:{fr.name}"
        if fn.startswith(ROOT + os.sep):
            return "harness", f"{os.path.relpath(fn, ROOT)}:{fr.name}:{fr.lineno}"
    return "harness", "unknown"


class _Stats:
    def __init__(self, sub, budget):
        self.sub = sub
        self.budget = budget
        self.t0 = time.time()
        self.evaluations = 0
        self.discarded = 0
        self.skipped_budget = 0
        self.nontrivial = set()
        self.classes = {}
        self.samples = []
        self.failures = {}     # bucket -> dict(recipe, kind, detail, count)
        self.harness = []

    def outcome(self, recipe):
        """run the oracle; returns (status, bucket, detail, info)"""
        try:
            info = self.sub.check(recipe) or {}
            return "ok", None, "", info
        except Discard:
            return "discard", None, "", {}
        except Violation as v:
            return "fail", v.kind, v.detail, {}
        except Exception as e:  # noqa: BLE001
            who, where = _owner(e)
            tb = "".join(traceback.format_exception(type(e), e, e.__traceback__)[-6:])
            if who == "nifty" and self.sub.crash_is_violation:
                return "fail", f"crash:{type(e).__name__}@{where}", f"{e!r}\n{tb}", {}
            return "harness", f"{type(e).__name__}@{where}", f"{e!r}\n{tb}", {}

    def run_one(self, recipe):
        if time.time() - self.t0 > self.budget:
            self.skipped_budget += 1
            return
        status, bucket, detail, info = self.outcome(recipe)
        if status == "discard":
            self.discarded += 1
            return
        self.evaluations += 1
        if status == "ok":
            for c in info.get("classes", []):
                self.classes[c] = self.classes.get(c, 0) + 1
            if info.get("nontrivial"):
                h = rhash(recipe)
                if h not in self.nontrivial:
                    self.nontrivial.add(h)
                    if len(self.samples) < 2:
                        self.samples.append(recipe)
        elif status == "fail":
            f = self.failures.get(bucket)
            size = len(canon(recipe))
            if f is None or size < f["size"]:
                self.failures[bucket] = dict(recipe=recipe, kind=bucket, detail=detail[:4000],
                                             size=size, count=(f["count"] + 1 if f else 1))
            else:
                f["count"] += 1
        else:
            if len(self.harness) < 3:
                self.harness.append(dict(recipe=recipe, kind=bucket, detail=detail[:4000]))


class _Found(Exception):
    pass


def _shrink(sub, strat, hseed, n, target_bucket, start, deadline_s, stats):
    """Hypothesis shrink of the first failure in `target_bucket` (same seed => same path)."""
    from hypothesis import HealthCheck, Phase, given, seed, settings
    best = {"recipe": start["recipe"], "detail": start["detail"]}
    t0 = time.time()

    @seed(hseed)
    @settings(max_examples=n, database=None, deadline=None, derandomize=False,
              report_multiple_bugs=False, phases=[Phase.generate, Phase.shrink],
              suppress_health_check=list(HealthCheck), print_blob=False)
    @given(strat)
    def t(recipe):
        if time.time() - t0 > deadline_s and canon(recipe) != canon(best["recipe"]):
            return
        status, bucket, detail, _ = stats.outcome(recipe)
        if status == "fail" and bucket == target_bucket:
            best["recipe"] = recipe
            best["detail"] = detail[:4000]
            raise _Found()

    try:
        t()
    except _Found:
        pass
    except Exception:  # noqa: BLE001  (hypothesis flaky etc.: keep the unshrunk one)
        pass
    return best


def run_task(task):
    """executed in a pool worker"""
    pid, subname, shard, nshards, n, seed, tier = task
    t0 = time.time()
    try:
        mod = load_prop(pid)
        subs = {s.name: s for s in mod.SUBS}
        if subname == "__corpus__":
            return _run_corpus(pid, mod, subs, t0)
        sub = subs[subname]
        _setup_worker(sub.jax)
        budget = sub.budget_quick if tier == "quick" else sub.budget_thorough
        # a shared / overloaded machine can be compensated for (never needed on an idle one)
        budget *= float(os.environ.get("VERIF_BUDGET_SCALE", "1") or 1)
        stats = _Stats(sub, budget)
        hseed = mix(seed, pid, subname, shard)
        if sub.strategy is not None:
            from hypothesis import HealthCheck, Phase, given
            from hypothesis import seed as hyp_seed
            from hypothesis import settings
            strat = sub.strategy(tier)

            @hyp_seed(hseed)
            @settings(max_examples=n, database=None, deadline=None, derandomize=False,
                      report_multiple_bugs=False, phases=[Phase.generate],
                      suppress_health_check=list(HealthCheck), print_blob=False)
            @given(strat)
            def t(recipe):
                stats.run_one(recipe)

            t()
            # collect-then-shrink, one bucket at a time
            for bucket in sorted(stats.failures)[:3]:
                dl = 25.0 if tier == "quick" else 240.0
                best = _shrink(sub, strat, hseed, n, bucket, stats.failures[bucket], dl, stats)
                if len(canon(best["recipe"])) <= stats.failures[bucket]["size"]:
                    stats.failures[bucket]["recipe"] = best["recipe"]
                    stats.failures[bucket]["detail"] = best["detail"]
                    stats.failures[bucket]["size"] = len(canon(best["recipe"]))
        else:
            allcases = sub.cases(tier, seed)
            for rec in allcases[shard::nshards]:
                stats.run_one(rec)
        return dict(pid=pid, sub=subname, shard=shard, ok=True,
                    evaluations=stats.evaluations, discarded=stats.discarded,
                    skipped_budget=stats.skipped_budget,
                    nontrivial=sorted(stats.nontrivial), classes=stats.classes,
                    samples=stats.samples, failures=list(stats.failures.values()),
                    harness=stats.harness, wall=time.time() - t0)
    except BaseException as e:  # noqa: BLE001
        return dict(pid=pid, sub=subname, shard=shard, ok=False, wall=time.time() - t0,
                    error="".join(traceback.format_exception(type(e), e, e.__traceback__)))


def _run_corpus(pid, mod, subs, t0):
    need_jax = any(s.jax for s in subs.values())
    _setup_worker(need_jax)
    failures, harness, n = [], [], 0
    for fn in sorted(glob.glob(os.path.join(ROOT, "corpus", pid, "*.json"))):
        ent = json.load(open(fn))
        sub = subs.get(ent["sub"])
        if sub is None:
            continue
        st = _Stats(sub, 1e9)
        status, bucket, detail, _ = st.outcome(ent["recipe"])
        n += 1
        if status == "fail":
            failures.append(dict(recipe=ent["recipe"], kind=bucket, detail=detail[:4000],
                                 size=len(canon(ent["recipe"])), count=1, sub=ent["sub"],
                                 corpus=os.path.basename(fn)))
        elif status == "harness":
            harness.append(dict(recipe=ent["recipe"], kind=bucket, detail=detail[:4000], sub=ent["sub"]))
    return dict(pid=pid, sub="__corpus__", shard=0, ok=True, evaluations=n, discarded=0,
                skipped_budget=0, nontrivial=[], classes={}, samples=[], failures=failures,
                harness=harness, wall=time.time() - t0)


_PREP = {}


def prepared():
    """result of the property module's optional PREPARE(tier, seed) hook (computed once per run in the
    main process, shared with the workers through a file in the run's temporary directory)"""
    if "v" not in _PREP:
        import pickle
        with open(os.path.join(os.environ["VERIF_RUN_TMP"], "prepare.pkl"), "rb") as f:
            _PREP["v"] = pickle.load(f)
    return _PREP["v"]


def _run_prepare(mod, tier, seed):
    import pickle
    import tempfile
    tmpdir = tempfile.mkdtemp(prefix="verif_run_")
    os.environ["VERIF_RUN_TMP"] = tmpdir
    if hasattr(mod, "PREPARE"):
        data = mod.PREPARE(tier, seed)
        with open(os.path.join(tmpdir, "prepare.pkl"), "wb") as f:
            pickle.dump(data, f)
    return tmpdir


def plan_tasks(pid, mod, tier, seed, only=None):
    tasks = []
    if glob.glob(os.path.join(ROOT, "corpus", pid, "*.json")) and not only:
        tasks.append((pid, "__corpus__", 0, 1, 0, seed, tier))
    for sub in mod.SUBS:
        if only and sub.name not in only:
            continue
        n = sub.quick if tier == "quick" else sub.thorough
        nsh = max(1, min(sub.shards if tier == "quick" else max(sub.shards, 8), NPROC))
        if sub.strategy is not None:
            per = max(1, -(-n // nsh))
            for sh in range(nsh):
                tasks.append((pid, sub.name, sh, nsh, per, seed, tier))
        else:
            for sh in range(nsh):
                tasks.append((pid, sub.name, sh, nsh, 0, seed, tier))
    return tasks


def run_property(pid, tier="quick", seed=1, only=None, out=sys.stdout):
    from . import findings
    t0 = time.time()
    pid = pid.upper()
    mod = load_prop(pid)
    import shutil
    tmpdir = _run_prepare(mod, tier, seed)
    try:
        tasks = plan_tasks(pid, mod, tier, seed, only)
        ctx = mp.get_context("spawn")
        nproc = min(NPROC, len(tasks))
        with ctx.Pool(nproc, maxtasksperchild=None) as pool:
            results = list(pool.imap_unordered(run_task, tasks, chunksize=1))
    finally:
        shutil.rmtree(tmpdir, ignore_errors=True)
    results.sort(key=lambda r: (r["sub"], r["shard"]))

    harness_errors = [r for r in results if not r["ok"]]
    per_sub = {}
    fails = {}
    harness = []
    for r in results:
        if not r["ok"]:
            continue
        s = per_sub.setdefault(r["sub"], dict(evaluations=0, discarded=0, skipped_budget=0,
                                              nontrivial=set(), classes={}, samples=[], wall=0.0))
        s["evaluations"] += r["evaluations"]
        s["discarded"] += r["discarded"]
        s["skipped_budget"] += r["skipped_budget"]
        s["nontrivial"].update(r["nontrivial"])
        for k, v in r["classes"].items():
            s["classes"][k] = s["classes"].get(k, 0) + v
        if len(s["samples"]) < 2:
            s["samples"].extend(r["samples"][: 2 - len(s["samples"])])
        s["wall"] = max(s["wall"], r["wall"])
        for f in r["failures"]:
            subn = f.get("sub", r["sub"])
            key = (subn, f["kind"])
            if key not in fails or f["size"] < fails[key]["size"]:
                cnt = fails[key]["count"] + f["count"] if key in fails else f["count"]
                fails[key] = dict(f, sub=subn, count=cnt)
            else:
                fails[key]["count"] += f["count"]
        for h in r["harness"]:
            harness.append(dict(h, sub=h.get("sub", r["sub"])))

    # known findings
    kf = findings.load()
    violations, known_hits = [], []
    for (subn, kind), f in sorted(fails.items()):
        ent = findings.match(kf, pid, subn, kind, f["recipe"])
        if ent is not None:
            known_hits.append((ent, f))
            continue
        rdir = os.path.join(REPLAY_DIR, pid)
        os.makedirs(rdir, exist_ok=True)
        path = os.path.join(rdir, rhash([subn, f["recipe"]]) + ".json")
        with open(path, "w") as fh:
            json.dump(dict(property=pid, sub=subn, kind=kind, detail=f["detail"], recipe=f["recipe"],
                           seed=seed, tier=tier, occurrences=f["count"]), fh, indent=1, default=str)
        violations.append((subn, kind, path, f))

    # probes for known findings that are excluded from generation by construction
    probe_lines = []
    for ent in kf:
        if ent.get("property") == pid and ent.get("status") == "known" and ent.get("probe"):
            fn = getattr(mod, "KNOWN_PROBES", {}).get(ent["probe"])
            if fn is None:
                continue
            try:
                still = fn()
            except Exception as e:  # noqa: BLE001
                still = f"probe raised {e!r}"
            if still:
                probe_lines.append(f"KNOWN-FINDING: property={pid} {ent['what']} [{still}]")
    for ent, f in known_hits:
        probe_lines.append(f"KNOWN-FINDING: property={pid} {ent['what']} [sub={f['sub']} kind={f['kind']}]")

    wall = time.time() - t0
    # evidence
    total_eval = sum(s["evaluations"] for s in per_sub.values())
    nontriv = sum(len(s["nontrivial"]) for s in per_sub.values())
    samples = []
    for name, s in per_sub.items():
        for smp in s["samples"][:1]:
            c = canon(smp)
            samples.append({"sub": name, "recipe": smp if len(c) < 3000 else c[:3000] + "...(truncated)"})
    samples = samples[:16]
    sub_rules = {s.name: s.rule for s in mod.SUBS}
    exhaustive = all(s.exhaustive for s in mod.SUBS if (not only or s.name in only)) and \
        all(per_sub.get(s.name, {}).get("skipped_budget", 1) == 0 for s in mod.SUBS if (not only or s.name in only))
    ev = dict(
        property_id=pid, tier=tier, seed=int(seed), level=getattr(mod, "LEVEL", "exploration"),
        coverage=dict(
            evaluations=int(total_eval), distinct_nontrivial=int(nontriv),
            rule=getattr(mod, "RULE", "") + " Per sub-check: " + "; ".join(
                f"[{k}] {v}" for k, v in sub_rules.items() if k in per_sub),
            samples=samples,
            exhaustive=bool(exhaustive),
            sub_checks={name: dict(evaluations=s["evaluations"], distinct_nontrivial=len(s["nontrivial"]),
                                   discarded=s["discarded"], skipped_after_time_budget=s["skipped_budget"],
                                   classes=dict(sorted(s["classes"].items())), wall_s=round(s["wall"], 1))
                        for name, s in per_sub.items()},
            known_findings_reported=len(probe_lines),
        ),
        assumptions=list(getattr(mod, "ASSUMPTIONS", [])),
        wall_s=round(wall, 2), violations=len(violations),
    )
    os.makedirs(EVIDENCE_DIR, exist_ok=True)
    if not only:
        with open(os.path.join(EVIDENCE_DIR, pid + ".json"), "w") as fh:
            json.dump(ev, fh, indent=1, default=str)

    # report
    for name, s in per_sub.items():
        print(f"  {pid}/{name}: {s['evaluations']} cases, {len(s['nontrivial'])} distinct non-trivial, "
              f"{s['discarded']} discarded, {s['skipped_budget']} skipped(budget), {s['wall']:.1f}s", file=out)
    for line in probe_lines:
        print(line, file=out)
    if harness_errors or harness:
        for r in harness_errors:
            print(f"HARNESS-ERROR {pid}/{r['sub']} shard {r['shard']}:\n{r['error']}", file=out)
        for h in harness[:5]:
            print(f"HARNESS-ERROR {pid}/{h['sub']} {h['kind']}\n{h['detail']}\nrecipe={canon(h['recipe'])[:1500]}", file=out)
    for subn, kind, path, f in violations:
        print(f"  violation detail [{subn}] {kind}: {f['detail'][:1200]}", file=out)
        print(f"VIOLATION property={pid} replay={path}", file=out)
    print(f"{pid} {tier} seed={seed}: {total_eval} cases, {nontriv} non-trivial, "
          f"{len(violations)} violation bucket(s), {wall:.1f}s", file=out)
    if violations:
        return 1
    if harness_errors or harness:
        return 2
    if total_eval < 1 or nontriv < 2:
        print(f"HARNESS-ERROR {pid}: too few (non-trivial) cases were generated", file=out)
        return 2
    return 0


def replay(pid, path, out=sys.stdout):
    ent = json.load(open(path))
    mod = load_prop(pid)
    subs = {s.name: s for s in mod.SUBS}
    sub = subs[ent["sub"]]
    import shutil
    tmpdir = _run_prepare(mod, ent.get("tier", "quick"), ent.get("seed", 1))
    try:
        _setup_worker(sub.jax)
        st = _Stats(sub, 1e9)
        status, bucket, detail, info = st.outcome(ent["recipe"])
    finally:
        shutil.rmtree(tmpdir, ignore_errors=True)
        sys.stdout = sys.__stdout__
    if status == "fail":
        print(f"  replay [{ent['sub']}] {bucket}: {detail[:3000]}", file=out)
        print(f"VIOLATION property={pid.upper()} replay={os.path.abspath(path)}", file=out)
        return 1
    if status == "harness":
        print(f"HARNESS-ERROR {bucket}\n{detail}", file=out)
        return 2
    print(f"replay {path}: {status} {info}", file=out)
    return 0
