"""Simulated MPI communicator with a scheduler-owned interleaving (DESIGN 1.8).

No libmpi exists in the sandbox, so MPI is simulated through NIFTy's duck-typed `comm=` argument.
Each rank runs as a greenlet; every communication call yields to the scheduler.  Semantics:

* point-to-point `send/recv` (pickled objects) and `Send/Recv` (buffers) are SYNCHRONOUS: a send
  completes only at rendezvous with the matching receive of the destination (strictest MPI-legal
  behaviour: MPI_Ssend);
* collectives (`Barrier, bcast, Bcast, allgather, allreduce, gather`) complete when all ranks have
  entered the same collective;
* the only nondeterminism is which enabled rendezvous fires next; `chooser(state, enabled)` picks it
  (a generated schedule, or the DFS of `explore_all`);
* "no enabled transition and not all ranks finished" is a deadlock, detected exactly (no timeouts).

Trusted base: that this object behaves like an mpi4py intracommunicator for the calls listed.
Per-rank module globals (e.g. the nifty.cl.random stacks) can be swapped in/out with `rank_state`.
"""
import pickle

import numpy as np
from greenlet import greenlet


class Deadlock(Exception):
    pass


class ProtocolError(Exception):
    pass


class _Done:
    def __init__(self, value):
        self.value = value


class _Failed:
    def __init__(self, exc):
        self.exc = exc


class SimComm:
    """the object handed to NIFTy as `comm` on one rank"""

    def __init__(self, world, rank):
        self._w = world
        self._rank = rank

    # -- queries
    def Get_rank(self):
        return self._rank

    def Get_size(self):
        return self._w.size

    rank = property(Get_rank)
    size = property(Get_size)

    # -- point to point
    def send(self, obj, dest, tag=0):
        self._w._block(self._rank, ("p2p", "obj", "send", int(dest), pickle.dumps(obj)))

    def recv(self, buf=None, source=0, tag=0):
        data = self._w._block(self._rank, ("p2p", "obj", "recv", int(source), None))
        return pickle.loads(data)

    # Buffer messages follow mpi4py: the object must expose a contiguous buffer (C- or Fortran-contiguous,
    # PyBUF_ANY_CONTIGUOUS) and what travels is its raw MEMORY, not its logical (shape-aware) content.
    @staticmethod
    def _raw(buf):
        arr = np.asarray(buf)
        if not (arr.flags.c_contiguous or arr.flags.f_contiguous):
            raise ValueError("ndarray is not contiguous")          # what mpi4py raises
        return arr.dtype.str, arr.tobytes(order="A")               # memory order

    @staticmethod
    def _fill(buf, dtype, raw):
        arr = np.asarray(buf)
        if not (arr.flags.c_contiguous or arr.flags.f_contiguous):
            raise ValueError("ndarray is not contiguous")
        if not arr.flags.writeable:
            raise ValueError("buffer is read-only")
        if arr.dtype.str != dtype or arr.nbytes != len(raw):
            raise ProtocolError(f"buffer mismatch: message {dtype}/{len(raw)} bytes into {arr.dtype.str}/{arr.nbytes} bytes")
        flat = np.frombuffer(raw, dtype=arr.dtype)
        mem = arr.reshape(-1) if arr.flags.c_contiguous else arr.T.reshape(-1)   # view of the memory in address order
        mem[...] = flat

    def Send(self, buf, dest, tag=0):
        self._w._block(self._rank, ("p2p", "buf", "send", int(dest), self._raw(buf)))

    def Recv(self, buf, source=0, tag=0):
        dtype, raw = self._w._block(self._rank, ("p2p", "buf", "recv", int(source), None))
        self._fill(buf, dtype, raw)

    # -- collectives
    def Barrier(self):
        self._w._block(self._rank, ("coll", "Barrier", None, None))

    def bcast(self, obj, root=0):
        data = self._w._block(self._rank, ("coll", "bcast", int(root),
                                           pickle.dumps(obj) if self._rank == root else None))
        return pickle.loads(data)

    def Bcast(self, buf, root=0):
        data = self._w._block(self._rank, ("coll", "Bcast", int(root),
                                           self._raw(buf) if self._rank == root else None))
        if self._rank != root:
            self._fill(buf, *data)

    def allgather(self, obj):
        data = self._w._block(self._rank, ("coll", "allgather", None, pickle.dumps(obj)))
        return [pickle.loads(d) for d in data]

    def gather(self, obj, root=0):
        data = self._w._block(self._rank, ("coll", "gather", int(root), pickle.dumps(obj)))
        return [pickle.loads(d) for d in data] if self._rank == root else None

    def allreduce(self, obj, op=None):
        data = self._w._block(self._rank, ("coll", "allreduce", None, pickle.dumps(obj)))
        vals = [pickle.loads(d) for d in data]
        res = vals[0]
        for v in vals[1:]:
            res = (res + v) if op is None else op(res, v)
        return res


class World:
    def __init__(self, size, rank_state=None):
        """rank_state: optional (save, restore) pair; save() -> opaque per-rank global state,
        restore(state) installs it.  Swapped around every greenlet switch."""
        self.size = size
        self._sched = None
        self._rank_state = rank_state
        self._saved = [None] * size
        self.n_p2p = 0
        self.n_coll = 0

    def _block(self, rank, req):
        if self._rank_state:
            self._saved[rank] = self._rank_state[0]()
        res = self._sched.switch((rank, req))
        if self._rank_state:
            self._rank_state[1](self._saved[rank])
        if isinstance(res, _Failed):
            raise res.exc
        return res

    def run(self, fn, chooser=None, initial_states=None):
        """run fn(comm) on every rank; returns the list of per-rank return values.

        chooser(state_key, enabled) -> index into `enabled` (sorted list of transition ids).
        Raises Deadlock / ProtocolError, or re-raises the first exception of a rank.
        """
        self._sched = greenlet.getcurrent()
        size = self.size
        pending = [None] * size
        counts = [0] * size
        if self._rank_state:
            # every rank starts from its own copy of the (immutable snapshot of the) global state
            self._saved = list(initial_states) if initial_states is not None \
                else [self._rank_state[0]()] * size

        def body(r):
            if self._rank_state and self._saved[r] is not None:
                self._rank_state[1](self._saved[r])
            try:
                out = _Done(fn(SimComm(self, r)))
            except BaseException as e:  # noqa: BLE001
                out = _Failed(e)
            if self._rank_state:
                self._saved[r] = self._rank_state[0]()
            return (r, out)

        glets = [greenlet(lambda r=r: body(r)) for r in range(size)]
        outer_state = self._rank_state[0]() if self._rank_state else None

        def advance(r, value):
            rr, req = glets[r].switch(value) if glets[r] else (r, None)
            assert rr == r
            pending[r] = req
            counts[r] += 1

        try:
            for r in range(size):
                rr, req = glets[r].switch()
                pending[r] = req
            while True:
                for r in range(size):
                    if isinstance(pending[r], _Failed):
                        raise pending[r].exc
                if all(isinstance(p, _Done) for p in pending):
                    return [p.value for p in pending]
                enabled = self._enabled(pending)
                if not enabled:
                    desc = [("done" if isinstance(p, _Done) else p[:4] if p[0] == "p2p" else p[:3]) for p in pending]
                    raise Deadlock(f"no enabled transition; pending={desc}")
                idx = 0 if chooser is None else chooser(tuple(counts), enabled)
                tr = enabled[idx]
                if tr[0] == "p2p":
                    _, s, d = tr
                    data = pending[s][4]
                    self.n_p2p += 1
                    advance(d, data)
                    advance(s, None)
                else:
                    kind = tr[1]
                    self.n_coll += 1
                    reqs = list(pending)
                    if kind == "Barrier":
                        outs = [None] * size
                    elif kind in ("bcast", "Bcast"):
                        root = reqs[0][2]
                        outs = [reqs[root][3]] * size
                    elif kind in ("allgather", "allreduce"):
                        allv = [q[3] for q in reqs]
                        outs = [allv] * size
                    elif kind == "gather":
                        allv = [q[3] for q in reqs]
                        outs = [allv] * size
                    else:
                        raise ProtocolError(kind)
                    for r in range(size):
                        advance(r, outs[r])
        finally:
            for g in glets:
                if g and not g.dead:
                    try:
                        g.throw(greenlet.GreenletExit)
                    except BaseException:  # noqa: BLE001
                        pass
            if self._rank_state:
                self._rank_state[1](outer_state)

    def _enabled(self, pending):
        size = self.size
        en = []
        # collectives
        colls = [p for p in pending if not isinstance(p, (_Done, _Failed)) and p[0] == "coll"]
        if len(colls) == size:
            kinds = {(p[1], p[2]) for p in colls}
            if len(kinds) != 1:
                raise ProtocolError(f"collective mismatch: {sorted(map(str, kinds))}")
            en.append(("coll", colls[0][1]))
        # point to point
        for s in range(size):
            p = pending[s]
            if isinstance(p, (_Done, _Failed)) or p[0] != "p2p" or p[2] != "send":
                continue
            d = p[3]
            if not (0 <= d < size) or d == s:
                raise ProtocolError(f"rank {s} sends to invalid rank {d}")
            q = pending[d]
            if isinstance(q, (_Done, _Failed)) or q[0] != "p2p" or q[2] != "recv" or q[3] != s:
                continue
            if q[1] != p[1]:
                raise ProtocolError(f"message kind mismatch {s}->{d}: {p[1]} sent, {q[1]} expected")
            en.append(("p2p", s, d))
        return sorted(en, key=str)


def explore_all(size, fn, rank_state=None, max_runs=20000, on_result=None):
    """exhaustive stateless DFS over all schedules (choices among enabled rendezvous) with pruning on
    visited states (vector of per-rank operation counters: ranks are deterministic and there are no
    wildcard receives, so the counters determine the global state).

    on_result(values) is called for every completed run.  Returns dict(states, transitions, runs).
    Raises Deadlock/ProtocolError (with .schedule attached) on the first bad schedule.
    """
    visited = set()
    transitions = 0
    runs = 0
    stack = [()]
    while stack:
        prefix = stack.pop()
        taken = []
        pruned = [False]

        def chooser(state, enabled, prefix=prefix, taken=taken, pruned=pruned):
            nonlocal transitions
            k = len(taken)
            if k < len(prefix):
                c = prefix[k]
            else:
                if (state, ) in visited and k > 0 and k >= len(prefix):
                    # already expanded from here
                    pruned[0] = True
                    raise _Prune()
                visited.add((state, ))
                for j in range(1, len(enabled)):
                    stack.append(tuple(taken) + (j,))
                c = 0
            transitions += 1
            taken.append(c)
            return c

        w = World(size, rank_state)
        runs += 1
        if runs > max_runs:
            raise RuntimeError("schedule exploration exceeded max_runs")
        try:
            vals = w.run(fn, chooser)
        except _Prune:
            continue
        except (Deadlock, ProtocolError) as e:
            e.schedule = list(taken)
            raise
        if on_result is not None:
            on_result(vals)
    return dict(states=len(visited), transitions=transitions, runs=runs)


class _Prune(Exception):
    pass


def replay_schedule(size, fn, schedule, rank_state=None):
    """run with a fixed list of choices (indices into the sorted enabled list; 0 when exhausted)"""
    it = iter(schedule)

    def chooser(state, enabled):
        c = next(it, 0)
        return min(c, len(enabled) - 1)
    return World(size, rank_state).run(fn, chooser)
