"""Hypothesis strategies producing JSON-able recipe fragments (DESIGN 1.4: dyadic numbers)."""
from hypothesis import strategies as st


def dyadic(lo=-4.0, hi=4.0, den=8):
    """multiples of 1/den in [lo, hi]"""
    return st.integers(int(lo * den), int(hi * den)).map(lambda k: k / den)


def dyadic_nz(lo=0.25, hi=4.0, den=8, signed=True):
    """multiples of 1/den with lo <= |x| <= hi"""
    mag = st.integers(int(lo * den), int(hi * den)).map(lambda k: k / den)
    if not signed:
        return mag
    return st.tuples(mag, st.booleans()).map(lambda t: -t[0] if t[1] else t[0])


def cplx(part=None):
    part = part or dyadic()
    return st.fixed_dictionaries({"re": part, "im": part})


def cplx_nz():
    """complex dyadic with |z| >= 1/4"""
    return st.tuples(dyadic(), dyadic(), st.booleans()).map(
        lambda t: {"re": t[0] if abs(t[0]) >= 0.25 or abs(t[1]) >= 0.25 else 0.5, "im": t[1]})


def number(complex_ok=True, nonzero=False):
    r = dyadic_nz() if nonzero else dyadic()
    if not complex_ok:
        return r
    return st.one_of(r, cplx_nz() if nonzero else cplx())


def vec(n, elem):
    return st.lists(elem, min_size=n, max_size=n)


def mat(n, m, elem):
    return st.lists(st.lists(elem, min_size=m, max_size=m), min_size=n, max_size=n)
