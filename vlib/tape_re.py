"""White-noise tape for nifty.re (DESIGN 1.8, JAX side): prescribed standard normals for the residual sampling code.

All standard normals of ``nifty.re.evi`` (``sample_likelihood``, ``draw_linear_residual`` and through them
``wiener_filter_posterior``, ``OptimizeVI.draw_linear_samples``, ``nonlinearly_update_residual``) are drawn
through the module-level reference ``nifty.re.evi.random_like(key, primals)``.  While a :class:`Tape` is active
that reference is replaced by a function that ignores the key and hands out consecutive slices of a prescribed
real vector ``w`` (one slice per leaf of ``primals``, leaves in ``jax.tree_util`` order).  Everything that happens
to the draw afterwards (square-root metric, prior part, CG, mirroring) stays under test.

Complex leaves: ``jax.random.normal`` documents a complex draw as ``(re + 1j*im)/sqrt(2)`` with independent standard
normal ``re``/``im``; the tape emulates exactly this (2n real normals per complex leaf of n entries: first all real
parts, then all imaginary parts).  This is the only place where the tape encodes a convention of the primitive.

Soundness: a run that consumes a different number of normals / a different request pattern than announced, a draw
requested with a traced key (the sampler was jit/vmap-compiled: the prescribed numbers would be baked in), a
non-default ``rng`` argument, or a run that draws no normals at all (the primitive was bypassed) raises
:class:`TapeError` - a harness error (exit 2), never a violation.
"""
import numpy as np

from .tape_rng import TapeError  # noqa: F401  (same exception type for both tapes)


class Tape:
    """context manager; ``w=None`` is the calibration mode (all normals are 0, requests are logged)"""

    def __init__(self, w=None):
        self.w = None if w is None else np.asarray(w, dtype=np.float64).reshape(-1)
        self.pos = 0
        self.requests = []      # one entry per leaf: (shape, "f"|"c")
        self._active = False

    def _take(self, n):
        if self.w is None:
            out = np.zeros(n)
        else:
            if self.pos + n > self.w.size:
                self.pos += n
                raise TapeError(f"run asks for more normals than announced ({self.w.size})")
            out = self.w[self.pos:self.pos + n].copy()
        self.pos += n
        return out

    def _random_like(self, key, primals, rng=None):
        import jax
        import jax.numpy as jnp
        from jax.tree_util import tree_flatten, tree_unflatten
        if not self._active:
            raise TapeError("tape used after it was closed")
        if rng is not None and rng is not jax.random.normal:
            raise TapeError("random_like called with a non-default rng while the tape is active")
        if isinstance(key, jax.core.Tracer):
            raise TapeError("random_like called with a traced key (compiled sampler): the tape needs eager draws")
        leaves, td = tree_flatten(primals)
        out = []
        for x in leaves:
            shp = tuple(int(s) for s in (x.shape if hasattr(x, "shape") else np.shape(x)))
            dtp = np.dtype(x.dtype if hasattr(x, "dtype") else np.result_type(x))
            n = int(np.prod(shp, dtype=np.int64))
            if dtp.kind == "c":
                re = self._take(n)
                im = self._take(n)
                val = ((re + 1j * im) / np.sqrt(2.0)).astype(dtp)
            elif dtp.kind == "f":
                val = self._take(n).astype(dtp)
            else:
                raise TapeError(f"normal draw of dtype {dtp} requested")
            self.requests.append((shp, dtp.kind))
            out.append(jnp.asarray(val.reshape(shp)))
        return tree_unflatten(td, out)

    def __enter__(self):
        import nifty.re.evi as evi
        self._evi = evi
        self._saved = evi.random_like
        evi.random_like = self._random_like
        self._active = True
        return self

    def __exit__(self, et, ev, tb):
        self._active = False
        rebound = self._evi.random_like != self._random_like
        self._evi.random_like = self._saved
        if et is not None:
            return False
        if rebound:
            raise TapeError("nifty.re.evi.random_like was rebound while the tape was active")
        if self.w is not None and self.pos != self.w.size:
            raise TapeError(f"run consumed {self.pos} normals, {self.w.size} were announced")
        return False


def run(fn, w=None):
    """evaluate fn() with the prescribed normals; returns (value, tape)"""
    with Tape(w) as t:
        val = fn()
    return val, t


def exact_covariance(draw, per_call=(2,)):
    """Exact covariance of a sampler that draws several independent (possibly mirrored) samples per call.

    draw(n) -> array (n * mult, p): ALL residual samples returned by one call that draws n samples (mult = 2 for
    a sampler that returns every sample together with its mirror image, 1 otherwise; any order).
    Calibration: draw(1) with all normals 0 gives K = normals per sample, the request pattern and mult; the
    residuals must be linear in the white noise, r = +-S w.  One call draw(K) with the tape vec(I_K) (sample i
    gets w = e_i) returns the columns of S (mult times each, up to sign) provided every sample consumes its own
    consecutive block of K normals in the calibrated pattern - which is verified (else TapeError).  Then
    S S^T = rows^T rows / mult, independent of the order and of the signs of the rows.
    `per_call` = sample counts that the sampler is additionally exercised with under the zero tape (consumption
    must scale linearly).  Returns (C, K, mult, rmax0) with rmax0 = max |residual| for w = 0 (must be 0 for a
    linear sampler).
    """
    r0, t0 = run(lambda: np.asarray(draw(1)))
    if r0.ndim != 2 or r0.shape[0] < 1:
        raise TapeError(f"draw(1) must return an array of shape (mult, p); got {r0.shape}")
    mult = r0.shape[0]
    K = t0.pos
    if K == 0:
        raise TapeError("sampler drew no normals through nifty.re.evi.random_like (primitive bypassed?)")
    rmax0 = float(np.max(np.abs(r0))) if r0.size else 0.0
    for n in per_call:
        rn, tn = run(lambda n=n: np.asarray(draw(n)))
        if tn.pos != n * K or tn.requests != t0.requests * n:
            raise TapeError(f"{n} samples consume {tn.pos} normals / pattern {tn.requests}; one sample: {K} / "
                            f"{t0.requests}")
        if rn.shape != (n * mult, r0.shape[1]):
            raise TapeError(f"draw({n}) returned shape {rn.shape}, expected {(n * mult, r0.shape[1])}")
        rmax0 = max(rmax0, float(np.max(np.abs(rn))) if rn.size else 0.0)
    rows, t1 = run(lambda: np.asarray(draw(K)), np.eye(K).reshape(-1))
    if t1.requests != t0.requests * K:
        raise TapeError(f"request pattern of the K-sample run differs: {t1.requests} vs {K} x {t0.requests}")
    if rows.shape != (K * mult, r0.shape[1]):
        raise TapeError(f"draw(K) returned shape {rows.shape}, expected {(K * mult, r0.shape[1])}")
    return rows.T @ rows / mult, K, mult, rmax0


def selftest():
    import jax
    jax.config.update("jax_enable_x64", True)
    import jax.numpy as jnp
    import nifty.re.evi as evi
    shp = {"a": jax.ShapeDtypeStruct((2,), jnp.float64), "b": jax.ShapeDtypeStruct((1,), jnp.complex128)}
    with Tape(np.array([1., 2., 3., 4.])) as t:
        v = evi.random_like(jax.random.PRNGKey(0), shp)
    assert np.array_equal(np.asarray(v["a"]), [1., 2.]) and np.allclose(np.asarray(v["b"]), (3 + 4j) / np.sqrt(2))
    assert t.requests == [((2,), "f"), ((1,), "c")]
    try:
        with Tape(np.zeros(3)):
            evi.random_like(jax.random.PRNGKey(0), shp)
    except TapeError:
        pass
    else:
        raise AssertionError("short tape not detected")
    from nifty.re.tree_math import random_like
    assert evi.random_like is random_like
    return True


if __name__ == "__main__":
    print("tape_re selftest:", selftest())
