"""Shared machinery of the NIFTy property checks (see DESIGN.md section 1)."""
from .core import Violation, Discard, Sub, require, close, canon, rhash  # noqa: F401
