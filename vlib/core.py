"""Core vocabulary: recipes, sub-checks, violations, numeric comparison."""
import hashlib
import json
from dataclasses import dataclass, field
from typing import Callable, Optional

import numpy as np


class Violation(Exception):
    """The property under test does not hold for this recipe.

    kind  : short stable identifier of the oracle relation that failed
            (part of the bucket, so keep it free of numbers).
    detail: free text with the numbers.
    """

    def __init__(self, kind, detail=""):
        super().__init__(f"{kind}: {detail}")
        self.kind = kind
        self.detail = detail


class Discard(Exception):
    """The recipe is outside the property's domain (counts as rejected)."""


@dataclass
class Sub:
    """One sub-check = generator + oracle + non-triviality rule.

    check(recipe) -> dict(nontrivial=bool, classes=[str,...]) or raises Violation.
    Exactly one of `strategy` (tier -> hypothesis strategy of JSON recipes) and
    `cases` ((tier, seed) -> list of JSON recipes, finite enumeration) is set.
    """
    name: str
    check: Callable
    rule: str
    strategy: Optional[Callable] = None
    cases: Optional[Callable] = None
    quick: int = 200          # generated cases in the quick tier (all shards)
    thorough: int = 4000
    shards: int = 4           # parallel shards (each its own derived seed)
    jax: bool = False         # worker needs jax x64 set-up
    exhaustive: bool = False  # `cases` enumerates a finite space completely
    budget_quick: float = 75.0     # seconds per shard before remaining cases are skipped
    budget_thorough: float = 900.0
    # exceptions escaping check() whose innermost nifty/verif frame is in nifty
    # are reported as violations ("crash on admissible input")
    crash_is_violation: bool = True
    tags: list = field(default_factory=list)


def canon(recipe):
    return json.dumps(recipe, sort_keys=True, separators=(",", ":"), default=_js)


def _js(o):
    if isinstance(o, (np.integer,)):
        return int(o)
    if isinstance(o, (np.floating,)):
        return float(o)
    if isinstance(o, np.ndarray):
        return o.tolist()
    if isinstance(o, complex):
        return {"re": o.real, "im": o.imag}
    if isinstance(o, (set, frozenset)):
        return sorted(o)
    if isinstance(o, tuple):
        return list(o)
    raise TypeError(type(o))


def rhash(recipe):
    return hashlib.sha1(canon(recipe).encode()).hexdigest()[:16]


def require(cond, kind, detail=""):
    if not cond:
        raise Violation(kind, detail if isinstance(detail, str) else repr(detail))


def close(a, b, kind, tol=1e-11, scale=None, detail=""):
    """|a-b| <= tol*scale elementwise-max; scale defaults to max(1,|a|_inf,|b|_inf)."""
    a = np.asarray(a)
    b = np.asarray(b)
    if a.shape != b.shape:
        raise Violation(kind + ":shape", f"{a.shape} vs {b.shape} {detail}")
    if a.size == 0:
        return
    if not (np.all(np.isfinite(a)) and np.all(np.isfinite(b))):
        # non-finite must match exactly (positions and values)
        if not np.array_equal(a, b, equal_nan=True):
            raise Violation(kind + ":nonfinite", f"{a!r} vs {b!r} {detail}")
        return
    if scale is None:
        scale = max(1.0, float(np.max(np.abs(a))), float(np.max(np.abs(b))))
    err = float(np.max(np.abs(a - b)))
    if err > tol * scale:
        raise Violation(kind, f"err={err:.3e} tol*scale={tol*scale:.3e} {detail}")
