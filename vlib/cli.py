import argparse
import os
import sys


def main():
    ap = argparse.ArgumentParser()
    ap.add_argument("pid")
    ap.add_argument("--tier", default=os.environ.get("VERIF_TIER", "quick"), choices=["quick", "thorough"])
    ap.add_argument("--replay")
    ap.add_argument("--only", action="append")
    a = ap.parse_args()
    from vlib import runner
    seed = int(os.environ.get("VERIF_SEED", "1") or 1)
    try:
        if a.replay:
            rc = runner.replay(a.pid, a.replay)
        else:
            rc = runner.run_property(a.pid, a.tier, seed, only=a.only)
    except SystemExit:
        raise
    except BaseException:  # noqa: BLE001
        import traceback
        traceback.print_exc()
        print(f"HARNESS-ERROR {a.pid}: runner failed")
        rc = 2
    sys.stdout.flush()
    sys.exit(rc)


if __name__ == "__main__":
    main()
