import numpy as np, nifty.cl as ift
d = ift.UnstructuredDomain(1)
a, b = ift.FieldAdapter(d, "a"), ift.FieldAdapter(d, "b")
pos = ift.MultiField.from_dict({"a": ift.full(d, 1.0), "b": ift.full(d, 0.5)})

# 1. StandardHamiltonian loses the prior energy of the constant keys
H = ift.StandardHamiltonian(ift.GaussianEnergy(domain=d, sampling_dtype=float) @ (a + b))
_, H2 = H.simplify_for_constant_input(pos.extract_by_keys(["a"]))
print("1:", H(pos).asnumpy(), H2(pos.extract_by_keys(["b"])).asnumpy(),
      ift.EnergyAdapter(pos, H, constants=["a"]).value)          # 1.75 vs 1.25 vs 1.25 (differs by 0.5*|a|^2)

# 2. likelihood sums take their domain from the residuals only
lh = ift.GaussianEnergy(domain=d, sampling_dtype=float).ducktape("c") + \
    ift.VariableCovarianceGaussianEnergy(d, "a", "b", np.float64)
print("2:", lh.domain.keys())                                     # ('a', 'c'): key 'b' is missing
try:
    lh(ift.full(lh.domain, 1.))
except KeyError as e:
    print("   KeyError", e)

# 3. VariableCovarianceGaussianEnergy(use_full_fisher=False), residual constant: different metric
E = ift.VariableCovarianceGaussianEnergy(d, "a", "b", np.float64, use_full_fisher=False)
p = ift.MultiField.from_dict({"a": ift.full(d, 0.25), "b": ift.full(d, 0.25)})
M = E(ift.Linearization.make_var(p, True)).metric
e_b = ift.MultiField.from_dict({"a": ift.full(d, 0.), "b": ift.full(d, 1.)})
_, E2 = E.simplify_for_constant_input(p.extract_by_keys(["a"]))
M2 = E2(ift.Linearization.make_var(p.extract_by_keys(["b"]), True)).metric
print("3:", M(e_b)["b"].asnumpy(), M2(e_b.extract_by_keys(["b"]))["b"].asnumpy())   # 4.0625 vs 8.0
