"""Minimal standalone reproductions of the C31 findings (run with /venv/bin/python; PYTHONPATH selects the tree).

1. OpenGridAtLevel.neighborhood wraps periodically instead of clipping (fixes/C31_open_grid_neighborhood_wraps.diff)
2. SimpleOpenGrid rejects the documented tuple window_size (fixes/C31_simple_open_grid_window_tuple.diff)
"""
import numpy as np

from nifty.re.multi_grid.grid import OpenGrid
from nifty.re.multi_grid.grid_impl import SimpleOpenGrid

# 1 ---------------------------------------------------------------------------------------------------------
g = OpenGrid(shape0=(6,), splits=(2,), padding=(1,))
nb = np.asarray(g.at(0).neighborhood(np.array([[0, 5]]), (3,)))
print("neighbourhood of the border pixels 0 and 5 of an open grid of 6 pixels:", nb[0].tolist())
# unchanged tree: [[5, 0, 1], [4, 5, 0]]  - the pixel at the OTHER end of an open (non-periodic) grid
# documented ("jax-array inspired out of bounds handling", the code clips to [0, shape-1]): [[0, 0, 1], [4, 5, 5]]
ok1 = nb[0].tolist() == [[0, 0, 1], [4, 5, 5]]

# 2 ---------------------------------------------------------------------------------------------------------
try:
    SimpleOpenGrid(min_shape=(2, 2), window_size=(3, 3), depth=1)     # window_size: Union[int, Tuple[int]]
    ok2 = True
except TypeError as e:
    print("SimpleOpenGrid(window_size=(3, 3)) raised", repr(e))
    ok2 = False
print("open-grid neighbourhood clipped:", ok1, "| tuple window accepted:", ok2)
raise SystemExit(0 if (ok1 and ok2) else 1)
