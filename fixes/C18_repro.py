"""Standalone reproductions of the defects found by the C18 check (run with /venv/bin/python).

1. SampledKLEnergy(position=<Field>, napprox>=2)  -> AttributeError in approximation2endo
2. SampledKLEnergy(..., napprox=1)                 -> bare RuntimeError (variance of one probe)
3. jft.draw_linear_residual, complex data          -> likelihood part of the metric sample has half the variance
   (found independently by the C20 author; fix: fixes/C20_complex_likelihood_sample_variance.diff)
4. jft.draw_linear_residual, complex parameters    -> prior part of the metric sample has half the variance
5. OptimizeVI(linear_minimizer_jit=True) + boolean-pytree point_estimates -> TracerBoolConversionError
"""
import numpy as np

import nifty.cl as ift


def classic(napprox, multi):
    dom = ift.UnstructuredDomain(2)
    op = ift.ScalingOperator(dom, 1.0)
    if multi:
        op = op.ducktape("a")
    d = ift.makeField(dom, np.array([1.0, -1.0]))
    N = ift.ScalingOperator(dom, 0.5, sampling_dtype=np.float64)
    lh = ift.GaussianEnergy(data=d, inverse_covariance=N.inverse) @ op
    H = ift.StandardHamiltonian(lh, ic_samp=ift.GradientNormController(iteration_limit=10),
                                prior_sampling_dtype=np.float64)
    pos = ift.full(op.domain, 0.0)
    try:
        ift.SampledKLEnergy(pos, H, 2, None, napprox=napprox)
        return "ok"
    except Exception as e:  # noqa: BLE001
        return f"{type(e).__name__}: {e}"


print("1. Field position,      napprox=2:", classic(2, multi=False))
print("   MultiField position, napprox=2:", classic(2, multi=True))
print("2. MultiField position, napprox=1:", classic(1, multi=True))

import jax  # noqa: E402

jax.config.update("jax_enable_x64", True)
from jax import numpy as jnp  # noqa: E402
from jax import random  # noqa: E402

import nifty.re as jft  # noqa: E402


def variance(complex_data, complex_par, batches=40, batch=250):
    """d = x + n, unit noise, x scalar: metric 2 per real degree of freedom => residual variance 1/2"""
    ddt = jnp.complex128 if complex_data else jnp.float64
    pdt = jnp.complex128 if complex_par else jnp.float64
    lh = jft.Gaussian(jnp.zeros(1, dtype=ddt), noise_cov_inv=lambda t: t, noise_std_inv=lambda t: t).amend(
        lambda x: x.astype(ddt), domain=jax.ShapeDtypeStruct((1,), pdt))
    pos = jnp.zeros(1, dtype=pdt)
    draw = jax.jit(jax.vmap(lambda k: jft.draw_linear_residual(
        lh, pos, k, cg=jft.conjugate_gradient.static_cg, cg_kwargs=dict(absdelta=1e-20, maxiter=10, miniter=0))[0]))
    # (XLA compile time grows with the vmapped batch size: draw in small batches)
    r = np.concatenate([np.asarray(draw(random.split(random.PRNGKey(b), batch)))[:, 0] for b in range(batches)])
    return float(np.var(r.real)), (float(np.var(r.imag)) if complex_par else None)


print("   real data, real parameter      : Var(Re r) = %.3f (expected 0.5)" % variance(False, False)[0])
print("3. complex data, real parameter   : Var(Re r) = %.3f (expected 0.5; defect gives 0.375)" % variance(True, False)[0])
v = variance(True, True)
print("4. complex data, complex parameter: Var(Re r), Var(Im r) = %.3f, %.3f (expected 0.5; 0.25 with both defects, "
      "0.375 with only the complex-data fix applied)" % v)

# 5. OptimizeVI(linear_minimizer_jit=True) (class default) + point_estimates as the documented boolean pytree
dom = jft.Vector({"a": jax.ShapeDtypeStruct((2,), jnp.float64), "b": jax.ShapeDtypeStruct((1,), jnp.float64)})
lh5 = jft.Gaussian(jnp.zeros(2), noise_cov_inv=lambda t: t, noise_std_inv=lambda t: t).amend(
    lambda x: x["a"] * x["b"], domain=dom)
pos5 = jft.Vector({"a": jnp.ones(2), "b": jnp.ones(1)})
for pe in (("b",), jft.Vector({"a": False, "b": True})):
    vi = jft.OptimizeVI(lh5, 1, residual_map="lmap", linear_minimizer_jit=True)
    try:
        vi.draw_samples(jft.Samples(pos=pos5, samples=None, keys=None), key=random.PRNGKey(1),
                        sample_mode="linear_resample", n_samples=1, point_estimates=pe,
                        draw_linear_kwargs=dict(cg=jft.conjugate_gradient.static_cg, cg_kwargs=dict(maxiter=10)))
        res = "ok"
    except Exception as e:  # noqa: BLE001
        res = type(e).__name__
    print(f"5. OptimizeVI(linear_minimizer_jit=True), point_estimates={pe!r}: {res}")
