"""Minimal standalone reproductions of the four C10 defects (run with /venv/bin/python; every block
prints 'DEFECT ...' on the unchanged tree and 'ok ...' once the corresponding fixes/C10_*.diff is applied)."""
import numpy as np

import nifty.cl as ift

h = ift.RGSpace(4, harmonic=True)
ps = ift.PowerSpace(h)                       # bins: k = 0, 1, 2 ; pindex = [0, 1, 2, 1]
pd = ift.PowerDistributor(h, ps)

# 1. fixes/C10_keep_phase_guard.diff
f = ift.Field.from_raw(h, np.array([1 + 2j, 2 - 1j, 3 + 3j, -2 + 1j]))
try:
    r = ift.power_analyze(f, keep_phase_information=True).asnumpy()
    assert np.allclose(r, [1 + 4j, 4 + 1j, 9 + 9j])
    print("ok     keep_phase_information=True on a complex field ->", r)
except ValueError as e:
    print("DEFECT keep_phase_information=True on a complex field raises:", e)

# 2. fixes/C10_power_operator_field_spectrum.diff
spec = ift.Field.from_raw(ps, np.array([1., 2., 3.]))
try:
    op = ift.create_power_operator(h, spec)
    assert np.allclose(op(ift.full(h, 1.)).asnumpy(), [1, 2, 3, 2])
    print("ok     create_power_operator(h, Field) -> diag", op(ift.full(h, 1.)).asnumpy())
except TypeError as e:
    print("DEFECT create_power_operator(h, Field on PowerSpace) raises TypeError", repr(e))

# 3. fixes/C10_unstructured_passenger.diff
dom = ift.DomainTuple.make((h, ift.UnstructuredDomain(2)))
g = ift.Field.from_raw(dom, np.array([[1., 2.], [-2., 3.], [3., 1.], [2., -3.]]))
try:
    r = ift.power_analyze(g, spaces=0).asnumpy()
    assert np.allclose(r, [[1, 4], [4, 9], [9, 1]])
    print("ok     power_analyze over (harmonic, Unstructured), spaces=0 ->", r.tolist())
except AttributeError as e:
    print("DEFECT power_analyze over (harmonic, Unstructured), spaces=0 raises:", e)

# 4. fixes/C10_int_field_adjoint.diff
try:
    r = pd.adjoint_times(ift.full(h, 1)).asnumpy()      # modes per bin
    assert r.tolist() == [1, 2, 1]
    print("ok     PowerDistributor.adjoint_times(int field) ->", r)
except TypeError as e:      # numpy UFuncTypeError is a TypeError
    print("DEFECT PowerDistributor.adjoint_times(int field) raises:", e)
