# C33: four defects in nifty.re tree_math / custom_map (each block is independent)
import jax
jax.config.update("jax_enable_x64", True)
import jax.numpy as jnp
import numpy as np
import nifty.re as jft

# 1) norm(ord=0) is not the vector 0-"norm" (number of non-zero entries)      fixes/C33_norm_ord0.diff
print(jft.norm(jnp.array([1., 2., 3.]), ord=0))                       # 1.0, expected 3
t = {"a": jnp.array([1., 0., 2.]), "b": jnp.array(5.)}
print(jft.norm(jft.Vector(t), ord=0))                                 # 2.0, expected 3

# 2) NumPy scalar / 0-d array on the left of a Vector                        fixes/C33_vector_numpy_scalar_lhs.diff
v = jft.Vector(t)
print((v * np.float64(2.)).tree["a"])                                 # fine: [2. 0. 4.]
try:
    print(np.float64(2.) * v)                                         # e.g. np.sqrt(2) * v
except Exception as e:
    print("np.float64 * Vector ->", type(e).__name__)                 # UFuncTypeError (iterates the dict keys)
print(type(np.float64(2.) + jft.Vector(jnp.arange(3.))))              # numpy.ndarray, expected Vector

# 3) unstack ignores `axis` when counting the elements                       fixes/C33_unstack_axis.diff
xs = [{"a": jnp.arange(6.).reshape(2, 3) + i} for i in range(4)]
try:
    jft.unstack(jft.stack(xs, axis=1), axis=1)
except ValueError as e:
    print("unstack(axis=1) ->", str(e)[:60])

# 4) smap/lmap with out_axes None return an unmapped INPUT, not the output   fixes/C33_map_out_axes_none.diff
u, w = jnp.arange(3.), jnp.arange(12.).reshape(4, 3)
f = lambda u, w: (2 * u, w + u)
for m in (jax.vmap, jft.smap, jft.lmap):
    print(m.__name__, m(f, in_axes=(None, 0), out_axes=(None, 0))(u, w)[0])   # vmap [0 2 4]; smap/lmap [0 1 2]
g = lambda w: (jnp.ones(2), w)
try:
    jft.lmap(g, in_axes=0, out_axes=(None, 0))(w)
except IndexError as e:
    print("constant output with out_axes None ->", e)                 # pop from empty list
