# C15: _static_cg overwrites a successful verdict when convergence happens exactly at the iteration limit
import jax
jax.config.update("jax_enable_x64", True)
import jax.numpy as jnp
from nifty.re.conjugate_gradient import _cg, _static_cg

M = jnp.diag(jnp.array([1., 3.]))
j = jnp.array([1., 1.])
mat = lambda x: M @ x
# first iterate x1 = (1/2, 1/2), residual (-1/2, 1/2): |r|_1 = 1 < resnorm = 1.5 -> converged at i == maxiter == 1
kw = dict(resnorm=1.5, norm_ord=1, miniter=1, maxiter=1)
e, s = _cg(mat, j, **kw), _static_cg(mat, j, **kw)
print("eager   ", e.x, int(e.info), bool(e.success))     # [0.5 0.5] 0 True
print("compiled", s.x, int(s.info), bool(s.success))     # [0.5 0.5] 1 False   <- same x, verdict differs
# same with defaults on any system that needs exactly `maxiter` iterations:
k = _cg(mat, j, miniter=0).nit
print(int(_cg(mat, j, miniter=0, maxiter=k).info), int(_static_cg(mat, j, miniter=0, maxiter=k).info))   # 0 vs 2
