"""C20 genuine defects in nifty.re.evi - minimal standalone reproductions.

Run:  /venv/bin/python /verif/fixes/C20_repro.py      (unchanged tree: prints two DEFECT lines)

(1) wiener_filter_posterior with its documented default draw_linear_kwargs=None raises
    AttributeError: 'NoneType' object has no attribute 'get'  (evi.py dereferences the dict unconditionally).
    Fix: /verif/fixes/C20_wiener_default_draw_linear_kwargs.diff

(2) Complex data, real parameters:  d = (1 + i) s + n,  s ~ N(0, 1),  energy 1/2 r^H N^-1 r with N = 1.
    Posterior: precision 1 + Re(R^H N^-1 R) = 3, variance D = 1/3.  The posterior MEAN of wiener_filter_posterior is
    right, but its residual samples (draw_linear_residual) have variance D (M/2 + 1) D = 2/9:
    evi.sample_likelihood draws the complex white noise with jax.random.normal, whose real and imaginary parts have
    variance 1/2 each, while the metric M = Re(R^H N^-1 R) is the covariance of left_sqrt_metric applied to white
    noise with unit variance per real degree of freedom.  Shown below exactly (sample = linear map of the white
    noise, extracted with unit vectors through nifty.re.evi.random_like) and by plain Monte-Carlo.
    Fix: /verif/fixes/C20_complex_likelihood_sample_variance.diff
"""
import jax

jax.config.update("jax_enable_x64", True)
import jax.numpy as jnp  # noqa: E402
import numpy as np  # noqa: E402
from jax import random  # noqa: E402

import nifty.re as jft  # noqa: E402
import nifty.re.evi as evi  # noqa: E402

import logging  # noqa: E402
logging.getLogger("nifty.re.logger").setLevel(logging.CRITICAL)   # 1x1 systems: "CG: gamma=0, converged!" per sample

kw = dict(cg_name=None, cg_kwargs=dict(tol=1e-10, miniter=1, maxiter=20))
dom = jax.ShapeDtypeStruct((1,), jnp.float64)

# ---------------------------------------------------------------- (1)
lh = jft.Gaussian(jnp.array([1.0]), noise_cov_inv=lambda x: x, noise_std_inv=lambda x: x).amend(lambda x: x, domain=dom)
try:
    smp, _ = jft.wiener_filter_posterior(lh, key=random.PRNGKey(0))
    print("ok (1): default call works, mean", np.asarray(smp.pos), "(exact 0.5)")
except AttributeError as e:
    print("DEFECT (1): wiener_filter_posterior(lh, key=key) raised AttributeError:", e)

# ---------------------------------------------------------------- (2)
R = jnp.array([[1.0 + 1.0j]])
lh = jft.Gaussian(jnp.array([1.0 + 0.0j]), noise_cov_inv=lambda x: x, noise_std_inv=lambda x: x).amend(
    lambda x: R @ x, domain=dom)
D = 1.0 / 3.0
smp, _ = jft.wiener_filter_posterior(lh, key=random.PRNGKey(0), n_samples=4000, draw_linear_kwargs=kw)
res = np.asarray(smp._samples)[0::2, 0]
print("posterior mean", np.asarray(smp.pos), "(exact", D * 1.0, ")")
mc = float(np.mean(res**2))

# exact: white noise (re, im, prior) = unit vectors; jax draws complex normals as (re + i im)/sqrt(2)
cols = []
orig = evi.random_like
for unit in np.eye(3):
    it = iter(unit)

    def tape(key, primals, it=it):
        def leaf(x):
            if jnp.issubdtype(x.dtype, jnp.complexfloating):
                re, im = next(it), next(it)
                return jnp.full(x.shape, (re + 1j * im) / np.sqrt(2.0), dtype=x.dtype)
            return jnp.full(x.shape, next(it), dtype=x.dtype)
        return jax.tree_util.tree_map(leaf, primals)
    evi.random_like = tape
    try:
        r, _ = jft.draw_linear_residual(lh, jnp.zeros(1), random.PRNGKey(0), **kw)
    finally:
        evi.random_like = orig
    cols.append(float(r[0]))
exact = float(np.sum(np.square(cols)))
bad = abs(exact - D) > 1e-8
print(("DEFECT (2)" if bad else "ok (2)") + f": residual sample variance exact {exact:.6f}, Monte-Carlo (4000) {mc:.4f}; "
      f"posterior variance {D:.6f}; D (M/2 + 1) D = {2 / 9:.6f}")
