"""C30: nifty.re invgamma_prior / InvGammaPrior / invgamma_invprior with a negative `loc`.

The table holds log(loc + scale * invgamma.ppf(Phi(x), a)); for loc < 0 the argument is negative for small x,
so every quantile <= 0 comes out as NaN and the inverse returns the table end (8.19) for y <= 0.
Fix: fixes/C30_invgamma_negative_loc.diff (tabulate the standard quantile, apply loc and scale outside).
Run: JAX_PLATFORMS=cpu /venv/bin/python /verif/fixes/C30_repro.py
"""
import jax

jax.config.update("jax_enable_x64", True)
import numpy as np
from scipy import stats

import nifty.re as jft

xi = np.array([-2.0, -1.0, 0.0, 1.0])
print("nifty  :", np.asarray(jft.invgamma_prior(2.0, 1.0, loc=-0.5)(xi)))
print("scipy  :", stats.invgamma.ppf(stats.norm.cdf(xi), 2.0, loc=-0.5, scale=1.0))
y = np.array([-0.3, 0.2])
print("inverse:", np.asarray(jft.invgamma_invprior(2.0, 1.0, loc=-0.5)(y)),
      "expected", stats.norm.ppf(stats.invgamma.cdf(y, 2.0, loc=-0.5)))
