"""Minimal standalone reproductions of the three C28 findings (run: /venv/bin/python /verif/fixes/C28_repro.py).

For fixed hyper-parameters a correlated field is f = offset_mean + A xi with xi ~ N(0, 1), so the expected spatial
variance of a realisation about its spatial mean is  tr(P A A^T P) / N  (P removes the spatial mean); A is obtained
column by column from unit excitations.

1. matern_fluctuation_amplitude   (fixes/C28_matern_fluctuation_amplitude.diff)
   _AmplitudeMatern.fluctuation_amplitude = sqrt(integral of op^2) is taken over the amplitude that already carries
   the volume factors and *includes the zero mode* (op[0] = V), i.e. it is sqrt(V + sum_{k!=0} A_k^2) instead of the
   standard deviation sqrt(sum_{k!=0} A_k^2 / V) of the field.  cfm.total_fluctuation / average_fluctuation /
   slice_fluctuation / moment_slice_to_average are wrong for every model containing a Matern amplitude.
2. scalar_offset_std_dropped      (fixes/C28_scalar_offset_std_dropped.diff)
   set_amplitude_total_offset(mean, <scalar>) is documented; get_normalized_amplitudes divides the non-zero modes by
   the scalar, but finalize() multiplies the zero mode back only for operator-valued zero modes: the field has offset
   standard deviation 1 (not the scalar) and fluctuations fl/azm, contradicting cfm.total_fluctuation,
   cfm.amplitude_total_offset and the operator-valued case with the same (almost constant) value.
3. single_mode_length_nan         (fixes/C28_single_mode_length_nan.diff)
   On a 1-D grid with 2 or 3 pixels (one non-zero mode length) add_fluctuations with a flexibility returns an all-NaN
   field (_SlopeRemover computes 0/0); nifty.re ignores the undefined deviations and returns the power-law field.
"""
import warnings

import numpy as np

import nifty.cl as ift

warnings.filterwarnings("ignore")


def expected_variance(op, lat):
    d = lat.to_dict()
    dom = op.domain["xi"]

    def at(v):
        dd = dict(d, xi=ift.makeField(dom, v.reshape(dom.shape)))
        return op(ift.MultiField.from_dict(dd, op.domain)).asnumpy().ravel()

    base = at(np.zeros(dom.size))
    A = np.array([at(e) - base for e in np.eye(dom.size)]).T
    N = A.shape[0]
    return (np.sum(A * A) - np.sum(A.sum(axis=0) ** 2) / N) / N, np.sum(A.mean(axis=0) ** 2)


print("1. Matern: predicted total fluctuation vs exact expected variance")
for shape, dist in (((8,), 0.25), ((8,), 2.0), ((4, 4), 0.5)):
    cfm = ift.CorrelatedFieldMaker("")
    cfm.add_fluctuations_matern(ift.RGSpace(shape, dist), (1.0, 0.1), (1.0, 0.1), (-3.0, 0.1))
    cfm.set_amplitude_total_offset(0.0, (1.0, 0.1))
    op = cfm.finalize()
    lat = ift.full(op.domain, 0.0)
    ev, _ = expected_variance(op, lat)
    tf = float(cfm.total_fluctuation.force(lat).asnumpy())
    print(f"   RGSpace({shape}, {dist}): total_fluctuation^2 = {tf**2:.6f}   E[var_x f] = {ev:.6f}")

print("2. scalar offset_std: 2.0 vs the log-normal (2.0, 1e-6)")
for zm in (2.0, (2.0, 1e-6)):
    cfm = ift.CorrelatedFieldMaker("")
    cfm.add_fluctuations(ift.RGSpace((4,), 0.5), (1.5, 0.1), None, None, (-2.0, 0.1))
    cfm.set_amplitude_total_offset(0.0, zm)
    op = cfm.finalize()
    lat = ift.full(op.domain, 0.0)
    ev, zv = expected_variance(op, lat)
    tf = cfm.total_fluctuation.force(lat).asnumpy()
    print(f"   offset_std={zm}: total_fluctuation^2 = {float(tf)**2:.6f}  E[var_x f] = {ev:.6f}   "
          f"E[(mean_x f)^2] = {zv:.6f} (expected {2.0**2})")

print("3. flexibility on a grid with a single non-zero mode length")
for n in (2, 3, 4):
    cfm = ift.CorrelatedFieldMaker("")
    cfm.add_fluctuations(ift.RGSpace((n,), 0.5), (1.0, 0.1), (1.0, 0.1), None, (-2.0, 0.1))
    cfm.set_amplitude_total_offset(0.0, (1.0, 0.1))
    op = cfm.finalize()
    print(f"   RGSpace(({n},)): field =", op(ift.full(op.domain, 0.5)).asnumpy())
