"""C16 genuine defect: NewtonCG raises ValueError('Cannot find descent direction') on a convex 1-pixel
quadratic with a positive metric, i.e. the minimiser reports neither CONVERGED nor ERROR.

Cause: for the first Newton step NewtonCG.get_descent_direction runs the inner ConjugateGradient under
GradientNormController(iteration_limit=5) - no tolerance at all.  CG has solved the 1x1 system after one
iteration (residual ~1e-16, pure round-off) but has to go on; with nreset=2 the residual is then recomputed
from the position, comes out with the opposite sign of the recursively updated one, the new search direction
cancels to ~1e-31 while gamma stays ~1e-31, alpha = gamma/curv ~ 1e30, the iterate jumps away from the
solution, the next direction is exactly 0, CG returns ERROR ("curv==0") and NewtonCG raises.

Run:  /venv/bin/python /verif/fixes/C16_repro.py        (unchanged tree: prints the ValueError)
Fix:  /verif/fixes/C16_newtoncg_first_cg_without_tolerance.diff
"""
import numpy as np

import nifty.cl as ift

A, B = 7.671875, -3.884765625      # f(x) = A/2 x^2 - B x, f'' = A > 0


class Quad1D(ift.Energy):
    @property
    def value(self):
        x = self._position.asnumpy()[0]
        return float(0.5*A*x*x - B*x)

    @property
    def gradient(self):
        return ift.makeField(self._position.domain, A*self._position.asnumpy() - B)

    @property
    def metric(self):
        return ift.ScalingOperator(self._position.domain, A)

    def apply_metric(self, x):
        return self.metric(x)


dom = ift.DomainTuple.make(ift.UnstructuredDomain(1))
e0 = Quad1D(ift.makeField(dom, np.zeros(1)))
try:
    e, status = ift.NewtonCG(ift.GradientNormController(iteration_limit=3), nreset=2)(e0)
    print("ok: status", status, "x =", e.position.asnumpy(), "(exact minimiser", B/A, ")")
except ValueError as ex:
    print("DEFECT: NewtonCG raised ValueError:", ex)
