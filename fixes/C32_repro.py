"""C32 minimal reproduction: HMC accepts a proposal whose energy is NaN with probability one.

/venv/bin/python fixes/C32_repro.py            (unchanged tree: prints accepted=True, chain all NaN)
"""
import warnings

import jax

jax.config.update("jax_enable_x64", True)
import jax.numpy as jnp  # noqa: E402
import nifty.re as jft  # noqa: E402

warnings.filterwarnings("ignore")
pot = lambda x: x ** 4 / 4.0  # noqa: E731
sampler = jft.HMCChain(potential_energy=pot, inverse_mass_matrix=1.0, position_proto=jnp.array(0.0),
                       num_steps=12, step_size=2.0)
chain, _ = sampler.generate_n_samples(key=0, initial_position=jnp.array(1.5), num_samples=20,
                                      save_intermediates=True)
print("accepted flags :", [bool(a) for a in chain.trees.accepted])
print("samples        :", [float(s) for s in chain.samples])
print("acceptance     :", float(chain.acceptance))
# expected: a trajectory that overflows (energy NaN) has acceptance probability 0, the chain stays at 1.5
assert not bool(jnp.any(jnp.isnan(chain.samples))), "HMC moved to NaN"
