# C34: a resumed ELBO run with n_eigenvalues == number of relevant dofs stops early
# (fixes/C34_resume_early_stop_with_all_eigenvalues.diff)
#
# Docstring of estimate_evidence_lower_bound (classic and JAX): "if `n_eigenvalues` equals the total number of
# relevant degrees of freedom of the problem, all relevant eigenvalues are always computed irrespective of other
# stopping criteria."  In one go this holds (dense branch of _eigsh); when the same call is given a partial
# eigensystem through resume_eigenvalues/resume_eigenvectors, _eigsh applies the min_lh_eval early-stop test to the
# precomputed eigenvalues and returns without computing the rest, so "one go" and "resumed" differ.
import tempfile

import numpy as np

import nifty.cl as ift

dom = ift.UnstructuredDomain(2)
R = ift.makeOp(ift.makeField(dom, np.array([1.0, 0.5])), sampling_dtype=np.float64)   # metric eigenvalues 2, 1.25
lh = ift.GaussianEnergy(data=ift.makeField(dom, np.array([1.0, 1.0]))) @ R
ham = ift.StandardHamiltonian(lh)
mean = ift.makeField(dom, np.array([0.5, 0.4]))
samples = ift.ResidualSampleList(mean, [ift.makeField(dom, np.array([1.0, 0.0])), ift.makeField(dom, np.array([0.0, 1.0]))],
                                 [False, False])
kw = dict(min_lh_eval=4.0, verbose=False)
with tempfile.TemporaryDirectory() as td:
    one_go, _ = ift.estimate_evidence_lower_bound(ham, samples, 2, **kw)
    ift.estimate_evidence_lower_bound(ham, samples, 1, output_directory=td, **kw)
    ev, evec = np.load(td + "/metric_signal_eigenvalues.npy"), np.load(td + "/metric_signal_eigenvectors.npy")
    resumed, st = ift.estimate_evidence_lower_bound(ham, samples, 2, resume_eigenvalues=ev, resume_eigenvectors=evec, **kw)
a = np.array([s.asnumpy() for s in one_go.iterator()])
b = np.array([s.asnumpy() for s in resumed.iterator()])
print("one go :", a)
print("resumed:", b, " difference", b - a, " = 1/2 log(1.25) =", 0.5 * np.log(1.25))
# same with nifty.re.estimate_evidence_lower_bound (both trace_log_space values); with the default min_lh_eval=1e-3
# the resumed run silently drops every relevant eigenvalue below 1.001 (e.g. the unit eigenvalues of a
# rank-deficient response) although all of them were requested.
