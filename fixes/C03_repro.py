import numpy as np, nifty.cl as ift
d = ift.makeDomain(ift.UnstructuredDomain(3))
x = ift.makeField(d, np.array([0.5, -2., 3.]))
op = ift.ScalingOperator(d, 1.).clip(None, 1.)
print("A plain :", op(x).asnumpy())
try:
    print("A lin   :", op(ift.Linearization.make_var(x)).val.asnumpy())
except Exception as e:
    print("A lin   :", type(e).__name__, e)
lh = ift.GaussianEnergy(domain=d, sampling_dtype=np.float64)
reg = ift.Squared2NormOperator(d)
print("C reg+lh:", (reg + lh)(x).asnumpy())
try:
    print("C lh+reg:", (lh + reg)(x).asnumpy())
except Exception as e:
    print("C lh+reg:", type(e).__name__, e)
