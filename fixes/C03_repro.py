import numpy as np, nifty.cl as ift
d = ift.makeDomain(ift.UnstructuredDomain(3))
x = ift.makeField(d, np.array([0.5, -2., 3.]))
op = ift.ScalingOperator(d, 1.).clip(None, 1.)
print("A plain :", op(x).asnumpy())
try:
    print("A lin   :", op(ift.Linearization.make_var(x)).val.asnumpy())
except Exception as e:
    print("A lin   :", type(e).__name__, e)
lh = ift.GaussianEnergy(domain=d, sampling_dtype=np.float64)
reg = ift.Squared2NormOperator(d)
print("C reg+lh:", (reg + lh)(x).asnumpy())
try:
    print("C lh+reg:", (lh + reg)(x).asnumpy())
except Exception as e:
    print("C lh+reg:", type(e).__name__, e)

# D  (fixes/C03_sinc_small_argument.diff) derivative of the point-wise sinc for small arguments:
#    (cos(pi v) - sinc(v))/v cancels; true derivative ~ -pi^2 v / 3
v = np.array([2.**-20, 2.**-27, 2.**-30])
xs = ift.makeField(ift.makeDomain(ift.UnstructuredDomain(3)), v)
jac = ift.ScalingOperator(xs.domain, 1.).sinc()(ift.Linearization.make_var(xs)).jac
print("D library :", jac(ift.full(xs.domain, 1.)).asnumpy())
print("D true    :", -np.pi**2*v/3)

# E  (fixes/C03_einsum_lonely_sum_index.diff) an index summed over within one operand only: the Jacobian
#    cannot be applied in adjoint direction (value and jac.times are fine)
A, B, C = ift.UnstructuredDomain(2), ift.UnstructuredDomain(3), ift.UnstructuredDomain(4)
mle = ift.MultiLinearEinsum({"a": (A, B), "b": (C,)}, "ij,k->ik")
xm = ift.full(mle.domain, 1.)
lin = mle(ift.Linearization.make_var(xm))
print("E value   :", lin.val.asnumpy().tolist(), " == numpy:", np.einsum("ij,k->ik", np.ones((2, 3)), np.ones(4)).tolist())
try:
    print("E adjoint :", lin.jac.adjoint_times(ift.full(mle.target, 1.)).asnumpy())
except Exception as e:
    print("E adjoint :", type(e).__name__, e)
