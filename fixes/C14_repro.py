"""Minimal standalone reproduction of the C14 finding (run: /venv/bin/python /verif/fixes/C14_repro.py).

DeltaEnergyController.check computes  rel = |E_old - E| / max(|E_old|, |E|)  unconditionally.  At the start
of a run E_old = 0; if the initial energy is exactly 0 as well (start position 0 - which is what
InversionEnabler always uses) both are Python floats and the division raises ZeroDivisionError.
"""
import numpy as np

import nifty.cl as ift

dom = ift.UnstructuredDomain(2)
A = ift.DiagonalOperator(ift.makeField(dom, np.array([1., 2.])))
b = ift.makeField(dom, np.array([1., 0.5]))
ic = ift.DeltaEnergyController(tol_rel_deltaE=1e-6, iteration_limit=10)


class TimesOnly(ift.EndomorphicOperator):
    """diag(1, 2) without a native inverse"""

    def __init__(self):
        self._domain = ift.DomainTuple.make(dom)
        self._capability = self.TIMES

    def apply(self, x, mode):
        self._check_input(x, mode)
        return A(x)


for what, run in [
        ("ConjugateGradient from x0 = 0",
         lambda: ift.ConjugateGradient(ic)(ift.QuadraticEnergy(ift.full(dom, 0.), A, b))[0].position.asnumpy()),
        ("InversionEnabler(...).inverse_times",
         lambda: ift.InversionEnabler(TimesOnly(), ic).inverse_times(b).asnumpy())]:
    try:
        print(what, "->", run(), " expected", b.asnumpy() / np.array([1., 2.]))
    except ZeroDivisionError as e:
        print(what, "-> ZeroDivisionError:", e)
