"""C13 defect: SumOperator.draw_sample ignores the signs of its terms.

A - B (positive definite) is sampled as sample(A) + sample(B), i.e. with covariance A + B:
neither the covariance of the operator nor a refusal.  Run: /venv/bin/python fixes/C13_repro.py
Fix: fixes/C13_sum_negative_terms.diff (refuse with NotImplementedError when a term is negative).
"""
import contextlib
import io

import numpy as np

import nifty.cl as ift

dom = ift.DomainTuple.make(ift.UnstructuredDomain(2))
A = ift.ScalingOperator(dom, 4., np.float64)
m = np.array([[1., 0.5], [0., 1.]])
B = ift.SandwichOperator.make(ift.MatrixProductOperator(dom, m), None, np.float64)   # m^T m
op = A - B                                     # = [[3, -.5], [-.5, 2.75]], positive definite
print(type(op).__name__, "neg flags:", op._neg)
try:
    with ift.random.Context(1), contextlib.redirect_stdout(io.StringIO()):
        s = np.array([op.draw_sample().asnumpy() for _ in range(40000)])
except NotImplementedError as e:
    print("refused (fixed tree):", e)
else:
    print("sample covariance:\n", np.round(s.T @ s / len(s), 2))
    print("operator A - B:\n", 4 * np.eye(2) - m.T @ m)
    print("A + B:\n", 4 * np.eye(2) + m.T @ m)
