"""Minimal standalone reproductions of the C12 findings (run with /venv/bin/python; prints one line per finding).

Each block states the expectation derived from the docstrings; "DEFECT" lines disappear once the
corresponding /verif/fixes/C12_*.diff is applied.
"""
import jax

jax.config.update("jax_enable_x64", True)
import jax.numpy as jnp  # noqa: E402
import numpy as np  # noqa: E402
from scipy.special import softmax  # noqa: E402

import nifty.re as jft  # noqa: E402


def dense(f, n, shape):
    return np.array([np.asarray(f(jnp.eye(n)[i].reshape(shape))).ravel() for i in range(n)]).T


# 1. Categorical: batch-wide normalisation term --------------------------------------------------
lh = jft.Categorical(jnp.array([[1], [0]]), axis=-1)
p = jnp.array([[0.5, -1.0, 2.0], [0.25, 0.0, 1.0]])
M = dense(lambda t: lh.metric(p, t), 6, (2, 3))
F = np.zeros((6, 6))
for r in range(2):
    pi = softmax(np.asarray(p[r]))
    F[3 * r:3 * r + 3, 3 * r:3 * r + 3] = np.diag(pi) - np.outer(pi, pi)
print("1 categorical batch metric vs Fisher: max err", np.abs(M - F).max(), "DEFECT" if np.abs(M - F).max() > 1e-12 else "ok")

# 2. Categorical: lsm_tangents_shape is the data shape -------------------------------------------
import inspect  # noqa: E402
kw = {"n_categories": 3} if "n_categories" in inspect.signature(jft.Categorical.__init__).parameters else {}
lh = jft.Categorical(jnp.array([2]), **kw)
p = jnp.array([0.5, -1.0, 2.0])
t = jnp.array([1.0, 0.5, -0.5])
lr = lh.left_sqrt_metric(p, lh.right_sqrt_metric(p, t))
err = float(jnp.abs(lr - lh.metric(p, t)).max())
print("2 categorical L(R(t)) vs metric(t): max err", err, "lsm_tangents_shape =", lh.lsm_tangents_shape,
      "DEFECT" if err > 1e-12 else "ok (n_categories given?)")

# 3. array noise_std_inv without noise_cov_inv ---------------------------------------------------
try:
    jft.Gaussian(jnp.array([1.0, 2.0]), noise_std_inv=jnp.array([2.0, 1.0]))
    print("3 Gaussian(data, noise_std_inv=array): ok")
except TypeError as e:
    print("3 Gaussian(data, noise_std_inv=array): DEFECT TypeError:", e)

# 4. StudentT: per-datum dof and non-diagonal noise ----------------------------------------------
S = np.array([[2.0, 0.5], [0.5, 1.0]])
st = jft.StudentT(jnp.array([1.0, 2.0]), jnp.array([1.0, 5.0]),
                  noise_cov_inv=lambda x: jnp.asarray(S @ S) @ x, noise_std_inv=lambda x: jnp.asarray(S) @ x)
p = jnp.zeros(2)
M = dense(lambda t: st.metric(p, t), 2, (2,))
L = dense(lambda t: st.left_sqrt_metric(p, t), 2, (2,))
c = np.diag([(1 + 1) / (1 + 3), (5 + 1) / (5 + 3)])
print("4 StudentT metric symmetric:", np.allclose(M, M.T), " metric == L L^T:", np.allclose(M, L @ L.T),
      " L L^T == Fisher S c S:", np.allclose(L @ L.T, S @ c @ S),
      "DEFECT" if not np.allclose(M, L @ L.T) else "ok")

# 5. VariableCovarianceGaussian, complex data: transformation in expectation ---------------------
m, s = 0.5 + 0.5j, 0.5
EJJ = 0
for z in (1 + 1j, 1 - 1j, -1 + 1j, -1 - 1j):          # 2-point Gauss-Hermite per real coordinate
    lh = jft.VariableCovarianceGaussian(jnp.array([m + z / s]))

    def T(x):
        out = lh.transformation((x[0:1] + 1j * x[1:2], x[2:3]))
        return jnp.concatenate([out[0].real, out[0].imag, out[1]])
    Jk = np.asarray(jax.jacfwd(T)(jnp.array([m.real, m.imag, s])))
    EJJ = EJJ + Jk.T @ Jk / 4
print("5 complex VCG: E_d[J^T J] diag =", np.diag(EJJ), " metric diag =", [s ** 2, s ** 2, 4 / s ** 2],
      "DEFECT" if abs(EJJ[2, 2] - 4 / s ** 2) > 1e-9 else "ok")

# 5b. after repo commit f973d98 (fix of 5 with jnp.sqrt): Vector data crashes in transformation ----------
lhv = jft.VariableCovarianceGaussian(jft.Vector({"a": jnp.array([1.0, 2.0])}))
pv = (jft.Vector({"a": jnp.array([0.5, 1.0])}), jft.Vector({"a": jnp.array([1.0, 2.0])}))
try:
    lhv.transformation(pv)
    print("5b VCG.transformation with Vector data: ok")
except TypeError as e:
    print("5b VCG.transformation with Vector data: DEFECT TypeError:", str(e)[:80])

# 6. (known, no small fix) NDVariableCovarianceGaussian.transformation, non-commuting tangent ----
X = np.array([[2.0, 0.75], [0.75, 1.0]])
mv = np.array([0.5, -0.25])
w, U = np.linalg.eigh(X)
root = U @ np.diag(np.sqrt(w)) @ U.T
EJJ = 0
for k in range(2):
    for sg in (1.0, -1.0):
        lh = jft.NDVariableCovarianceGaussian(jnp.asarray(mv + sg * np.sqrt(2) * root[:, k]))

        def T(x):
            out = lh.transformation((x[:2], x[2:].reshape(2, 2)))
            return jnp.concatenate([out[0], out[1].ravel()])
        Jk = np.asarray(jax.jacfwd(T)(jnp.concatenate([jnp.asarray(mv), jnp.asarray(X).ravel()])))
        EJJ = EJJ + Jk.T @ Jk / 4
Xi = np.linalg.inv(X)
e = np.zeros(6)
e[3] = e[4] = 1.0                                        # symmetric off-diagonal tangent
print("6 ND Gaussian off-diagonal tangent: E_d[J^T J] =", e @ EJJ @ e, " metric =", e[2:] @ (0.5 * np.kron(Xi, Xi)) @ e[2:])

# 7. (known) the same transformation has a NaN Jacobian at a covariance with a repeated eigenvalue
lh = jft.NDVariableCovarianceGaussian(jnp.zeros(2))
Jn = jax.jacfwd(lambda X_: lh.transformation((jnp.zeros(2), X_))[1])(jnp.eye(2))
print("7 ND Gaussian d transformation / d covariance at the identity finite:", bool(jnp.all(jnp.isfinite(Jn))))
