import jax, jax.numpy as jnp
jax.config.update("jax_enable_x64", True)
from nifty.re import optimize as O

# 1. compiled Newton-CG applies the absdelta convergence test one line-search trial too strictly
#    (eager: `naive_ls_it < 2` with a 0-based trial index; compiled: `ret_ls["iteration"] < 2` with a 1-based counter)
#    f = -x^2/2 + x^4/4 from x0 = 0.7: the Newton step is accepted after ONE halving, energy gain 0.058 < absdelta
f = lambda x: jnp.sum(-x**2 / 2 + x**4 / 4)
x0 = jnp.array([0.7])
for name, m in (("eager   ", O._newton_cg), ("compiled", O._static_newton_cg)):
    r = m(f, x0, maxiter=2, absdelta=1.0)
    print("1:", name, "x", r.x, "status", int(r.status), "nit", int(r.nit))
# eager:    x 1.0798 status 0 nit 1  (converged after the first iteration)
# compiled: x 1.0081 status 0 nit 2  (took a second step); with maxiter=1: status 0 vs status 1
#   fix: fixes/C17_static_absdelta_min_cond.diff

# 2. line-search reset steps along the POSITIVE gradient where the curvature along the gradient is negative
#    f = cos(2x+1) - x/8 at x0 = 1.859375: g = 1.875, f'' = -0.0254; all six -g trials x0 - 2^-k (g.g/|g.Hg|) g raise f;
#    the reset direction (g.g / g.Hg) g carries the sign of the curvature, i.e. the next trial is x0 + 39.3 g
f = lambda x: jnp.sum(jnp.cos(2 * x + 1) - 0.125 * x)
x0 = jnp.array([1.859375])
g = jax.grad(f)(x0)
for name, m in (("eager   ", O._newton_cg), ("compiled", O._static_newton_cg)):
    r = m(f, x0, maxiter=1)
    print("2:", name, "x", r.x, "(x - x0)/g", (r.x - x0) / g, "status", int(r.status))
# both: x = 75.55, (x - x0)/g = +39.3 (a step of 74 units along +g); after the fix: no step, status -1
#   fix: fixes/C17_line_search_reset_negative_curvature.diff
