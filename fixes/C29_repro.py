"""C29: documentation inconsistencies in nifty/re/gauss_markov.py (no behavioural defect found).

Run: /venv/bin/python /verif/fixes/C29_repro.py

1. IntegratedWienerProcess docstring prints  dx/dt = y + sigma * asperity * xi1.  Read literally the white-noise
   term adds the variance sigma^2 asperity^2 dt per step; the code (and test_iwp_cumsum_vs_fori, and the
   correlated-field caller) add sigma^2 asperity dt, i.e. the amplitude is sigma * sqrt(asperity).
2. OrnsteinUhlenbeckProcess docstring prints  dx/dt + gamma x = sigma xi, whose steady state has the variance
   sigma^2 / (2 gamma); the code uses Q = sigma^2 (1 - exp(-2 gamma dt)) and x0 = sigma * xi0 for the default
   "steady state" x0, i.e. the steady-state variance is sigma^2 (SDE noise amplitude sigma sqrt(2 gamma)).
The C29 check follows the code/test/steady-state reading; fixes/C29_docstring_parametrisation.diff aligns the text.
"""
import jax
import numpy as np

jax.config.update("jax_enable_x64", True)
import jax.numpy as jnp  # noqa: E402

import nifty.re as jft  # noqa: E402
from nifty.re import gauss_markov as gm  # noqa: E402

sigma, asp, dt = 1.5, 2.0, jnp.array([0.5])
x0 = jnp.zeros(2)
L = np.stack([np.asarray(gm.integrated_wiener_process(jnp.asarray(e).reshape(1, 2), x0, sigma, dt, asp))[1]
              for e in np.eye(2)], axis=1)
var_x = (L @ L.T)[0, 0]
print("IWP  Var[x(dt)] from the code            :", var_x)
print("     sigma^2 (dt^3/3 + asperity   dt)    :", sigma**2 * (0.5**3 / 3 + asp * 0.5))
print("     sigma^2 (dt^3/3 + asperity^2 dt)    :", sigma**2 * (0.5**3 / 3 + asp**2 * 0.5), "(docstring read literally)")

gamma = 2.0
ou = jft.OrnsteinUhlenbeckProcess(sigma, gamma, np.array([0.5, 1.0, 0.25]), name="oup")
cols = []
for k in range(4):
    x = {"oup": jnp.zeros(3), "oup_x0": jnp.zeros(())}
    if k == 0:
        x["oup_x0"] = jnp.ones(())
    else:
        x["oup"] = x["oup"].at[k - 1].set(1.0)
    cols.append(np.asarray(ou(x)))
L = np.stack(cols, axis=1)
print("OU   Var[x(t_i)] from the model, default x0:", np.diag(L @ L.T))
print("     sigma^2                                :", sigma**2)
print("     sigma^2 / (2 gamma)                    :", sigma**2 / (2 * gamma), "(steady state of the printed SDE)")
