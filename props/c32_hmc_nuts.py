"""C32 - HMC and NUTS: reversible volume-preserving dynamics, invariant target (DESIGN 2/C32).

Code under test: nifty/re/hmc.py (leapfrog_step, generate_hmc_acc_rej, generate_nuts_tree and its helpers
iterative_build_tree / add_single_qp_to_tree / merge_trees) and nifty/re/hmc_oo.py (HMCChain, NUTSChain).

Conventions the oracle is built from (docstrings / comments of the anchored code, hmc_oo as the caller):
* stepper(step_size, inverse_mass_matrix, qp) -> qp is `partial(leapfrog_step, grad(V), lambda inv_m, p: inv_m * p)`;
  the kinetic energy is `vdot(inverse_mass_matrix, p**2 / 2)` (diagonal mass matrix, a pytree shaped like q);
  positions are arrays or jft.Vector-wrapped pytrees (test_hmc_pytree.py).
* generate_hmc_acc_rej: num_steps leapfrog steps, then "this flipping is needed to make the proposal
  distribution symmetric": proposal = flip_momentum(end point); accept = random.bernoulli(key, min(1, exp(H0 - H1)));
  a NaN energy difference is special-cased (the guard's intent: never move there); diverging = |H0 - H1| > max.
* generate_nuts_tree: Tree.left/right are the end points of the trajectory, going left integrates with -step_size
  (no momentum flip), `depth` = levels of the tree (2**depth points), `logweight` = log of the summed weights
  exp(-H) of the path, turning = U-turn of either the tree or any of its balanced sub-trees (criterion as cited
  there from Betancourt: p_r.(q_r - q_l) < 0 and p_l.(q_l - q_r) < 0), diverging = "large increase in energy in the
  next larger tree" (|H - H_initial| > max_energy_difference at the last point that was added).

All potentials are members of ONE parametric family written twice - in jax.numpy for the code under test and in
NumPy with a hand-written gradient for the oracle:
    V(x) = 1/2 (x-mu)^T A (x-mu) + sum_i a_i x_i^4 / 4 + b sum_i (x_{i+1} - x_i^2)^2
kind "quad" (A SPD, a=b=0), "quartic" (a>0, A an arbitrary symmetric coupling, may be indefinite: double wells),
"rosen" (b>0, A = w*1: Rosenbrock valley).  The parameters enter the jitted wrappers as arguments, so that XLA
compiles once per position layout and many value-cases run per compile.
"""
import functools
import math

import numpy as np
from hypothesis import strategies as st

from vlib import Sub, Violation, close, require
from vlib import strat as S

PROPERTY = "C32"
LEVEL = "exploration"
RULE = ("Generated potentials of the family 1/2 (x-mu)^T A (x-mu) + sum a_i x_i^4/4 + b sum (x_{i+1}-x_i^2)^2 "
        "(quadratic with generated SPD matrix, quartic incl. double wells, Rosenbrock-like) on five position "
        "layouts (0-d array, 1-d arrays, jft.Vector of a dict, jft.Vector of tuple/dict with a 2-d leaf), dyadic "
        "step sizes, unit/scalar/diagonal inverse mass matrices, step counts, tree depths, PRNG keys. Oracle: the "
        "harness's own NumPy leapfrog with hand-written gradients (orbit of the initial point in both time "
        "directions), NumPy energies, jax.random for the documented uniform draw; chains are compared with closed-form "
        "Gaussian moments / grid-quadrature moments of quartic targets using batch-means standard errors.")
LEVEL_TEXT = ("Search over generated potentials, integrator settings and keys. The deterministic sub-checks decide "
              "every case exactly (1e-9*scale): reversibility (momentum flip and negative step), symplecticity of the "
              "Jacobian (hence volume preservation), the HMC proposal/accept/diverging logic and the complete "
              "structure of a NUTS tree (end points and candidate on the reference orbit, 2**depth points, log-weight, "
              "turning/diverging flags, reason for stopping, validity of every doubling). What cannot be decided per "
              "case - that the random choices inside NUTS/HMC select the candidate with the right probabilities, and "
              "that momenta are refreshed from N(0, M) - is covered by fixed-key chains whose moments are compared "
              "with known values at a threshold of 6 batch-means standard errors plus 3 x max(batch-means, i.i.d.) standard "
              "errors (analytic false-alarm probability < 7e-13 per comparison, see LEVEL_NOTE). Exploration, not proof: "
              "dimension <= 4, tree depth <= 7, float64.")
LEVEL_NOTE = ("Trusted: numpy, jax.random (uniform/bernoulli/PRNGKey), jax.jit/jacfwd/grad, the harness's NumPy "
              "gradients (cross-checked against finite differences of the NumPy potential at import of a recipe). "
              "Statistical threshold: |mean_N(f) - E f| <= 6*SE_bm + 3*max(SE_bm, sigma_f/sqrt(N)) (6 sigma + floor), "
              "N = 32768, SE_bm from 64 batch means of 512 samples (measured autocorrelation times are <= 50, so "
              "batch means are independent), sigma_f the exact standard deviation of f under the target. With "
              "autocorrelation time tau the true standard error is sigma_f*sqrt(tau/N); a false alarm needs |Z| > "
              "6*sqrt(W) + 3*max(sqrt(W), 1/sqrt(tau)) with Z ~ N(0,1), W ~ chi2_63/63, which is bounded by "
              "P(|t_63| > 9) = 6.5e-13 for every tau; <= 400 comparisons per run => < 3e-10 per run. "
              "The i.i.d. momentum-refresh test uses 7 sigma (Gaussian / Laurent-Massart chi-square bound, < 1e-10).")
TECHNIQUE = "PBT: NumPy reference orbit + metamorphic reversibility/symplecticity + fixed-key chain moments"
ASSUMPTIONS = [
    "float64; positions are arrays or jft.Vector pytrees; diagonal (inverse) mass matrices as in hmc_oo",
    "the code under test is called through jax.jit wrappers that pass the potential's parameters as arguments "
    "(an eighth of the leapfrog cases and all chains are run un-jitted, as a user would)",
    "reference leapfrog = kick(eps/2) drift(eps) kick(eps/2) (variable names and docstring of leapfrog_step; Neal 2011)",
    "position comparisons are made only while the reference orbit stays within 1e3 x its initial magnitude "
    "(round-off amplification would otherwise exceed 1e-9); beyond that only the accept/diverging logic is checked",
    "a proposal whose energy is NaN or +inf has acceptance probability 0 (a Markov transition must stay in the "
    "support of the target; this is the evident intent of the NaN guard in generate_hmc_acc_rej)",
    "NUTS: the doubling directions are not reconstructed from the key; they are implied by the returned interval "
    "[left, right] around the initial point. For a tree that stopped because the next sub-tree failed, the oracle "
    "requires that the failed attempt in at least one of the two directions explains the stop and the diverging flag",
    "NUTS cases in which the reference orbit produces non-finite energies with max_energy_difference=inf are "
    "skipped (behaviour unspecified); comparisons within 1e-9*scale of a decision boundary are counted as "
    "'ambiguous' and not asserted",
    "U-turn criterion re-derived exactly as cited in is_euclidean_uturn (Betancourt 2017, A.4.2); any criterion that "
    "is a function of the end points leaves the target invariant, so the choice is not part of the property",
    "depth may reach max_tree_depth+1 (the loop doubles while depth <= max_tree_depth; the source comment in "
    "iterative_build_tree acknowledges it) - recorded as an observation against the docstring's 2**max_tree_depth, "
    "not demanded",
    "max_tree_depth >= 1 (observation: max_tree_depth=0 raises IndexError inside iterative_build_tree because the "
    "buffer of sub-tree end points has size 0; degenerate value, outside the statement)",
    "not demanded because the statement is silent: Tree.cumulative_acceptance, Chain.acceptance of NUTS",
    "HMC chains on Gaussians: the number of leapfrog steps is chosen by the harness (from the recipe's spectrum) so "
    "that no eigen-mode is rotated by a multiple of pi per transition (a fixed-length HMC chain is then not ergodic; "
    "that is not a defect) - theoretical autocorrelation time <= 5 for spectra with omega_max/omega_min <= sqrt(3)",
]

LAYOUTS = {"scalar": 1, "flat2": 2, "flat3": 3, "dict3": 3, "nest4": 4}
TOL = 1e-9


# ---------------------------------------------------------------------------------------------- lazy imports
@functools.lru_cache(None)
def _jx():
    import jax
    import jax.numpy as jnp
    import nifty.re as jft
    from nifty.re import hmc, hmc_oo
    jax.config.update("jax_enable_x64", True)
    return jax, jnp, jft, hmc, hmc_oo


# ---------------------------------------------------------------------------------------------- layouts
def pack(layout, x):
    jax, jnp, jft, hmc, _ = _jx()
    x = jnp.asarray(np.asarray(x, dtype=np.float64))
    if layout == "scalar":
        return x[0]
    if layout in ("flat2", "flat3"):
        return x
    if layout == "dict3":
        return jft.Vector({"a": x[:2], "b": x[2:3]})
    if layout == "nest4":
        return jft.Vector(({"lvl0": x.reshape(2, 2)},))
    raise ValueError(layout)


def jflat(layout, pos):
    """traceable flattening of a position in the harness's own order"""
    jax, jnp, jft, hmc, _ = _jx()
    if layout == "scalar":
        return jnp.reshape(pos, (1,))
    if layout in ("flat2", "flat3"):
        return pos
    if layout == "dict3":
        return jnp.concatenate([pos.tree["a"], pos.tree["b"]])
    if layout == "nest4":
        return jnp.reshape(pos.tree[0]["lvl0"], (4,))
    raise ValueError(layout)


def unpack(layout, pos, what="output"):
    """NumPy flat view of a position returned by the code under test (structure errors -> Violation)"""
    try:
        out = np.asarray(jflat(layout, pos), dtype=np.float64)
    except Exception as e:  # noqa: BLE001
        raise Violation("output_structure", f"{what}: {type(pos)} {e!r}")
    if out.shape != (LAYOUTS[layout],):
        raise Violation("output_structure", f"{what}: shape {out.shape}")
    return out


def unpack_qp(layout, qp, what="qp"):
    return np.concatenate([unpack(layout, qp.position, what + ".position"),
                           unpack(layout, qp.momentum, what + ".momentum")])


# ---------------------------------------------------------------------------------------------- potentials
def vflat_j(theta, x):
    jax, jnp, jft, hmc, _ = _jx()
    A, mu, a, b = theta
    d = x - mu
    v = 0.5 * jnp.dot(d, jnp.dot(A, d)) + jnp.sum(a * x ** 4) / 4.0
    if x.shape[0] > 1:
        v = v + b * jnp.sum((x[1:] - x[:-1] ** 2) ** 2)
    return v


def theta_j(rec):
    jax, jnp, jft, hmc, _ = _jx()
    th = theta_np(rec)
    return tuple(jnp.asarray(t) for t in th)


def theta_np(rec):
    return (np.array(rec["A"], dtype=np.float64), np.array(rec["mu"], dtype=np.float64),
            np.array(rec["a"], dtype=np.float64), np.float64(rec["b"]))


def v_np(th, x):
    A, mu, a, b = th
    d = x - mu
    v = 0.5 * d @ (A @ d) + np.sum(a * x ** 4) / 4.0
    if x.size > 1:
        v = v + b * np.sum((x[1:] - x[:-1] ** 2) ** 2)
    return v


def g_np(th, x):
    """hand-written gradient of v_np"""
    A, mu, a, b = th
    g = A @ (x - mu) + a * x ** 3
    if x.size > 1:
        r = x[1:] - x[:-1] ** 2
        g[1:] += 2.0 * b * r
        g[:-1] += -4.0 * b * x[:-1] * r
    return g


def lf_np(th, invm, eps, q, p):
    """reference leapfrog step: kick(eps/2) drift(eps) kick(eps/2)"""
    ph = p - 0.5 * eps * g_np(th, q)
    q1 = q + eps * invm * ph
    p1 = ph - 0.5 * eps * g_np(th, q1)
    return q1, p1


def h_np(th, invm, q, p):
    return v_np(th, q) + 0.5 * np.sum(invm * p * p)


def _selfcheck_gradient(th, x):
    """harness self-test (harness error, never a violation): g_np is the gradient of v_np"""
    h = 1e-5
    g = g_np(th, x.copy())
    for i in range(x.size):
        e = np.zeros_like(x)
        e[i] = h
        fd = (v_np(th, x + e) - v_np(th, x - e)) / (2 * h)
        if abs(fd - g[i]) > 1e-5 * max(1.0, abs(g[i]), abs(v_np(th, x)) / h * 1e-9):
            raise AssertionError(f"harness gradient wrong: {fd} vs {g[i]}")


# ---------------------------------------------------------------------------------------------- code-under-test wrappers
def _kin(jft):
    return lambda inv_m, mom: jft.vdot(inv_m, mom ** 2 / 2.0)


def _kgrad(inv_m, mom):
    return inv_m * mom


def _pot(layout, theta):
    return lambda pos: vflat_j(theta, jflat(layout, pos))


@functools.lru_cache(None)
def jit_step(layout):
    jax, jnp, jft, hmc, _ = _jx()

    def f(theta, eps, invm, q, p):
        pot = _pot(layout, theta)
        return hmc.leapfrog_step(jax.grad(pot), _kgrad, eps, invm, hmc.QP(q, p))
    return jax.jit(f)


def eager_step(layout, theta):
    jax, jnp, jft, hmc, _ = _jx()
    gr = jax.grad(_pot(layout, theta))

    def f(_theta, eps, invm, q, p):
        return hmc.leapfrog_step(gr, _kgrad, eps, invm, hmc.QP(q, p))
    return f


def _unflat(layout, x):
    jax, jnp, jft, hmc, _ = _jx()
    if layout == "scalar":
        return x[0]
    if layout in ("flat2", "flat3"):
        return x
    if layout == "dict3":
        return jft.Vector({"a": x[:2], "b": x[2:3]})
    return jft.Vector(({"lvl0": x.reshape(2, 2)},))


@functools.lru_cache(None)
def jit_jacobian(layout):
    """Jacobian (forward mode) of k leapfrog_step calls w.r.t. the flattened (q, p)"""
    jax, jnp, jft, hmc, _ = _jx()
    n = LAYOUTS[layout]

    def flow(z, theta, eps, invm, k):
        gr = jax.grad(_pot(layout, theta))
        qp = hmc.QP(_unflat(layout, z[:n]), _unflat(layout, z[n:]))
        qp = jax.lax.fori_loop(0, k, lambda _, a: hmc.leapfrog_step(gr, _kgrad, eps, invm, a), qp)
        return jnp.concatenate([jflat(layout, qp.position), jflat(layout, qp.momentum)])

    def f(theta, eps, invm, z, k):
        return jax.jacfwd(flow)(z, theta, eps, invm, k)
    return jax.jit(f)


@functools.lru_cache(None)
def jit_accrej(layout):
    jax, jnp, jft, hmc, _ = _jx()

    def f(theta, key, eps, invm, q, p, nsteps, maxde):
        pot = _pot(layout, theta)
        stepper = functools.partial(hmc.leapfrog_step, jax.grad(pot), _kgrad)
        return hmc.generate_hmc_acc_rej(
            key=key, initial_qp=hmc.QP(q, p), potential_energy=pot, kinetic_energy=_kin(jft),
            inverse_mass_matrix=invm, stepper=stepper, num_steps=nsteps, step_size=eps,
            max_energy_difference=maxde)
    return jax.jit(f)


@functools.lru_cache(None)
def jit_nuts(layout, max_depth, bias):
    jax, jnp, jft, hmc, _ = _jx()

    def f(theta, key, eps, invm, q, p, maxde):
        pot = _pot(layout, theta)
        stepper = functools.partial(hmc.leapfrog_step, jax.grad(pot), _kgrad)
        return hmc.generate_nuts_tree(
            initial_qp=hmc.QP(q, p), key=key, step_size=eps, max_tree_depth=max_depth, stepper=stepper,
            potential_energy=pot, kinetic_energy=_kin(jft), inverse_mass_matrix=invm,
            bias_transition=bias, max_energy_difference=maxde)
    return jax.jit(f)


# ---------------------------------------------------------------------------------------------- strategies
D4 = S.dyadic(-1.0, 1.0, 4)
KEY = st.integers(0, 2 ** 31 - 1)


@st.composite
def system(draw, layouts=tuple(LAYOUTS), boost=(1,)):
    layout = draw(st.sampled_from(list(layouts)))
    n = LAYOUTS[layout]
    kind = draw(st.sampled_from(["quad", "quartic"] + (["rosen", "rosen"] if n > 1 else [])))
    zeros = [0.0] * n
    if kind == "quad":
        B = np.array(draw(S.mat(n, n, D4)))
        d = draw(S.vec(n, S.dyadic(0.5, 2.0, 4)))
        A = (B @ B.T / 4.0 + np.diag(d)).tolist()
        mu, a, b = draw(S.vec(n, D4)), zeros, 0.0
        eps = draw(S.dyadic(1 / 32, 1 / 2, 32))
    elif kind == "quartic":
        C = np.array(draw(S.mat(n, n, S.dyadic(-0.5, 0.5, 4))))
        A = ((C + C.T) / 2.0).tolist()
        mu = draw(S.vec(n, D4))
        a, b = draw(S.vec(n, S.dyadic(0.25, 1.0, 4))), 0.0
        eps = draw(S.dyadic(1 / 64, 1 / 4, 64))
    else:
        w = draw(S.dyadic(0.25, 1.0, 4))
        A = (w * np.eye(n)).tolist()
        mu, a = draw(S.vec(n, D4)), zeros
        b = draw(S.dyadic(0.125, 1.0, 8))
        eps = draw(S.dyadic(1 / 64, 1 / 8, 64))
    mass = draw(st.sampled_from(["unit", "scalar", "diag", "diag"]))
    if mass == "unit":
        invm = [1.0] * n
    elif mass == "scalar":
        invm = [draw(S.dyadic(0.5, 2.0, 4))] * n
    else:
        invm = draw(S.vec(n, S.dyadic(0.5, 2.0, 4)))
    eps = eps * draw(st.sampled_from(list(boost)))
    return {"layout": layout, "kind": kind, "A": A, "mu": mu, "a": a, "b": b, "mass": mass, "invm": invm,
            "eps": eps, "q": draw(S.vec(n, S.dyadic(-1.5, 1.5, 8))), "p": draw(S.vec(n, S.dyadic(-2.0, 2.0, 8)))}


def _sys_classes(rec):
    return [rec["kind"], rec["layout"], "mass_" + rec["mass"]]


def _setup(rec):
    layout = rec["layout"]
    th = theta_np(rec)
    invm = np.array(rec["invm"], dtype=np.float64)
    q = np.array(rec["q"], dtype=np.float64)
    p = np.array(rec["p"], dtype=np.float64)
    _selfcheck_gradient(th, q)
    return layout, th, invm, q, p


def _orbit(th, invm, eps, q, p, k):
    qs, ps = [q], [p]
    with np.errstate(all="ignore"):
        for _ in range(k):
            q, p = lf_np(th, invm, eps, q, p)
            qs.append(q)
            ps.append(p)
    return np.array(qs), np.array(ps)


def _growth(qs, ps):
    z = np.concatenate([qs, ps], axis=1)
    if not np.all(np.isfinite(z)):
        return np.inf, np.inf
    m0 = max(1.0, float(np.max(np.abs(z[0]))))
    m = float(np.max(np.abs(z)))
    return m / m0, max(1.0, m)


# ---------------------------------------------------------------------------------------------- 1 leapfrog reversibility
def leapfrog_recipes(tier):
    @st.composite
    def rec(draw):
        r = draw(system())
        r["eager"] = draw(st.integers(0, 7)) == 0
        # un-jitted calls differentiate the potential op by op (slow): few steps only
        r["k"] = draw(st.integers(1, 2)) if r["eager"] else draw(st.integers(1, 16 if tier == "quick" else 48))
        return r
    return rec()


def check_leapfrog(rec):
    jax, jnp, jft, hmc, _ = _jx()
    layout, th, invm, q, p = _setup(rec)
    eps, k = rec["eps"], rec["k"]
    qs, ps = _orbit(th, invm, eps, q, p, k)
    growth, scale = _growth(qs, ps)
    if growth > 1e3:
        return dict(nontrivial=False, classes=["unstable_skipped"])
    thj = theta_j(rec)
    step = eager_step(layout, thj) if rec["eager"] else jit_step(layout)
    invm_j = pack(layout, invm)

    def run(eps_, qp, nst, ref=None):
        for i in range(nst):
            qp = step(thj, eps_, invm_j, qp.position, qp.momentum)
            if ref is not None:
                z = unpack_qp(layout, qp, "leapfrog_step")
                close(z, np.concatenate([ref[0][i + 1], ref[1][i + 1]]), "step_vs_reference_leapfrog",
                      tol=TOL, scale=scale, detail=f"step {i + 1}")
        return qp

    z0 = np.concatenate([q, p])
    start = hmc.QP(pack(layout, q), pack(layout, p))
    end = run(eps, start, k, ref=(qs, ps))
    # time reversal by momentum flip: Phi^k(flip(Phi^k(z))) == flip(z)
    back = hmc.flip_momentum(run(eps, hmc.flip_momentum(end), k))
    close(unpack_qp(layout, back, "reversed"), z0, "not_reversible_momentum_flip", tol=TOL, scale=scale)
    # the form NUTS relies on: integrating with -eps undoes integrating with +eps
    back2 = run(-eps, end, k)
    close(unpack_qp(layout, back2, "reversed"), z0, "not_reversible_negative_step", tol=TOL, scale=scale)
    nonlin = rec["kind"] != "quad"
    cls = _sys_classes(rec) + ["eager" if rec["eager"] else "jit", "k>=8" if k >= 8 else "k<8"]
    return dict(nontrivial=bool(k >= 2 and (nonlin or LAYOUTS[layout] >= 2)), classes=cls)


# ---------------------------------------------------------------------------------------------- 2 symplecticity
def symplectic_recipes(tier):
    @st.composite
    def rec(draw):
        r = draw(system())
        r["k"] = draw(st.integers(1, 6 if tier == "quick" else 24))
        return r
    return rec()


def check_symplectic(rec):
    jax, jnp, jft, hmc, _ = _jx()
    layout, th, invm, q, p = _setup(rec)
    n = q.size
    eps, k = rec["eps"], rec["k"]
    qs, ps = _orbit(th, invm, eps, q, p, k)
    growth, _ = _growth(qs, ps)
    if growth > 1e3:
        return dict(nontrivial=False, classes=["unstable_skipped"])
    z0 = np.concatenate([q, p])
    J = np.asarray(jit_jacobian(layout)(theta_j(rec), eps, pack(layout, invm), jnp.asarray(z0), k),
                   dtype=np.float64)
    require(J.shape == (2 * n, 2 * n), "jacobian_shape", str(J.shape))
    require(bool(np.all(np.isfinite(J))), "jacobian_nonfinite", repr(J))
    Om = np.block([[np.zeros((n, n)), np.eye(n)], [-np.eye(n), np.zeros((n, n))]])
    aJ = np.abs(J)
    sc = max(1.0, float(np.max(aJ.T @ (np.abs(Om) @ aJ))))
    close(J.T @ Om @ J, Om, "not_symplectic", tol=TOL, scale=sc)
    # volume preservation, explicitly
    detscale = max(1.0, float(np.prod(np.sum(aJ, axis=1))))
    close(np.linalg.det(J), 1.0, "volume_not_preserved", tol=TOL, scale=detscale)
    # the Jacobian is that of the reference map (central differences of the NumPy leapfrog)
    h = 1e-5
    Jfd = np.zeros_like(J)
    for i in range(2 * n):
        e = np.zeros(2 * n)
        e[i] = h
        zp, zm = z0 + e, z0 - e
        a = _orbit(th, invm, eps, zp[:n], zp[n:], k)
        b_ = _orbit(th, invm, eps, zm[:n], zm[n:], k)
        Jfd[:, i] = (np.concatenate([a[0][-1], a[1][-1]]) - np.concatenate([b_[0][-1], b_[1][-1]])) / (2 * h)
    close(J, Jfd, "jacobian_vs_reference_flow", tol=1e-5, scale=max(1.0, float(np.max(aJ))) * 10.0)
    offdiag = float(np.max(np.abs(J - np.diag(np.diag(J)))))
    return dict(nontrivial=bool(offdiag > 1e-3 and (rec["kind"] != "quad" or n >= 2)),
                classes=_sys_classes(rec) + ["k>=3" if k >= 3 else "k<3"])


# ---------------------------------------------------------------------------------------------- 3 HMC accept / reject
MAXDE = [None, None, 1000.0, 10.0, 1.0, 0.125]      # None: max_energy_difference = inf (the default)


def accrej_recipes(tier):
    @st.composite
    def rec(draw):
        r = draw(system(boost=(1, 1, 1, 2, 2, 4, 4, 8, 16)))
        r["L"] = draw(st.integers(1, 24 if tier == "quick" else 64))
        r["key"] = draw(KEY)
        r["maxde"] = draw(st.sampled_from(MAXDE))
        return r
    return rec()


def _maxde(rec):
    return math.inf if rec["maxde"] is None else float(rec["maxde"])


def check_accrej(rec):
    jax, jnp, jft, hmc, _ = _jx()
    layout, th, invm, q, p = _setup(rec)
    n = q.size
    eps, L, maxde = rec["eps"], rec["L"], _maxde(rec)
    key = jax.random.PRNGKey(rec["key"])
    res = jit_accrej(layout)(theta_j(rec), key, eps, pack(layout, invm), pack(layout, q), pack(layout, p),
                             L, maxde)
    acc_flag = bool(np.asarray(res.accepted))
    div_flag = bool(np.asarray(res.diverging))
    zacc = unpack_qp(layout, res.accepted_qp, "accepted_qp")
    zrej = unpack_qp(layout, res.rejected_qp, "rejected_qp")
    z0 = np.concatenate([q, p])
    # the initial point is returned unchanged on the side the flag says
    zinit, zprop = (zrej, zacc) if acc_flag else (zacc, zrej)
    close(zinit, z0, "initial_qp_not_returned_on_the_side_of_the_flag", tol=0.0, scale=1.0,
          detail=f"accepted={acc_flag}")

    qs, ps = _orbit(th, invm, eps, q, p, L)
    growth, scale = _growth(qs, ps)
    with np.errstate(all="ignore"):
        H0 = h_np(th, invm, q, p)
        H1 = h_np(th, invm, qs[-1], -ps[-1])
    cls = _sys_classes(rec)
    stable = growth <= 1e3
    if stable:
        # proposal = reference leapfrog iterate with flipped momentum
        close(zprop, np.concatenate([qs[-1], -ps[-1]]), "proposal_vs_reference_leapfrog_flipped", tol=TOL,
              scale=scale, detail=f"L={L} eps={eps}")
    else:
        cls.append("unstable_orbit")

    decided = False
    if not np.isfinite(H1):
        # NaN / inf energy: probability 0
        cls.append("proposal_energy_nonfinite")
        require(not acc_flag, "accepted_proposal_with_nonfinite_energy", f"H0={H0} H1={H1} proposal={zprop}")
        decided = True
    else:
        dH = float(H1 - H0)
        herr = 1e-9 * max(1.0, abs(H0), abs(H1)) * (1.0 if stable else growth)
        if dH - herr > 60.0:
            # exp(-60) < 1e-26 < smallest positive uniform: must be rejected
            require(not acc_flag, "accepted_although_probability_zero", f"dH={dH}")
            decided = True
        elif stable or herr < 1e-6:
            p_lo = min(1.0, math.exp(-(dH + herr)))
            p_hi = min(1.0, math.exp(-(dH - herr)))
            b_lo = bool(np.asarray(jax.random.bernoulli(key, jnp.float64(p_lo))))
            b_hi = bool(np.asarray(jax.random.bernoulli(key, jnp.float64(p_hi))))
            u = float(np.asarray(jax.random.uniform(key, (), dtype=jnp.float64)))
            if b_lo == b_hi:
                # documented draw: bernoulli(key, min(1, exp(-dH))) == (uniform(key) < min(1, exp(-dH)))
                require(acc_flag == b_lo, "accept_flag_vs_uniform_draw",
                        f"accepted={acc_flag} expected={b_lo} u={u} p=min(1,exp(-dH))={p_lo} dH={dH}")
                decided = True
                if p_hi < 1.0:
                    cls.append("p<1")
            else:
                cls.append("ambiguous_tie")
    if decided:
        cls.append("accepted" if acc_flag else "rejected")

    # diverging = |H0 - H1| > max_energy_difference
    if not np.isfinite(H1):
        if math.isinf(maxde):
            pass  # inf > inf is False, nan > inf is False: nothing to demand
        else:
            require(div_flag, "diverging_flag", f"H1={H1} max={maxde} flag={div_flag}")
            cls.append("diverging")
    else:
        adH = abs(float(H1 - H0))
        herr = 1e-9 * max(1.0, abs(H0), abs(H1)) * (1.0 if stable else growth)
        if abs(adH - maxde) > herr:
            require(div_flag == (adH > maxde), "diverging_flag", f"|dH|={adH} max={maxde} flag={div_flag}")
            if div_flag:
                cls.append("diverging")
    return dict(nontrivial=bool(decided and L >= 2 and (rec["kind"] != "quad" or n >= 2)), classes=cls)


# ---------------------------------------------------------------------------------------------- 4 NUTS tree
# (layout, max_tree_depth, bias_transition): one XLA compilation each (max_tree_depth sizes a buffer, so it is static)
NUTS_MENU = [("scalar", 5, True), ("flat2", 1, True), ("flat2", 6, False), ("flat3", 4, True),
             ("dict3", 3, False), ("nest4", 5, True)]


def nuts_recipes(tier):
    @st.composite
    def rec(draw):
        m = draw(st.integers(0, len(NUTS_MENU) - 1))
        r = draw(system(layouts=(NUTS_MENU[m][0],), boost=(1, 2, 2, 4, 4, 8)))
        r["menu"] = m
        r["key"] = draw(KEY)
        r["maxde"] = draw(st.sampled_from([None, None, 1000.0, 1000.0, 4.0, 0.5, 0.0625]))
        return r
    return rec()


class _Ambiguous(Exception):
    pass


class _Orbit:
    """reference orbit of the initial point, indices -N..N (negative: integrated with -eps)"""

    def __init__(self, th, invm, eps, q, p, N):
        fq, fp = _orbit(th, invm, eps, q, p, N)
        bq, bp = _orbit(th, invm, -eps, q, p, N)
        self.N = N
        self.z = {}
        self.H = {}
        with np.errstate(all="ignore"):
            for i in range(N + 1):
                self.z[i] = np.concatenate([fq[i], fp[i]])
                self.H[i] = h_np(th, invm, fq[i], fp[i])
                self.z[-i] = np.concatenate([bq[i], bp[i]])
                self.H[-i] = h_np(th, invm, bq[i], bp[i])
        self.n = q.size

    def mag(self, lo, hi):
        m = 1.0
        for i in range(lo, hi + 1):
            zi = self.z[i]
            if not np.all(np.isfinite(zi)):
                return np.inf
            m = max(m, float(np.max(np.abs(zi))))
        return m


def _uturn(orb, l, r, tolscale):
    """criterion cited in is_euclidean_uturn; l < r are orbit indices. Raises _Ambiguous near the boundary."""
    n = orb.n
    ql, pl = orb.z[l][:n], orb.z[l][n:]
    qr, pr = orb.z[r][:n], orb.z[r][n:]
    d1 = float(pr @ (qr - ql))
    d2 = float(pl @ (ql - qr))
    s = TOL * tolscale * tolscale * n
    if abs(d1) <= s or abs(d2) <= s:
        # only the sign of the *other* factor can still decide
        if (abs(d1) <= s and d2 < -s) or (abs(d2) <= s and d1 < -s) or (abs(d1) <= s and abs(d2) <= s):
            raise _Ambiguous("uturn_tie")
    return d1 < 0.0 and d2 < 0.0


def _attempt(orb, start, direction, depth, maxde, tolscale):
    """early-terminating construction of the 2**depth points next to `start` (recursive definition of a
    turning sub-tree: some aligned dyadic block of >= 2 points has U-turning end points).
    returns (complete, turning, diverging)"""
    H0 = orb.H[0]
    for j in range(1, 2 ** depth + 1):
        i = start + direction * j
        Hi = orb.H[i]
        if np.isnan(Hi) or (np.isinf(Hi) and math.isinf(maxde)):
            raise _Ambiguous("nonfinite_energy")    # NaN > max is False, inf > inf is False: unspecified
        dev = abs(float(Hi - H0))
        herr = TOL * max(1.0, abs(H0), min(abs(Hi), 1e300))
        if abs(dev - maxde) <= herr:
            raise _Ambiguous("energy_tie")
        div = dev > maxde
        turn = False
        k = 1
        while j % (2 ** k) == 0:
            a = start + direction * (j - 2 ** k + 1)
            turn = turn or _uturn(orb, min(a, i), max(a, i), tolscale)
            k += 1
        if div or turn:
            return False, turn, div
    return True, False, False


def _explain(orb, tree, L, d, D, maxde, tolscale):
    """returns None if the tree [L, L+2**d-1] is a legal NUTS result, else (kind, detail)"""
    R = L + 2 ** d - 1
    # candidate inside the tree
    zc = tree["cand"]
    tol = TOL * tolscale
    if not any(np.max(np.abs(zc - orb.z[i])) <= tol for i in range(L, R + 1)):
        return "candidate_not_on_orbit_segment_of_tree", f"L={L} R={R} cand={zc}"
    # log-weight = log sum exp(-H)
    Hs = np.array([orb.H[i] for i in range(L, R + 1)], dtype=np.float64)
    if not np.all(np.isfinite(Hs)):
        raise _Ambiguous("nonfinite_energy")
    m = np.max(-Hs)
    lw = m + math.log(float(np.sum(np.exp(-Hs - m))))
    if abs(lw - tree["logweight"]) > TOL * max(1.0, abs(lw), float(np.max(np.abs(Hs)))):
        return "logweight_vs_logsumexp_of_orbit_energies", f"tree={tree['logweight']} oracle={lw} L={L} R={R}"
    # turning flag of the returned tree
    turning = False if d == 0 else _uturn(orb, L, R, tolscale)
    if turning != tree["turning"]:
        return "turning_flag", f"tree={tree['turning']} oracle={turning} L={L} R={R}"
    # every doubling that was merged was legal
    ivs = [None] * (d + 1)
    ivs[d] = (L, R)
    for j in range(d - 1, -1, -1):
        l, r = ivs[j + 1]
        ivs[j] = (l, l + 2 ** j - 1) if 0 <= l + 2 ** j - 1 else (l + 2 ** j, r)
    for j in range(d):
        l, r = ivs[j]
        went_right = ivs[j + 1][0] == l
        ok, t_, dv = _attempt(orb, r if went_right else l, 1 if went_right else -1, j, maxde, tolscale)
        if not ok:
            return "merged_subtree_was_turning_or_diverging", f"doubling {j} right={went_right} turn={t_} div={dv}"
        if j + 1 < d and _uturn(orb, ivs[j + 1][0], ivs[j + 1][1], tolscale):
            return "continued_after_uturn", f"tree of depth {j + 1} {ivs[j + 1]} was turning"
    # why did it stop, and the diverging flag
    if turning:
        reason, div_opts = "stop_merged_tree_turning", [False]
    elif d == D + 1:
        reason, div_opts = "stop_max_depth", [False]
    else:
        div_opts = []
        reasons = []
        for direction in (1, -1):
            ok, t_, dv = _attempt(orb, R if direction > 0 else L, direction, d, maxde, tolscale)
            if not ok:
                div_opts.append(dv)
                reasons.append("stop_subtree_diverging" if dv else "stop_subtree_turning")
        if not div_opts:
            return "stopped_without_reason", f"depth {d} <= max_tree_depth {D}, no turning, no failing next subtree"
        reason = reasons[0] if len(set(reasons)) == 1 else "stop_subtree_either"
    if tree["diverging"] not in div_opts:
        return "diverging_flag", f"tree={tree['diverging']} oracle options={div_opts} reason={reason}"
    tree["reason"] = reason
    return None


def check_nuts(rec):
    jax, jnp, jft, hmc, _ = _jx()
    layout, th, invm, q, p = _setup(rec)
    n = q.size
    lay, D, bias = NUTS_MENU[rec["menu"]]
    assert lay == layout
    eps, maxde = rec["eps"], _maxde(rec)
    key = jax.random.PRNGKey(rec["key"])
    tr = jit_nuts(layout, D, bias)(theta_j(rec), key, eps, pack(layout, invm), pack(layout, q),
                                   pack(layout, p), maxde)
    d = int(np.asarray(tr.depth))
    tree = dict(left=unpack_qp(layout, tr.left, "left"), right=unpack_qp(layout, tr.right, "right"),
                cand=unpack_qp(layout, tr.proposal_candidate, "proposal_candidate"),
                logweight=float(np.asarray(tr.logweight)), turning=bool(np.asarray(tr.turning)),
                diverging=bool(np.asarray(tr.diverging)))
    cls = _sys_classes(rec) + [f"max_depth={D}"]
    require(0 <= d <= D + 1, "depth_out_of_range", f"depth={d} max_tree_depth={D}")
    N = 2 ** (D + 1)
    orb = _Orbit(th, invm, eps, q, p, N)
    # visited window: the tree plus one failed attempt on either side
    reach = min(N, 2 ** (d + 1) - 1)
    if math.isinf(maxde) and not all(np.isfinite(orb.H[i]) for i in range(-reach, reach + 1)):
        return dict(nontrivial=False, classes=cls + ["nonfinite_energy_skipped"])
    size = 2 ** d
    tolscale = orb.mag(-(size - 1), size - 1)
    if not np.isfinite(tolscale) or tolscale > 1e3 * max(1.0, float(np.max(np.abs(orb.z[0])))):
        return dict(nontrivial=False, classes=cls + ["unstable_skipped"])
    tol = TOL * tolscale
    on_left = [i for i in range(-(size - 1), 1) if np.max(np.abs(tree["left"] - orb.z[i])) <= tol]
    require(bool(on_left), "left_endpoint_not_on_backward_orbit", f"depth={d} left={tree['left']}")
    on_right = [i for i in range(0, size) if np.max(np.abs(tree["right"] - orb.z[i])) <= tol]
    require(bool(on_right), "right_endpoint_not_on_forward_orbit", f"depth={d} right={tree['right']}")
    cands = [L for L in on_left if (L + size - 1) in on_right]
    require(bool(cands), "orbit_length_not_2_pow_depth",
            f"depth={d} left index {on_left} right index {on_right}")
    verdict = None
    try:
        for L in cands:
            verdict = _explain(orb, tree, L, d, D, maxde, tolscale)
            if verdict is None:
                break
    except _Ambiguous as amb:
        return dict(nontrivial=False, classes=cls + ["ambiguous_" + str(amb)])
    if verdict is not None:
        raise Violation(verdict[0], verdict[1] + f" depth={d} max_tree_depth={D} maxde={maxde}")
    R = L + size - 1
    cls += [f"depth={d}", tree["reason"]]
    if tree["diverging"]:
        cls.append("diverging")
    if L < 0 < R:
        cls.append("both_directions")
    if d == D + 1:
        cls.append("depth=max+1")
    return dict(nontrivial=bool(d >= 2 and L < 0 < R), classes=cls)


# ---------------------------------------------------------------------------------------------- 5/6 chains
NB = 64          # batches
NKEEP = 32768    # kept samples (64 batches of 512)
NBURN = 512


def _rot(n, angles):
    Q = np.eye(n)
    t = 0
    for i in range(n):
        for j in range(i + 1, n):
            c, s = math.cos(angles[t]), math.sin(angles[t])
            G = np.eye(n)
            G[i, i], G[j, j], G[i, j], G[j, i] = c, c, -s, s
            Q = Q @ G
            t += 1
    return Q


def chain_recipes(sampler):
    def strat(tier):
        @st.composite
        def rec(draw):
            target = draw(st.sampled_from(["gauss", "quartic"]))
            if target == "gauss":
                layout = draw(st.sampled_from(["flat2", "flat3", "dict3", "nest4"]))
                n = LAYOUTS[layout]
                r = {"target": target, "layout": layout,
                     "lam": [1.0] + draw(S.vec(n - 1, S.dyadic(1.0, 3.0 if sampler == "hmc" else 16.0, 4))),
                     "angles": draw(S.vec(n * (n - 1) // 2, S.dyadic(-3.0, 3.0, 8))),
                     "scale": draw(S.dyadic(0.5, 4.0, 4)),
                     "mu": draw(S.vec(n, S.dyadic(-2.0, 2.0, 4)))}
            else:
                layout = draw(st.sampled_from(["scalar", "flat2"]))
                n = LAYOUTS[layout]
                C = np.array(draw(S.mat(n, n, S.dyadic(-0.5, 0.5, 4))))
                C = (C + C.T) / 2.0 + 0.25 * np.eye(n)      # diagonal in [-0.25, 0.75]: shallow double wells at most
                r = {"target": target, "layout": layout, "A": C.tolist(),
                     "mu": draw(S.vec(n, D4)), "a": draw(S.vec(n, S.dyadic(0.5, 2.0, 4)))}
            r["invm"] = draw(st.one_of(st.just([1.0] * n), S.vec(n, S.dyadic(0.5, 2.0, 4)),
                                       S.vec(n, S.dyadic(0.5, 2.0, 4))))
            r["f"] = draw(S.dyadic(0.5, 1.375, 8)) if target == "gauss" else draw(S.dyadic(0.375, 0.875, 8))
            if sampler == "hmc":
                r["L"] = draw(st.integers(4, 10))
            else:
                r["max_depth"] = draw(st.integers(6, 8))
                r["bias"] = draw(st.booleans())
            r["scalar_mass_arg"] = draw(st.booleans())
            r["start"] = draw(S.vec(n, S.dyadic(-1.0, 1.0, 4)))
            r["key"] = draw(KEY)
            return r
        return rec()
    return strat


def _target(rec):
    """-> (theta (np), invm, moments: list of (name, kind, f(X)->values, mean, sigma), start position, omega_ref)"""
    n = LAYOUTS[rec["layout"]]
    invm = np.array(rec["invm"], dtype=np.float64)
    if rec["target"] == "gauss":
        Q = _rot(n, rec["angles"])
        Smat = rec["scale"] * (Q @ np.diag(rec["lam"]) @ Q.T)        # = M^-1/2 A M^-1/2
        dm = 1.0 / np.sqrt(invm)
        A = dm[:, None] * Smat * dm[None, :]
        A = (A + A.T) / 2.0
        mu = np.array(rec["mu"], dtype=np.float64)
        th = (A, mu, np.zeros(n), np.float64(0.0))
        cov = np.linalg.inv(A)
        Lc = np.linalg.cholesky(cov)
        Li = np.linalg.inv(Lc)
        moms = []
        for i in range(n):
            moms.append((f"E[y{i}]", "mean", (lambda X, i=i: ((X - mu) @ Li.T)[:, i]), 0.0, 1.0))
        for i in range(n):
            for j in range(i, n):
                moms.append((f"E[y{i}y{j}]", "second_moment",
                             (lambda X, i=i, j=j: ((X - mu) @ Li.T)[:, i] * ((X - mu) @ Li.T)[:, j]),
                             1.0 if i == j else 0.0, math.sqrt(2.0) if i == j else 1.0))
        omega = np.sqrt(rec["scale"] * np.array(rec["lam"], dtype=np.float64))
        start = mu + Lc @ np.array(rec["start"], dtype=np.float64)
        return th, invm, moms, start, omega
    A = np.array(rec["A"], dtype=np.float64)
    mu = np.array(rec["mu"], dtype=np.float64)
    a = np.array(rec["a"], dtype=np.float64)
    th = (A, mu, a, np.float64(0.0))
    g = np.linspace(-8.0, 8.0, 801)       # trapezoid rule, integrand ~ exp(-x^4): spectrally accurate
    if n == 1:
        X = g[:, None]
    else:
        X = np.stack(np.meshgrid(g, g, indexing="ij"), axis=-1).reshape(-1, 2)
    d = X - mu
    V = 0.5 * np.einsum("ki,ij,kj->k", d, A, d) + np.sum(a * X ** 4, axis=1) / 4.0
    w = np.exp(-(V - V.min()))
    w /= w.sum()

    def ex(f):
        return float(np.sum(w * f))
    moms = []
    fs = []
    for i in range(n):
        fs += [(f"E[x{i}]", "mean", (lambda Y, i=i: Y[:, i])),
               (f"E[x{i}^2]", "second_moment", (lambda Y, i=i: Y[:, i] ** 2)),
               (f"E[x{i}^4]", "fourth_moment", (lambda Y, i=i: Y[:, i] ** 4))]
    if n == 2:
        fs.append(("E[x0x1]", "second_moment", lambda Y: Y[:, 0] * Y[:, 1]))
    for name, kind, f in fs:
        m1 = ex(f(X))
        m2 = ex(f(X) ** 2)
        moms.append((name, kind, f, m1, math.sqrt(max(m2 - m1 * m1, 0.0))))
    ex2 = np.array([ex(X[:, i] ** 2) for i in range(n)])
    hess = 3.0 * a * ex2 + np.abs(A).sum(axis=1)          # typical curvature scale
    omega = np.sqrt(np.maximum(hess, 0.25) * invm)
    # start at the mode found on the grid, shifted by the recipe's offset (scaled to the width)
    start = X[int(np.argmin(V))] + 0.5 * np.sqrt(ex2) * np.array(rec["start"], dtype=np.float64)
    return th, invm, moms, start, omega


_TRACE = None    # calibration hook (tools only): list collecting (name, err, se_bm, se_iid)


def _moment_checks(rec, X, moms, cls):
    N = X.shape[0]
    assert N == NKEEP
    worst = 0.0
    for name, kind, f, mean, sigma in moms:
        v = f(X)
        require(bool(np.all(np.isfinite(v))), "chain_nonfinite_samples", name)
        bm = v.reshape(NB, -1).mean(axis=1)
        se = float(bm.std(ddof=1)) / math.sqrt(NB)
        thr = 6.0 * se + 3.0 * max(se, sigma / math.sqrt(N))
        err = abs(float(v.mean()) - mean)
        worst = max(worst, err / thr)
        if _TRACE is not None:
            _TRACE.append((name, err, se, sigma / math.sqrt(N)))
        require(err <= thr, "chain_" + kind + "_vs_target",
                f"{name}: sample {v.mean():.5f} target {mean:.5f} |err|={err:.4f} > 6*SE_bm + 3*max(SE_bm, SE_iid), "
                f"SE_bm={se:.5f} SE_iid={sigma / math.sqrt(N):.5f}")
    cls.append("worst_err/thr<0.25" if worst < 0.25 else ("worst_err/thr<0.5" if worst < 0.5 else "worst_err/thr>=0.5"))


def _mass_arg(rec, layout, invm):
    """how the inverse mass matrix is handed to the sampler: documented are a float or a pytree like the position"""
    if rec["scalar_mass_arg"] and np.all(invm == invm[0]):
        return float(invm[0]), "mass_arg_float"
    return pack(layout, invm), "mass_arg_tree"


def _tune_hmc_length(eps, omega):
    """number of leapfrog steps for a Gaussian target: leapfrog rotates eigen-mode i by theta_i per step
    (cos theta_i = 1 - (eps omega_i)^2 / 2), so an (always accepted) HMC chain has lag-1 autocorrelation
    rho_i = cos(L theta_i) in that mode (rho_i^2 for its square). L minimises the worst integrated
    autocorrelation time; a fixed-length chain with L theta_i = k pi would not be ergodic at all."""
    theta = np.arccos(1.0 - 0.5 * (eps * omega) ** 2)
    best = None
    for L in range(1, 41):
        rho = np.cos(L * theta)
        tau = float(np.max(np.maximum((1 + rho) / (1 - rho), (1 + rho ** 2) / (1 - rho ** 2 + 1e-300))))
        if best is None or tau < best[1]:
            best = (L, tau)
    return best


def check_chain_hmc(rec):
    jax, jnp, jft, hmc, hmc_oo = _jx()
    layout = rec["layout"]
    n = LAYOUTS[layout]
    th, invm, moms, start, omega = _target(rec)
    thj = tuple(jnp.asarray(t) for t in th)
    wmax = float(np.max(omega))
    eps = rec["f"] / wmax
    if rec["target"] == "gauss":
        L, _ = _tune_hmc_length(eps, omega)
    else:
        L = rec["L"]
    marg, mcls = _mass_arg(rec, layout, invm)
    pot = _pot(layout, thj)
    sampler = hmc_oo.HMCChain(potential_energy=pot, inverse_mass_matrix=marg, position_proto=pack(layout, start),
                              num_steps=L, step_size=float(eps))
    N = NBURN + NKEEP
    chain, _ = sampler.generate_n_samples(key=jax.random.PRNGKey(rec["key"]), initial_position=pack(layout, start),
                                          num_samples=N, save_intermediates=True)
    cls = [rec["target"], layout, mcls, "mass_unit" if np.all(invm == 1.0) else "mass_nonunit"]
    X = _stack(layout, chain.samples, N)
    tr = chain.trees
    acc = np.asarray(tr.accepted).astype(bool)
    require(acc.shape == (N,), "chain_structure", f"accepted shape {acc.shape}")
    ZA = np.concatenate([_stack(layout, tr.accepted_qp.position, N), _stack(layout, tr.accepted_qp.momentum, N)], 1)
    ZR = np.concatenate([_stack(layout, tr.rejected_qp.position, N), _stack(layout, tr.rejected_qp.momentum, N)], 1)
    Zinit = np.where(acc[:, None], ZR, ZA)
    Zprop = np.where(acc[:, None], ZA, ZR)
    # the chain is the sequence of accepted positions, each step starts where the previous one ended
    close(X, ZA[:, :n], "chain_sample_is_not_the_accepted_position", tol=0.0, scale=1.0)
    prev = np.concatenate([start[None, :], X[:-1]], axis=0)
    close(Zinit[:, :n], prev, "chain_step_does_not_start_at_previous_sample", tol=1e-15, scale=1.0)
    close(float(np.asarray(chain.acceptance)), float(acc.mean()), "chain_acceptance_is_not_the_accepted_fraction",
          tol=1e-12, scale=1.0)
    # a prefix of the transitions is replayed with the reference integrator
    for i in range(48):
        q0, p0 = Zinit[i, :n], Zinit[i, n:]
        qs, ps = _orbit(th, invm, eps, q0, p0, L)
        growth, scale = _growth(qs, ps)
        if growth <= 1e3:
            close(Zprop[i], np.concatenate([qs[-1], -ps[-1]]), "chain_proposal_vs_reference_leapfrog_flipped",
                  tol=TOL, scale=scale, detail=f"step {i}")
    # momentum refresh: p ~ N(0, M), i.e. z = p*sqrt(invm) i.i.d. standard normal (exact variance known)
    Zm = Zinit[:, n:] * np.sqrt(invm)[None, :]
    for i in range(n):
        m1, m2 = float(Zm[:, i].mean()), float((Zm[:, i] ** 2).mean())
        require(abs(m1) <= 7.0 / math.sqrt(N), "momentum_refresh_mean", f"component {i}: {m1}")
        require(abs(m2 - 1.0) <= 7.0 * math.sqrt(2.0 / N), "momentum_refresh_variance",
                f"component {i}: E[p^2 invm] = {m2} (invm={invm[i]})")
    accrate = float(acc.mean())
    cls.append("acc>0.9" if accrate > 0.9 else ("acc>0.7" if accrate > 0.7 else "acc<=0.7"))
    _moment_checks(rec, X[NBURN:], moms, cls)
    return dict(nontrivial=bool(accrate < 0.999 or rec["target"] == "quartic"), classes=cls)


def _stack(layout, tree, N):
    """chain-stacked position pytree -> (N, n) NumPy array"""
    try:
        if layout == "scalar":
            out = np.asarray(tree, dtype=np.float64).reshape(N, 1)
        elif layout in ("flat2", "flat3"):
            out = np.asarray(tree, dtype=np.float64)
        elif layout == "dict3":
            out = np.concatenate([np.asarray(tree.tree["a"]), np.asarray(tree.tree["b"])], axis=1)
        else:
            out = np.asarray(tree.tree[0]["lvl0"], dtype=np.float64).reshape(N, 4)
    except Violation:
        raise
    except Exception as e:  # noqa: BLE001
        raise Violation("output_structure", f"chain leaf: {e!r}")
    if out.shape != (N, LAYOUTS[layout]):
        raise Violation("output_structure", f"chain leaf shape {out.shape}")
    return np.asarray(out, dtype=np.float64)


def check_chain_nuts(rec):
    jax, jnp, jft, hmc, hmc_oo = _jx()
    layout = rec["layout"]
    n = LAYOUTS[layout]
    th, invm, moms, start, omega = _target(rec)
    thj = tuple(jnp.asarray(t) for t in th)
    eps = rec["f"] / float(np.max(omega))
    D = rec["max_depth"]
    marg, mcls = _mass_arg(rec, layout, invm)
    pot = _pot(layout, thj)
    sampler = hmc_oo.NUTSChain(potential_energy=pot, inverse_mass_matrix=marg, position_proto=pack(layout, start),
                               step_size=float(eps), max_tree_depth=D, bias_transition=rec["bias"])
    N = NBURN + NKEEP
    chain, _ = sampler.generate_n_samples(key=jax.random.PRNGKey(rec["key"]), initial_position=pack(layout, start),
                                          num_samples=N, save_intermediates=True)
    cls = [rec["target"], layout, mcls, "mass_unit" if np.all(invm == 1.0) else "mass_nonunit",
           "biased" if rec["bias"] else "unbiased"]
    X = _stack(layout, chain.samples, N)
    tr = chain.trees
    C = _stack(layout, tr.proposal_candidate.position, N)
    close(X, C, "chain_sample_is_not_the_proposal_candidate", tol=0.0, scale=1.0)
    depths = np.asarray(chain.depths).astype(np.int64)
    close(depths, np.asarray(tr.depth).astype(np.int64), "chain_depths_vs_trees", tol=0.0, scale=1.0)
    require(bool(np.all((depths >= 0) & (depths <= D + 1))), "depth_out_of_range", f"{depths.min()}..{depths.max()}")
    # a prefix of the transitions: the previous sample lies on the tree's trajectory, which is a reference orbit
    ZL = np.concatenate([_stack(layout, tr.left.position, N), _stack(layout, tr.left.momentum, N)], 1)
    ZR = np.concatenate([_stack(layout, tr.right.position, N), _stack(layout, tr.right.momentum, N)], 1)
    for i in range(32):
        size = 2 ** int(depths[i])
        qs, ps = _orbit(th, invm, eps, ZL[i, :n], ZL[i, n:], size - 1)
        growth, scale = _growth(qs, ps)
        if growth > 1e3:
            continue
        close(np.concatenate([qs[-1], ps[-1]]), ZR[i], "chain_tree_right_is_not_2^depth-1_steps_from_left",
              tol=TOL, scale=scale, detail=f"step {i} depth {depths[i]}")
        prev = start if i == 0 else X[i - 1]
        dist_prev = np.min(np.max(np.abs(qs - prev[None, :]), axis=1))
        require(dist_prev <= TOL * scale, "chain_previous_sample_not_on_tree_trajectory", f"step {i}: {dist_prev}")
        dist_new = np.min(np.max(np.abs(qs - X[i][None, :]), axis=1))
        require(dist_new <= TOL * scale, "chain_sample_not_on_tree_trajectory", f"step {i}: {dist_new}")
    md = float(depths.mean())
    cls.append("mean_depth>=3" if md >= 3 else "mean_depth<3")
    _moment_checks(rec, X[NBURN:], moms, cls)
    return dict(nontrivial=bool(md >= 1.5), classes=cls)


# ---------------------------------------------------------------------------------------------- registration
SUBS = [
    Sub(name="leapfrog_reversible", check=check_leapfrog, strategy=leapfrog_recipes, quick=240, thorough=6000,
        shards=2, jax=True, budget_quick=110.0,
        rule="k leapfrog_step calls == the harness's NumPy leapfrog orbit; Phi^k(flip(Phi^k(z))) == flip(z) and "
             "Phi_{-eps}^k(Phi_eps^k(z)) == z to 1e-9*scale; non-trivial = k >= 2 and (non-quadratic potential or "
             "dimension >= 2)"),
    Sub(name="leapfrog_symplectic", check=check_symplectic, strategy=symplectic_recipes, quick=100, thorough=3000,
        shards=1, jax=True, budget_quick=110.0,
        rule="J = jax.jacfwd of k leapfrog_step calls on the flattened (q,p): J^T Omega J == Omega, det J == 1, "
             "J == central differences of the reference flow; non-trivial = J has off-diagonal entries > 1e-3 and "
             "(non-quadratic potential or dimension >= 2)"),
    Sub(name="hmc_accept_reject", check=check_accrej, strategy=accrej_recipes, quick=360, thorough=9000, shards=3,
        jax=True, budget_quick=110.0,
        rule="generate_hmc_acc_rej: initial point returned on the side named by the flag, proposal == "
             "flip(reference leapfrog iterate), accepted == bernoulli(key, min(1, exp(H0-H1))) with the oracle's "
             "energies (non-finite proposal energy => rejected), diverging == |H0-H1| > max; step sizes up to 16x "
             "the stable range; non-trivial = accept decision asserted, L >= 2, non-quadratic or dimension >= 2"),
    Sub(name="nuts_tree", check=check_nuts, strategy=nuts_recipes, quick=300, thorough=9000, shards=3, jax=True,
        budget_quick=110.0,
        rule="generate_nuts_tree on 6 (layout, max_tree_depth, bias_transition) configurations: left/right/candidate on "
             "the reference orbit of the initial point, 2**depth points around index 0, logweight == logsumexp(-H), "
             "turning flag, every merged doubling complete/non-turning/non-diverging, a reason for stopping exists, "
             "diverging flag; non-trivial = depth >= 2 and the tree extends in both time directions"),
    Sub(name="chain_hmc", check=check_chain_hmc, strategy=chain_recipes("hmc"), quick=9, thorough=96, shards=3,
        jax=True, budget_quick=120.0,
        rule="HMCChain.generate_n_samples, 512+32768 samples, fixed key from the recipe, Gaussian (rotated, scaled, "
             "non-unit mass) and quartic (1-d / coupled 2-d incl. double wells) targets: chain bookkeeping, first 48 "
             "proposals == reference leapfrog, refreshed momenta ~ N(0, M) (7 sigma, i.i.d.), moments within "
             "6 SE_bm + 3 max(SE_bm, sigma/sqrt(N)); non-trivial = some proposals rejected or non-Gaussian target"),
    Sub(name="chain_nuts", check=check_chain_nuts, strategy=chain_recipes("nuts"), quick=9, thorough=96, shards=3,
        jax=True, budget_quick=120.0,
        rule="NUTSChain.generate_n_samples, 512+32768 samples, same targets, biased and unbiased transitions: samples "
             "== candidates, first 32 trees are reference orbits through the previous sample, moments within "
             "6 SE_bm + 3 max(SE_bm, sigma/sqrt(N)); non-trivial = mean tree depth >= 1.5"),
]
