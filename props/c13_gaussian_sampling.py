"""C13 - Gaussian sampling from covariance operators has the right covariance (DESIGN 2/C13).

Recipe: {"a": int, "b": int, "dist": float, "D": descriptor, "node": cov-tree, "inv": bool, "w": [..]}
(+ "seed", "n" for the Monte-Carlo backstop).

Domain descriptors: "P" = (RGSpace(a, dist), UnstructuredDomain(b)), "H" = (codomain, Unstructured(b)),
"R" = (RGSpace(a, dist),), "K" = (codomain,), ["U", m] = (UnstructuredDomain(m),),
"M" = MultiDomain {a: R, b: [U, b]}, "Ma"/"Mb" = the one-key sub-multi-domains.

Covariance trees (interpreted by build_cov into the NIFTy operator AND a dense model):
  ["scal", f, sd]  ["diag", v, sd]  ["pdiag", v, sd, space]  ["flip", how, node]
  ["sandwich", bun, cheese|None, sd]  ["sum", [nodes]]  ["diff", A, B, order]
  ["enabler", likelihood, prior, {"sfz": bool, "approx": None|"prior"|node}]  ["invenabler", node]
  ["block", {key: node}]  ["msum", [[D_i, node_i], ...]]
Bun trees (build_bun): ["bscal", c] ["bdiag", v] ["bpdiag", v, space] ["bfft"] ["bhartley"]
  ["bback", "fft"|"hartley", "inverse"|"adjoint"] ["bmat", m, how] ["bdense", m, invertible, same]
  ["bchain", b1, b2] ["bflip", how, bun] ["bblock", {key: bun}]

Oracle.  The white-noise tape (vlib/tape_rng.py) yields the sampling matrix S (sample = S w, w the
standard normals actually consumed), hence E[s s^H] = S S^H and E[s s^T] = S S^T exactly.  Documented
convention (Field.from_random: "If the datatype is complex, each real and imaginary part have variance
1"): real sampling dtype => E[s s^H] = C; complex sampling dtype => real and imaginary parts
independent, each with covariance C, i.e. E[s s^H] = 2C and E[s s^T] = 0.  C is the dense model of the
operator (or its numpy inverse for inverse draws), written down from the textbook rules.
"""
import numpy as np
from hypothesis import strategies as st

import nifty.cl as ift
from props.c01_linear_algebra import DenseOp
from vlib import Discard, Sub, Violation, nx, require
from vlib import strat as S
from vlib import tape_rng as T

PROPERTY = "C13"
LEVEL = "exploration"
RULE = ("Generated covariance-operator trees (ScalingOperator, DiagonalOperator incl. partial-space and "
        "pre-flipped, SandwichOperator with invertible / non-invertible buns, BlockDiagonalOperator, sums, "
        "SamplingEnabler / InversionEnabler, .inverse/.adjoint of all; N<=7 pixels) with real and complex "
        "sampling dtypes, forward and inverse draws. Oracle: white-noise tape => sampling matrix S; "
        "S S^H and S S^T must equal the dense textbook covariance (or its inverse) under the documented "
        "real/complex convention; S*0 = 0; samples linear in the tape; operators whose (inverse) covariance "
        "does not exist or that lack a sampling dtype must raise from draw_sample.")
LEVEL_TEXT = ("Exploration: the covariance of every generated sampler is computed exactly (no Monte-Carlo error) "
              "from its linear action on the standard normals it consumes and compared with an independent dense "
              "model; a black-box Monte-Carlo sub-check with rigorous Wishart tail bounds backs up the "
              "interception. Random search over operator trees, not a proof for all operators.")
LEVEL_NOTE = ("Trusted: numpy's Generator.normal yields independent standard normals (the tape replaces exactly "
              "this primitive; Random.normal itself stays under test); numpy.linalg for the dense model; the "
              "harness-defined DenseOp leaf. CG-based draws (SamplingEnabler) are compared within a bound "
              "derived from the residual norm recorded by the iteration controller.")
TECHNIQUE = "PBT: white-noise tape (exact S S^H) vs dense covariance model; Monte-Carlo/Wishart backstop"
ASSUMPTIONS = [
    "complex sampling dtype: documented convention 'each real and imaginary part have variance 1' => "
    "E[s s^H] = 2C, E[s s^T] = 0 (for real C: Re s, Im s independent with covariance C each)",
    "real sampling dtype with a complex bun: only E[s s^H] = C is demanded (the pseudo-covariance is not "
    "determined by the operator)",
    "terms of a sum are generated with equal sampling dtypes (the covariance of a mixed sum is undocumented)",
    "a sum with a negative term may either refuse or sample with the covariance of the operator (A - B)",
    "where the library refuses for structural reasons although the covariance exists (inverse draw from a "
    "SumOperator, inverse draw through a bun without INVERSE_TIMES), refusal is accepted; where it samples, "
    "the covariance must be right",
    "ScalingOperator(0) drawn from_inverse: docstring mentions a zero field, code refuses; both accepted",
    "not generated: sampling-dtype dicts with None entries, complex-dtype diagonals with zero imaginary part, "
    ".inverse of a zero ScalingOperator (ZeroDivisionError at construction, C01 territory), GPU device ids",
]

REFUSE = (ValueError, RuntimeError, NotImplementedError)
SD = {"f8": np.float64, "c16": np.complex128, "f4": np.float32, "c8": np.complex64,
      "float": float, "complex": complex}
CPLX = ("c16", "c8", "complex")
LOW = ("f4", "c8")
TUPLE_D = ("P", "H", "R", "K")
CG_TOL = 1e-12


# ----------------------------------------------------------------------------- universe
class RecIC(ift.IterationController):
    """tight absolute-gradient-norm controller that records the residual norm at which it stopped each
    run.  ConjugateGradient may also stop on its own when the preconditioned residual product is exactly 0
    (then the residual is 0 and nothing is recorded) or on NaN / non-positive curvature (cannot happen for
    the generated positive definite systems; were it to happen the sample would simply be compared with
    the plain tolerance)."""

    def __init__(self, tol, limit):
        super().__init__()
        self.tol, self.limit = tol, limit
        self.norms = []       # one entry per run stopped by this controller
        self.runs = 0

    def start(self, energy):
        self._it = -1
        self.runs += 1
        return self.check(energy)

    def check(self, energy):
        self._it += 1
        g = float(energy.gradient_norm)
        if g <= self.tol or self._it >= self.limit:
            self.norms.append(g)
            return self.CONVERGED
        return self.CONTINUE

    def reset(self):
        self.norms.clear()
        self.runs = 0


class Cx:
    def __init__(self, rec):
        self.a, self.b = int(rec["a"]), int(rec["b"])
        self.rg = ift.RGSpace(self.a, distances=rec["dist"])
        self.hrg = self.rg.get_default_codomain()
        self.un = ift.UnstructuredDomain(self.b)
        self._t = {"P": (self.rg, self.un), "H": (self.hrg, self.un), "R": (self.rg,), "K": (self.hrg,)}
        self.ic = RecIC(CG_TOL, 300)

    def dom(self, D):
        if isinstance(D, list):
            return ift.DomainTuple.make(ift.UnstructuredDomain(int(D[1])))
        if D in self._t:
            return ift.DomainTuple.make(self._t[D])
        keys = self.keys(D)
        return ift.MultiDomain.make({k: self.dom(self.keyD(k)) for k in keys})

    def keys(self, D):
        return {"M": ("a", "b"), "Ma": ("a",), "Mb": ("b",)}[D]

    def keyD(self, key):
        return "R" if key == "a" else ["U", self.b]

    def is_multi(self, D):
        return D in ("M", "Ma", "Mb")

    def size(self, D):
        if isinstance(D, list):
            return int(D[1])
        if D in ("P", "H"):
            return self.a * self.b
        if D in ("R", "K"):
            return self.a
        return sum(self.size(self.keyD(k)) for k in self.keys(D))

    def embed(self, D):
        """positions of the flat entries of multi-descriptor D inside the layout of "M" """
        return {"M": np.arange(self.a + self.b), "Ma": np.arange(self.a),
                "Mb": np.arange(self.a, self.a + self.b)}[D]

    def fmat(self, kind):
        a = self.a
        kx = np.outer(np.arange(a), np.arange(a)) / a
        dv = self.rg.scalar_dvol
        if kind == "fft":
            return dv * np.exp(-2j * np.pi * kx)
        return dv * (np.cos(2 * np.pi * kx) - np.sin(2 * np.pi * kx))


# ----------------------------------------------------------------------------- dense model
def safe_inv(C):
    """inverse of a square matrix, None if it is (numerically exactly) singular; ill-conditioned
    matrices in between are outside the generated domain"""
    if C.shape[0] == 0:
        return C.copy()
    sv = np.linalg.svd(C, compute_uv=False)
    if sv[0] == 0:
        return None
    r = sv[-1] / sv[0]
    if r < 1e-12:
        return None
    if r < 1e-6:
        raise Discard()
    return np.linalg.inv(C)


def norm2(M):
    return float(np.linalg.norm(M, 2)) if M.size else 0.0


class Cov:
    """model of a covariance operator: op, descriptor, dense matrix C, its inverse Ci (or None),
    complex-sampling mask cm, flags"""

    def __init__(self, op, D, C, cm, nodtype=False, can=(True, True), err=(0.0, 0.0), zf=(False, False),
                 low=False, tags=(), Ci="compute"):
        self.op, self.D = op, D
        # C is None for the (formal) inverse of a singular operator
        self.C = None if C is None else np.asarray(C, dtype=np.complex128)
        self.Ci = safe_inv(self.C) if isinstance(Ci, str) else Ci
        self.cm = np.asarray(cm, dtype=bool)
        self.n = self.cm.size
        self.nodtype = nodtype
        self.can = tuple(can)      # [from_inverse]: True = documented to work, False = refuses by
        #                            construction, None = may refuse or sample
        self.err = tuple(err)      # [from_inverse]: sample error per unit of CG residual norm
        self.zf = tuple(zf)        # [from_inverse]: a zero field is a documented alternative to refusing
        self.low = low
        self.tags = set(tags)


def need_c(*covs):
    """composites are only modelled over constituents whose matrix exists"""
    for c in covs:
        if c.C is None:
            raise Discard()


def and3(vals):
    vals = list(vals)
    if any(v is False for v in vals):
        return False
    if any(v is None for v in vals):
        return None
    return True


def true_or_none(vals):
    return True if all(v is True for v in vals) else None


def _leaf_can(vals):
    vals = np.asarray(vals)
    if np.iscomplexobj(vals) and np.any(vals.imag != 0):
        return (False, False)
    r = vals.real
    if np.any(r < 0):
        return (False, False)
    return (True, bool(np.all(r > 0)))


def _mask(n, sd):
    return np.full(n, sd in CPLX)


def _full_from_partial(cx, D, v, sp):
    a, b = cx.a, cx.b
    return np.kron(v, np.ones(b)) if sp == 0 else np.kron(np.ones(a), v)


def _flip_op(op, how):
    if how == "adjoint":
        return op.adjoint
    if how == "inverse":
        return op.inverse
    if how == "adjoint_inverse":
        return op.adjoint.inverse
    if how == "inverse_adjoint":
        return op.inverse.adjoint
    raise ValueError(how)


def build_cov(cx, D, node):
    k = node[0]
    n = cx.size(D)
    dom = cx.dom(D)
    if k == "scal":
        f = nx.num(node[1])
        sd = node[2]
        if isinstance(sd, dict):
            sdt = {kk: SD[vv] for kk, vv in sd.items()}
            cm = np.concatenate([_mask(cx.size(cx.keyD(kk)), sd[kk]) for kk in cx.keys(D)])
            low = any(v in LOW for v in sd.values())
        else:
            sdt = None if sd is None else SD[sd]
            cm = _mask(n, sd)
            low = sd in LOW
        op = ift.ScalingOperator(dom, f, sdt)
        zero = (f == 0)
        return Cov(op, D, f * np.eye(n), cm, nodtype=sd is None, can=_leaf_can([f]),
                   zf=(False, bool(zero)), low=low, tags=["scal"] + (["multi_scal"] if cx.is_multi(D) else []) +
                   (["zero_eigenvalue"] if zero else []) + (["int_factor"] if isinstance(f, int) else []))
    if k in ("diag", "pdiag"):
        v = nx.arr(node[1])
        sd = node[2]
        if len(node) > (4 if k == "pdiag" else 3) and node[-1] == "int":
            v = v.astype(np.int64)
        if k == "diag":
            op = ift.DiagonalOperator(ift.makeField(dom, v.reshape(dom.shape)),
                                      sampling_dtype=None if sd is None else SD[sd])
            full = v
        else:
            sp = node[3]
            op = ift.DiagonalOperator(ift.makeField(dom[sp], v), domain=dom, spaces=sp,
                                      sampling_dtype=None if sd is None else SD[sd])
            full = _full_from_partial(cx, D, v, sp)
        tags = [k] + (["zero_eigenvalue"] if np.any(full == 0) else []) + \
            (["int_diag"] if v.dtype.kind == "i" else [])
        return Cov(op, D, np.diag(full), _mask(n, sd), nodtype=sd is None, can=_leaf_can(full),
                   low=sd in LOW, tags=tags)
    if k == "flip":
        how = node[1]
        c = build_cov(cx, D, node[2])
        op = _flip_op(c.op, how)
        Ch = None if c.C is None else c.C.conj().T
        Cih = None if c.Ci is None else c.Ci.conj().T
        if "inverse" in how:
            res = Cov(op, D, Cih, c.cm, c.nodtype, (c.can[1], c.can[0]), (c.err[1], c.err[0]),
                      (c.zf[1], c.zf[0]), c.low, c.tags, Ci=Ch)
        else:
            res = Cov(op, D, Ch, c.cm, c.nodtype, c.can, c.err, c.zf, c.low, c.tags, Ci=Cih)
        res.tags.add("flip_" + how)
        res.tags.add("flipped_" + (node[2][0]))
        return res
    if k == "sandwich":
        bop, B, D2, binv, btags = build_bun(cx, D, node[1])
        if node[2] is None:
            sd = node[3]
            ch = build_cov(cx, D2, ["scal", 1.0, sd])
            op = ift.SandwichOperator.make(bop, None, None if sd is None else SD[sd])
            ch.tags.discard("scal")
            ch.tags.add("cheese_none")
        else:
            ch = build_cov(cx, D2, node[2])
            op = ift.SandwichOperator.make(bop, ch.op)
        if ch.cm.size and not (np.all(ch.cm) or not np.any(ch.cm)):
            raise Discard()          # mixed sampling dtypes below a bun: not generated
        if ch.C is None:
            raise Discard()          # formal inverse of a singular operator as cheese: not generated
        C = B.conj().T @ ch.C @ B
        can = (ch.can[0], ch.can[1] if binv else False)
        err = (norm2(B) * ch.err[0], (norm2(np.linalg.inv(B)) * ch.err[1]) if binv else 0.0)
        cm = np.full(n, bool(ch.cm[0]) if ch.cm.size else False)
        tags = set(ch.tags) | set(btags) | {"sandwich", "bun_invertible" if binv else "bun_noninvertible"}
        if np.iscomplexobj(B) and np.any(B.imag != 0):
            tags.add("complex_bun")
        return Cov(op, D, C, cm, ch.nodtype, can, err, low=ch.low, tags=tags)
    if k in ("sum", "msum"):
        if k == "sum":
            parts = [(D, build_cov(cx, D, nd)) for nd in node[1]]
        else:
            parts = [(Di, build_cov(cx, Di, nd)) for Di, nd in node[1]]
        need_c(*[p for _, p in parts])
        op = parts[0][1].op
        for _, p in parts[1:]:
            op = op + p.op
        C = np.zeros((n, n), dtype=np.complex128)
        cm = np.zeros(n, dtype=int) - 1
        base = cx.embed(D) if cx.is_multi(D) else None
        for Di, p in parts:
            if k == "msum":
                pos = np.searchsorted(base, cx.embed(Di))
            else:
                pos = np.arange(n)
            C[np.ix_(pos, pos)] += p.C
            for j, q in zip(pos, p.cm):
                if cm[j] >= 0 and cm[j] != int(q):
                    raise Discard()  # mixed sampling dtypes in a sum: not generated
                cm[j] = int(q)
        if np.any(cm < 0):
            raise Discard()
        tags = set().union(*[p.tags for _, p in parts]) | {k}
        return Cov(op, D, C, cm.astype(bool), any(p.nodtype for _, p in parts),
                   (true_or_none(p.can[0] for _, p in parts), None),
                   (sum(p.err[0] for _, p in parts), sum(p.err[1] for _, p in parts)),
                   low=any(p.low for _, p in parts), tags=tags)
    if k == "diff":
        A = build_cov(cx, D, node[1])
        Bc = build_cov(cx, D, node[2])
        need_c(A, Bc)
        if not np.array_equal(A.cm, Bc.cm):
            raise Discard()
        if node[3] == "A-B":
            op = A.op - Bc.op
        else:
            from nifty.cl.operators.sum_operator import SumOperator
            op = SumOperator.make([Bc.op, A.op], [True, False])
        return Cov(op, D, A.C - Bc.C, A.cm, A.nodtype or Bc.nodtype, (None, None),
                   (A.err[0] + Bc.err[0], 0.0), low=A.low or Bc.low,
                   tags=A.tags | Bc.tags | {"diff", "diff_" + node[3]})
    if k == "enabler":
        L = build_cov(cx, D, node[1])
        Pr = build_cov(cx, D, node[2])
        need_c(L, Pr)
        if not np.array_equal(L.cm, Pr.cm):
            raise Discard()
        opts = node[3]
        tags = L.tags | Pr.tags | {"enabler", "sfz" if opts["sfz"] else "start_from_prior"}
        if opts["approx"] is None:
            approx = None
        elif opts["approx"] == "prior":
            approx = Pr.op
            tags.add("preconditioned")
        else:
            approx = build_cov(cx, D, opts["approx"]).op
            tags.add("preconditioned")
        op = ift.SamplingEnabler(L.op, Pr.op, cx.ic, approximation=approx, start_from_zero=opts["sfz"])
        C = L.C + Pr.C
        Ci = safe_inv(C)
        if opts["sfz"]:
            need = (L.can[0], Pr.can[0])
            eb = L.err[0] + Pr.err[0]
        else:
            need = (L.can[0], Pr.can[1])
            eb = L.err[0] + norm2(Pr.C) * Pr.err[1]
        err_i = 0.0 if Ci is None else norm2(Ci) * (1.0 + eb)
        tags.add("enabler_op_" + type(op._op).__name__)
        return Cov(op, D, C, L.cm, L.nodtype or Pr.nodtype,
                   (true_or_none([L.can[0], Pr.can[0]]), true_or_none(need)),
                   (L.err[0] + Pr.err[0], err_i), low=L.low or Pr.low, tags=tags, Ci=Ci)
    if k == "invenabler":
        c = build_cov(cx, D, node[1])
        op = ift.InversionEnabler(c.op, cx.ic)
        return Cov(op, D, c.C, c.cm, c.nodtype, c.can, c.err, c.zf, c.low, c.tags | {"invenabler"}, Ci=c.Ci)
    if k == "block":
        ops, C, cms = {}, np.eye(n, dtype=np.complex128), []
        cans_f, cans_i, errs_f, errs_i = [], [], [0.0], [0.0]
        nodtype, low, tags, ofs = False, False, {"block"}, 0
        for key in cx.keys(D):
            kd = cx.keyD(key)
            sz = cx.size(kd)
            sub = node[1].get(key)
            if sub is None:
                nodtype = True       # missing entry = identity without a sampling dtype
                cms.append(np.zeros(sz, dtype=bool))
                tags.add("block_missing_key")
            else:
                c = build_cov(cx, kd, sub)
                need_c(c)
                ops[key] = c.op
                C[ofs:ofs + sz, ofs:ofs + sz] = c.C
                cms.append(c.cm)
                cans_f.append(c.can[0])
                cans_i.append(c.can[1])
                errs_f.append(c.err[0])
                errs_i.append(c.err[1])
                nodtype |= c.nodtype
                low |= c.low
                tags |= c.tags
            ofs += sz
        cm = np.concatenate(cms)
        if np.any(cm) and not np.all(cm):
            tags.add("block_mixed_dtype")
        op = ift.BlockDiagonalOperator(dom, ops)
        return Cov(op, D, C, cm, nodtype, (and3(cans_f), and3(cans_i)), (max(errs_f), max(errs_i)),
                   low=low, tags=tags)
    raise ValueError(k)


def build_bun(cx, D, node):
    """returns (operator, dense matrix, target descriptor, supports INVERSE_TIMES, tags)"""
    k = node[0]
    n = cx.size(D)
    dom = cx.dom(D)
    if k == "bscal":
        c = nx.num(node[1])
        return ift.ScalingOperator(dom, c), c * np.eye(n, dtype=np.complex128), D, True, ["bscal"]
    if k == "bdiag":
        v = nx.arr(node[1])
        op = ift.DiagonalOperator(ift.makeField(dom, v.reshape(dom.shape)))
        return op, np.diag(v).astype(np.complex128), D, True, ["bdiag"]
    if k == "bpdiag":
        v, sp = nx.arr(node[1]), node[2]
        op = ift.DiagonalOperator(ift.makeField(dom[sp], v), domain=dom, spaces=sp)
        return op, np.diag(_full_from_partial(cx, D, v, sp)).astype(np.complex128), D, True, ["bpdiag"]
    if k in ("bfft", "bhartley"):
        kind = "fft" if k == "bfft" else "hartley"
        D2 = {"P": "H", "R": "K"}[D]
        op = (ift.FFTOperator if kind == "fft" else ift.HartleyOperator)(dom, space=0)
        if op.target is not cx.dom(D2):
            raise Discard()
        F = np.kron(cx.fmat(kind), np.eye(n // cx.a))
        return op, F.astype(np.complex128), D2, True, [k]
    if k == "bback":
        kind, how = node[1], node[2]
        D2 = {"H": "P", "K": "R"}[D]
        base = (ift.FFTOperator if kind == "fft" else ift.HartleyOperator)(cx.dom(D2), space=0)
        if base.target is not dom:
            raise Discard()
        F = np.kron(cx.fmat(kind), np.eye(n // cx.a)).astype(np.complex128)
        if how == "inverse":
            return base.inverse, np.linalg.inv(F), D2, True, ["bback_" + kind]
        return base.adjoint, F.conj().T, D2, True, ["bback_" + kind]
    if k == "bmat":
        m, how = nx.arr(node[1]), node[2]
        if how == "flat":
            op, M = ift.MatrixProductOperator(dom, m, flatten=True), m
        elif how == "sp0":
            op, M = ift.MatrixProductOperator(dom, m, spaces=(0,)), np.kron(m, np.eye(cx.b))
        else:
            op, M = ift.MatrixProductOperator(dom, m, spaces=(1,)), np.kron(np.eye(cx.a), m)
        return op, M.astype(np.complex128), D, False, ["bmat"]
    if k == "bdense":
        m = nx.arr(node[1]).astype(np.complex128)
        invertible, same = bool(node[2]), bool(node[3])
        rows = m.shape[0]
        if invertible and (rows != n or np.linalg.cond(m) > 1e3):
            invertible = False
        D2 = D if (same and rows == n) else ["U", rows]
        op = DenseOp(dom, cx.dom(D2), m, 15 if invertible else 3)
        return op, m, D2, invertible, ["bdense_wide" if rows < n else ("bdense_tall" if rows > n else "bdense_sq")]
    if k == "bchain":
        o2, B2, Dm, i2, t2 = build_bun(cx, D, node[2])
        o1, B1, D2, i1, t1 = build_bun(cx, Dm, node[1])
        return o1 @ o2, B1 @ B2, D2, i1 and i2, t1 + t2 + ["bchain"]
    if k == "bflip":
        how = node[1]
        o, B, D2, inv, t = build_bun(cx, D, node[2])
        if D2 != D:
            raise Discard()
        if "inverse" in how:
            if not inv:
                raise Discard()
            Bn = np.linalg.inv(B).conj().T if "adjoint" in how else np.linalg.inv(B)
        else:
            Bn = B.conj().T
        return _flip_op(o, how), Bn, D, inv, t + ["bflip_" + how]
    if k == "bblock":
        ops, B, ofs, tags = {}, np.eye(n, dtype=np.complex128), 0, ["bblock"]
        for key in cx.keys(D):
            kd = cx.keyD(key)
            sz = cx.size(kd)
            if node[1].get(key) is not None:
                o, Bk, D2, inv, t = build_bun(cx, kd, node[1][key])
                if D2 != kd or not inv:
                    raise Discard()
                ops[key] = o
                B[ofs:ofs + sz, ofs:ofs + sz] = Bk
                tags += t
            ofs += sz
        return ift.BlockDiagonalOperator(dom, ops), B, D, True, tags
    raise ValueError(k)


# ----------------------------------------------------------------------------- oracle
def target_cov(cov, inv):
    """(matrix the samples must have as covariance or None if it does not exist, expectation)
    expectation: True = must sample, False = must refuse, None = either, "zero" = refuse or zero field"""
    tgt = cov.Ci if inv else cov.C
    ok = tgt is not None
    if ok:
        sc = max(1.0, float(np.max(np.abs(tgt)))) if tgt.size else 1.0
        herm = float(np.max(np.abs(tgt - tgt.conj().T))) if tgt.size else 0.0
        if herm > 1e-9 * sc:
            ok = False
        else:
            ev = np.linalg.eigvalsh((tgt + tgt.conj().T) / 2) if tgt.size else np.zeros(0)
            if ev.size and ev[0] < -1e-9 * sc:
                if ev[0] > -1e-6 * sc:
                    raise Discard()
                ok = False
    if cov.nodtype:
        return (tgt if ok else None), False
    if not ok:
        return None, ("zero" if cov.zf[inv] else False)
    c = cov.can[inv]
    return tgt, (True if c is True else None)


def expected_moments(tgt, cm):
    f = np.where(cm, 2.0, 1.0)
    return np.sqrt(np.outer(f, f)) * tgt


def sample_vec(op, inv):
    f = op.draw_sample(from_inverse=inv)
    if f.domain != op.domain:
        raise Violation("sample_domain", f"sample lives on {f.domain}, operator on {op.domain}")
    return nx.flat(f).astype(np.complex128)


def run_tape(cx, cov, inv, wrec):
    """common oracle of all tape sub-checks; returns (outcome, classes)"""
    op = cov.op
    tgt, expect = target_cov(cov, inv)
    cx.ic.reset()
    try:
        Smat, s0, K = T.sampling_matrix(lambda: sample_vec(op, inv))
    except T.TapeError:
        raise
    except REFUSE as e:
        if expect is True:
            raise Violation("refused_valid_covariance", f"from_inverse={inv}: {e!r}")
        return ("refused_as_required" if expect in (False, "zero") else "refused_allowed"), []
    n = cov.n
    require(Smat.shape[0] == n, "sample_size", f"{Smat.shape[0]} vs {n}")
    if expect == "zero":
        require(not np.any(Smat) and not np.any(s0), "zero_scaling_inverse_sample_not_zero",
                f"S={Smat!r}")
        return "zero_field", []
    if expect is False:
        why = "no sampling dtype" if cov.nodtype else "the requested covariance does not exist / is not PSD"
        raise Violation("sampled_from_non_covariance", f"draw_sample(from_inverse={inv}) returned although {why}")
    # --- zero mean
    require(not np.any(s0), "nonzero_mean", f"sample for w=0 is {s0!r}")
    # --- second moments
    EH = expected_moments(tgt, cov.cm)
    kap = float(np.linalg.cond(tgt)) if (inv and tgt.size) else 1.0
    smax = float(np.max(np.abs(Smat))) if Smat.size else 0.0
    scale = max(1.0, float(np.max(np.abs(EH))) if EH.size else 1.0, smax ** 2)
    tol = (3e-6 if cov.low else 1e-10) * scale * max(1.0, min(kap, 1e8))
    classes = []
    g = max(cx.ic.norms) if cx.ic.norms else 0.0
    e_col = 0.0
    if cx.ic.runs:
        classes.append("cg_used")
        if g > 1e3 * CG_TOL:
            # the controller gave up before its tolerance: the bound below is then wide, and says so
            classes.append("cg_not_converged")
        e_col = cov.err[inv] * (g + 1e-14 * scale)
        rown = float(np.max(np.linalg.norm(Smat, axis=1))) if Smat.size else 0.0
        tol += 2 * e_col * np.sqrt(K) * rown + K * e_col ** 2
    Hm = Smat @ Smat.conj().T
    Pm = Smat @ Smat.T
    errH = float(np.max(np.abs(Hm - EH))) if EH.size else 0.0
    if errH > tol:
        raise Violation("covariance_mismatch",
                        f"from_inverse={inv} max|S S^H - expected|={errH:.3e} tol={tol:.3e}\nS S^H=\n"
                        f"{np.round(Hm, 6)}\nexpected=\n{np.round(EH, 6)}")
    zmask = cov.cm[:, None] | cov.cm[None, :]
    if np.any(zmask):
        errP = float(np.max(np.abs(Pm[zmask])))
        if errP > tol:
            raise Violation("complex_parts_not_independent",
                            f"from_inverse={inv} pseudo-covariance S S^T should vanish for complex sampling "
                            f"dtype: max={errP:.3e} tol={tol:.3e}")
    # --- linearity in the normals (=> Gaussian with exactly this covariance)
    if K:
        w = np.resize(np.asarray(wrec, dtype=np.float64), K)
        sw, _ = T.run(lambda: sample_vec(op, inv), w)
        lin = np.abs(Smat) @ np.abs(w)
        ltol = (3e-6 if cov.low else 1e-10) * max(1.0, float(np.max(lin))) * max(1.0, min(kap, 1e8))
        if cx.ic.runs:
            ltol += e_col * (1 + float(np.sum(np.abs(w)))) + cov.err[inv] * max(cx.ic.norms + [0.0])
        errL = float(np.max(np.abs(sw - Smat @ w)))
        if errL > ltol:
            raise Violation("not_linear_in_normals", f"from_inverse={inv} err={errL:.3e} tol={ltol:.3e}")
    classes.append(f"K_{'eq' if K == n else ('2n' if K == 2 * n else 'other')}")
    return "sampled", classes


def check_cov(rec):
    cx = Cx(rec)
    cov = build_cov(cx, rec["D"], rec["node"])
    inv = bool(rec["inv"])
    require(cov.op.domain is cx.dom(rec["D"]), "operator_domain", f"{cov.op.domain}")
    # history: earlier draws from operators DERIVED from the same object (its .inverse / .adjoint, the other
    # from_inverse flag) must not influence the draw under test (e.g. through cached sampling factors)
    npre = 0
    for how, finv, seed in rec.get("pre", []):
        try:
            other = cov.op if how == "none" else _flip_op(cov.op, how)
            with ift.random.Context(int(seed)):
                other.draw_sample(from_inverse=bool(finv))
            npre += 1
        except (REFUSE + (ZeroDivisionError, AttributeError, TypeError)):
            pass       # refusals of the warm-up draws are judged by their own cases, not here
    outcome, classes = run_tape(cx, cov, inv, rec["w"])
    classes = list(classes) + ([f"earlier_draws_{npre}"] if rec.get("pre") else [])
    classes = list(classes) + sorted(cov.tags) + [outcome, "from_inverse" if inv else "forward",
                                                  "op_" + type(cov.op).__name__]
    anyc, allc = bool(np.any(cov.cm)), bool(np.all(cov.cm))
    classes.append("dtype_complex" if allc else ("dtype_mixed" if anyc else "dtype_real"))
    if cov.low:
        classes.append("single_precision")
    composite = rec["node"][0] not in ("scal", "diag", "pdiag")
    if outcome == "sampled":
        nontrivial = composite or inv or anyc
    else:
        nontrivial = outcome in ("refused_as_required", "zero_field")
    return dict(nontrivial=bool(nontrivial), classes=classes)


# ----------------------------------------------------------------------------- Monte-Carlo backstop
MC_P = 1e-12     # false-alarm probability per relation and case (3 relations per case)


def check_mc(rec):
    """black box: real draws from the library's RNG; whitened sample second moment vs Wishart tail bounds"""
    from scipy.stats import chi2
    cx = Cx(rec)
    cov = build_cov(cx, rec["D"], rec["node"])
    inv = bool(rec["inv"])
    tgt, expect = target_cov(cov, inv)
    if expect is not True or cov.low:
        raise Discard()
    if np.any(np.abs(tgt.imag) > 0):
        raise Discard()
    tgt = tgt.real
    n = tgt.shape[0]
    cidx = np.flatnonzero(cov.cm)
    ridx = np.flatnonzero(~cov.cm)
    if np.any(np.abs(tgt[np.ix_(cidx, ridx)]) > 0):
        raise Discard()
    N = int(rec["n"])
    with ift.random.Context(int(rec["seed"])):
        Z = np.stack([sample_vec(cov.op, inv) for _ in range(N)])
    require(Z.shape == (N, n), "sample_size", f"{Z.shape}")
    require(not np.any(Z[:, ridx].imag), "real_dtype_sample_has_imaginary_part", "")
    X = np.concatenate([Z.real, Z[:, cidx].imag], axis=1)
    d = X.shape[1]
    Sig = np.zeros((d, d))
    Sig[:n, :n] = tgt
    Sig[n:, n:] = tgt[np.ix_(cidx, cidx)]
    Lc = np.linalg.cholesky(Sig)
    U = np.linalg.solve(Lc, X.T).T          # rows ~ N(0, I_d) if the covariance is right
    # mean: N |mean|^2 ~ chi2_d
    m2 = N * float(np.sum(np.mean(U, axis=0) ** 2))
    require(m2 <= chi2.isf(MC_P, d), "mc_mean", f"N*|whitened mean|^2={m2:.2f} > {chi2.isf(MC_P, d):.2f}")
    # Davidson-Szarek: singular values of the N x d Gaussian matrix lie in sqrt(N) -/+ (sqrt(d) + t),
    # each side failing with probability <= exp(-t^2/2)
    t = np.sqrt(2 * np.log(1 / MC_P))
    lo = max(0.0, (np.sqrt(N) - np.sqrt(d) - t)) ** 2 / N
    hi = (np.sqrt(N) + np.sqrt(d) + t) ** 2 / N
    ev = np.linalg.eigvalsh(U.T @ U / N)
    if ev[0] < lo or ev[-1] > hi:
        raise Violation("mc_covariance", f"eigenvalues of the whitened sample second moment [{ev[0]:.3f}, "
                        f"{ev[-1]:.3f}] outside [{lo:.3f}, {hi:.3f}] (N={N}, d={d}, from_inverse={inv})")
    classes = sorted(cov.tags) + ["from_inverse" if inv else "forward",
                                  "dtype_complex" if cidx.size == n else ("dtype_mixed" if cidx.size else "dtype_real")]
    return dict(nontrivial=True, classes=classes)


# ----------------------------------------------------------------------------- strategies
def _sz(a, b, D):
    if isinstance(D, list):
        return D[1]
    return {"P": a * b, "H": a * b, "R": a, "K": a, "M": a + b, "Ma": a, "Mb": b}[D]


POS = S.dyadic_nz(0.25, 4.0, 8, signed=False)


CLS = st.sampled_from(["f8", "f8", "float", "c16", "c16", "complex"])


def g_sd(draw, cls, low=False):
    """sampling-dtype code of a leaf: the recipe-wide code `cls` (the library merges sampling dtypes of summed
    diagonal operators only if they are the identical Python object, so one tree uses one code per key)"""
    if low and draw(st.integers(0, 5)) == 0:
        return "c8" if cls in CPLX else "f4"
    return cls


def g_posvec(draw, n, zero_ok=False):
    v = draw(S.vec(n, POS))
    if zero_ok and draw(st.integers(0, 2)) == 0:
        zs = draw(st.lists(st.integers(0, n - 1), min_size=1, max_size=max(1, n // 2)))
        v = [0.0 if i in zs else x for i, x in enumerate(v)]
    return v


def g_leaf(draw, a, b, D, cls, zero_ok=False, low=False, kinds=None):
    n = _sz(a, b, D)
    kinds = kinds or (["scal", "diag", "diag"] + (["pdiag", "pdiag"] if D in ("P", "H") else []))
    kind = draw(st.sampled_from(kinds))
    sd = g_sd(draw, cls, low)
    if kind == "scal":
        f = draw(POS)
        if zero_ok and draw(st.integers(0, 5)) == 0:
            f = 0.0
        if draw(st.integers(0, 5)) == 0 and f == int(f):
            f = int(f)
        return ["scal", f, sd]
    if kind == "diag":
        v = g_posvec(draw, n, zero_ok)
        if all(x == int(x) for x in v) or draw(st.integers(0, 7)) == 0:
            return ["diag", [int(np.ceil(x)) for x in v], sd, "int"]
        return ["diag", v, sd]
    sp = draw(st.integers(0, 1))
    return ["pdiag", g_posvec(draw, a if sp == 0 else b, zero_ok), sd, sp]


HOWS = ["adjoint", "inverse", "inverse", "adjoint_inverse", "inverse_adjoint"]


def g_flip(draw, node, inverse_ok=True):
    how = draw(st.sampled_from(HOWS if inverse_ok else ["adjoint"]))
    return ["flip", how, node]


def _cplx(part):
    return st.fixed_dictionaries({"re": part, "im": part})


def _nz_elem(cplx_ok):
    return st.sampled_from([S.dyadic_nz(0.5, 2.0, 4)] + ([S.cplx_nz()] if cplx_ok else []))


def g_matrix(draw, rows, cols, cplx_ok):
    el = S.dyadic(-2, 2, 4)
    if cplx_ok and draw(st.integers(0, 2)) == 0:
        el = _cplx(S.dyadic(-2, 2, 4))
    return draw(S.mat(rows, cols, el))


def g_dominant(draw, n, cplx_ok):
    """square, diagonally dominant (well conditioned) matrix"""
    cp = cplx_ok and draw(st.integers(0, 2)) == 0
    off = S.dyadic(-0.125, 0.125, 16)
    m = []
    for i in range(n):
        row = []
        for j in range(n):
            if i == j:
                x = draw(S.dyadic_nz(1.0, 2.0, 4))
                row.append({"re": x, "im": draw(S.dyadic(-1, 1, 4))} if cp else x)
            else:
                row.append({"re": draw(off), "im": draw(off)} if cp else draw(off))
        m.append(row)
    return m


def g_bun(draw, a, b, D, depth, cplx_ok=True, want=None):
    """returns (bun node, target descriptor, invertible); want: None | "inv" | "noninv" """
    n = _sz(a, b, D)
    if D in ("M", "Ma", "Mb"):
        if draw(st.booleans()):
            return ["bscal", draw(S.number(complex_ok=cplx_ok, nonzero=True))], D, True
        keys = {"M": ("a", "b"), "Ma": ("a",), "Mb": ("b",)}[D]
        sub = {}
        for key in keys:
            kd = "R" if key == "a" else ["U", b]
            if draw(st.integers(0, 3)) == 0:
                sub[key] = None
            else:
                sub[key] = g_bun(draw, a, b, kd, 0, cplx_ok, want="same_inv")[0]
        return ["bblock", sub], D, True
    two = D in ("P", "H")
    inv_kinds = ["bscal", "bdiag", "bdiag", "bdense_inv"] + (["bpdiag"] if two else [])
    if want != "same_inv":
        if D in ("P", "R"):
            inv_kinds += ["bhartley"] + (["bfft"] if cplx_ok else [])
        if D in ("H", "K"):
            inv_kinds += ["bback_hartley"] + (["bback_fft"] if cplx_ok else [])
    non_kinds = ["bmat", "bdense_rect", "bdense_rect"]
    if want in ("inv", "same_inv"):
        kinds = inv_kinds + (["bflip", "bchain"] if depth > 0 and want == "inv" else []) + \
            (["bflip"] if depth > 0 and want == "same_inv" else [])
    elif want == "noninv":
        kinds = non_kinds + (["bchain"] if depth > 0 else [])
    else:
        kinds = inv_kinds + non_kinds + (["bflip", "bchain"] if depth > 0 else [])
    kind = draw(st.sampled_from(kinds))
    if kind == "bscal":
        return ["bscal", draw(S.number(complex_ok=cplx_ok, nonzero=True))], D, True
    if kind == "bdiag":
        return ["bdiag", draw(S.vec(n, draw(_nz_elem(cplx_ok))))], D, True
    if kind == "bpdiag":
        sp = draw(st.integers(0, 1))
        return ["bpdiag", draw(S.vec(a if sp == 0 else b, draw(_nz_elem(cplx_ok)))), sp], D, True
    if kind in ("bfft", "bhartley"):
        return [kind], {"P": "H", "R": "K"}[D], True
    if kind in ("bback_fft", "bback_hartley"):
        return ["bback", kind[6:], draw(st.sampled_from(["inverse", "adjoint"]))], {"H": "P", "K": "R"}[D], True
    if kind == "bdense_inv":
        same = want == "same_inv" or draw(st.booleans())
        return ["bdense", g_dominant(draw, n, cplx_ok), True, same], (D if same else ["U", n]), True
    if kind == "bmat":
        how = draw(st.sampled_from(["flat"] + (["sp0", "sp1"] if two else [])))
        m = {"flat": n, "sp0": a, "sp1": b}[how]
        return ["bmat", g_matrix(draw, m, m, cplx_ok), how], D, False
    if kind == "bdense_rect":
        rows = draw(st.integers(1, n + 1))
        return ["bdense", g_matrix(draw, rows, n, cplx_ok), False, False], ["U", rows], False
    if kind == "bflip":
        inner, _, _ = g_bun(draw, a, b, D, 0, cplx_ok, want="same_inv")
        return ["bflip", draw(st.sampled_from(HOWS)), inner], D, True
    # chain
    sub_want = want if want in ("inv", None) else None
    b2, Dm, i2 = g_bun(draw, a, b, D, 0, cplx_ok, want=sub_want)
    b1, D2, i1 = g_bun(draw, a, b, Dm, 0, cplx_ok, want=("noninv" if (want == "noninv" and i2) else sub_want))
    return ["bchain", b1, b2], D2, i1 and i2


def g_sandwich(draw, a, b, D, cls, depth, cplx_ok=True, want=None):
    bun, D2, _ = g_bun(draw, a, b, D, 1, cplx_ok, want)
    if draw(st.integers(0, 3)) == 0:
        return ["sandwich", bun, None, g_sd(draw, cls)]
    return ["sandwich", bun, g_cov(draw, a, b, D2, cls, depth - 1, cplx_ok), None]


def g_cov(draw, a, b, D, cls, depth, cplx_ok=True):
    """sample-able PSD covariance node on a tuple descriptor (nested position)"""
    if depth <= 0 or draw(st.integers(0, 2)) == 0:
        leaf = g_leaf(draw, a, b, D, cls)
        if draw(st.integers(0, 2)) == 0:
            return g_flip(draw, leaf)
        return leaf
    k = draw(st.sampled_from(["sandwich", "sandwich", "sum", "flip", "invenabler"]))
    if k == "sandwich":
        return g_sandwich(draw, a, b, D, cls, depth, cplx_ok)
    if k == "sum":
        return g_sum(draw, a, b, D, cls, depth, cplx_ok)
    if k == "flip":
        return g_flip(draw, g_cov(draw, a, b, D, cls, depth - 1, cplx_ok))
    return ["invenabler", g_cov(draw, a, b, D, cls, depth - 1, cplx_ok)]


def g_sum(draw, a, b, D, cls, depth, cplx_ok=True):
    nterm = draw(st.integers(2, 3))
    terms = []
    for _ in range(nterm):
        if draw(st.integers(0, 1)) == 0:
            terms.append(g_sandwich(draw, a, b, D, cls, depth - 1, cplx_ok))
        else:
            terms.append(g_cov(draw, a, b, D, cls, 0, cplx_ok))
    return ["sum", terms]


def _dense_of_bmat(a, b, D, node):
    m = nx.arr(node[1]).astype(np.complex128)
    how = node[2]
    if how == "sp0":
        return np.kron(m, np.eye(b))
    if how == "sp1":
        return np.kron(np.eye(a), m)
    return m


def g_diff(draw, a, b, D, cls, cplx_ok=True, psd=True):
    """A - B with A diagonal-like, B = bmat^H bmat * c; PSD (A dominates) or negative definite (B dominates)"""
    n = _sz(a, b, D)
    how = draw(st.sampled_from(["flat"] + (["sp0", "sp1"] if D in ("P", "H") else [])))
    m = {"flat": n, "sp0": a, "sp1": b}[how]
    bun = ["bmat", g_matrix(draw, m, m, cplx_ok), how]
    Bm = _dense_of_bmat(a, b, D, bun)
    c = draw(S.dyadic_nz(0.25, 1.0, 4, signed=False))
    bnorm = float(np.linalg.norm(Bm, 2) ** 2 * c)
    small = ["sandwich", bun, ["scal", c, g_sd(draw, cls)], None]
    margin = draw(S.dyadic_nz(0.25, 2.0, 4, signed=False))
    if psd:
        lvl = float(np.ceil(bnorm * 4) / 4 + margin)
        kind = draw(st.sampled_from(["scal", "diag"]))
        if kind == "scal":
            big = ["scal", lvl, g_sd(draw, cls)]
        else:
            big = ["diag", [lvl + x for x in draw(S.vec(n, S.dyadic(0, 2, 4)))], g_sd(draw, cls)]
        return ["diff", big, small, draw(st.sampled_from(["A-B", "-B+A"]))]
    # negative definite: (small PSD sandwich + tiny) - big
    ev = float(np.linalg.eigvalsh(Bm.conj().T @ Bm * c)[-1])
    lvl = float(np.ceil(ev * 4) / 4 + margin)
    if draw(st.integers(0, 2)) == 0:
        big = ["scal", lvl, g_sd(draw, cls)]     # absorbed: the sum holds a negative ScalingOperator
    else:
        big = ["diag", [lvl + x for x in draw(S.vec(n, S.dyadic(0, 2, 4)))], g_sd(draw, cls)]
    return ["diff", small, big, draw(st.sampled_from(["A-B", "-B+A"]))]


def g_enabler(draw, a, b, D, cls, cplx_ok=True):
    n = _sz(a, b, D)
    lk = draw(st.sampled_from(["sandwich_rect", "sandwich_rect", "sandwich", "leaf0", "sum"]))
    if lk == "sandwich_rect":
        rows = draw(st.integers(1, n + 1))
        bun = ["bdense", g_matrix(draw, rows, n, cplx_ok), False, False]
        ch = g_leaf(draw, a, b, ["U", rows], cls)
        if draw(st.booleans()):
            ch = ["flip", "inverse", ch]           # R^H N^-1 R
        lik = ["sandwich", bun, ch, None]
    elif lk == "sandwich":
        lik = g_sandwich(draw, a, b, D, cls, 1, cplx_ok)
    elif lk == "leaf0":
        lik = g_leaf(draw, a, b, D, cls, zero_ok=True, kinds=["diag"] + (["pdiag"] if D in ("P", "H") else []))
    else:
        lik = g_sum(draw, a, b, D, cls, 1, cplx_ok)
    pk = draw(st.sampled_from(["leaf", "leaf", "flipleaf", "sandwich_inv"]))
    if pk == "leaf":
        pri = g_leaf(draw, a, b, D, cls)
    elif pk == "flipleaf":
        pri = g_flip(draw, g_leaf(draw, a, b, D, cls))
    else:
        pri = g_sandwich(draw, a, b, D, cls, 0, cplx_ok, want="inv")
    ap = draw(st.sampled_from([None, None, "prior", "diag"]))
    if ap == "diag":
        ap = ["diag", draw(S.vec(n, POS)), None]
    return ["enabler", lik, pri, {"sfz": draw(st.booleans()), "approx": ap}]


def g_block(draw, a, b, D, clsmap, depth, cplx_ok=True, missing_ok=False):
    keys = {"M": ("a", "b"), "Ma": ("a",), "Mb": ("b",)}[D]
    sub = {}
    for key in keys:
        kd = "R" if key == "a" else ["U", b]
        if missing_ok and draw(st.integers(0, 2)) == 0:
            continue
        sub[key] = g_cov(draw, a, b, kd, clsmap[key], depth, cplx_ok)
    return ["block", sub]


def g_mscal(draw, D, clsmap):
    keys = {"M": ("a", "b"), "Ma": ("a",), "Mb": ("b",)}[D]
    f = draw(POS)
    # one spelling of the sampling dtype per tree and domain: summed ScalingOperators keep their sampling
    # dtype only if the dtype objects compare equal ({"a": float64} != float64)
    if len(set(clsmap[k] for k in keys)) == 1 and clsmap.get("_single", False):
        return ["scal", f, clsmap[keys[0]]]
    return ["scal", f, {k: clsmap[k] for k in keys}]


def g_multi(draw, a, b, clsmap, cplx_ok=True):
    """covariance on the MultiDomain M"""
    k = draw(st.sampled_from(["block", "block", "block", "mscal", "flip", "sum", "msum", "msum", "enabler",
                              "sandwich"]))
    if k == "block":
        return g_block(draw, a, b, "M", clsmap, 2, cplx_ok)
    if k == "mscal":
        nd = g_mscal(draw, "M", clsmap)
        return g_flip(draw, nd) if draw(st.booleans()) else nd
    if k == "flip":
        return g_flip(draw, g_block(draw, a, b, "M", clsmap, 1, cplx_ok))
    if k == "sum":
        t2 = g_block(draw, a, b, "M", clsmap, 1, cplx_ok) if draw(st.booleans()) else g_mscal(draw, "M", clsmap)
        return ["sum", [g_block(draw, a, b, "M", clsmap, 1, cplx_ok), t2]]
    if k == "msum":
        parts = []
        for Di in draw(st.sampled_from([["Ma", "Mb"], ["M", "Ma"], ["Mb", "M"], ["Ma", "Mb", "M"], ["Ma", "Ma", "Mb"]])):
            nd = g_block(draw, a, b, Di, clsmap, 1, cplx_ok) if draw(st.integers(0, 3)) else g_mscal(draw, Di, clsmap)
            parts.append([Di, nd])
        return ["msum", parts]
    if k == "enabler":
        lik = g_block(draw, a, b, "M", clsmap, 1, cplx_ok)
        if clsmap["a"] == clsmap["b"] and draw(st.booleans()):
            bun, _, _ = g_bun(draw, a, b, "M", 0, cplx_ok)
            lik = ["sandwich", bun, lik, None]
        pri = g_block(draw, a, b, "M", clsmap, 0, cplx_ok) if draw(st.booleans()) else g_mscal(draw, "M", clsmap)
        return ["enabler", lik, pri, {"sfz": draw(st.booleans()), "approx": draw(st.sampled_from([None, "prior"]))}]
    # sandwich on the multi-domain (uniform dtype only)
    c = draw(CLS)
    cm = {"a": c, "b": c}
    bun, _, _ = g_bun(draw, a, b, "M", 0, cplx_ok)
    return ["sandwich", bun, g_block(draw, a, b, "M", cm, 1, cplx_ok), None]


def _base(draw, amax=3):
    a = draw(st.integers(1, amax))
    b = draw(st.integers(1, 2))
    dist = draw(st.sampled_from([0.5, 1.0, 0.25, 2.0]))
    return a, b, dist


def _wrap(draw, a, b, dist, D, node, inv=None):
    return {"a": a, "b": b, "dist": dist, "D": D, "node": node,
            "inv": draw(st.booleans()) if inv is None else inv,
            "w": draw(S.vec(12, S.dyadic(-2, 2, 8)))}


TD = st.sampled_from(["P", "P", "H", "R", "K", "U"])


def _tupD(draw, a, b):
    D = draw(TD)
    return ["U", draw(st.integers(1, 5))] if D == "U" else D


def _maybe_flips(draw, node, maxn=2, inverse_ok=True):
    for _ in range(draw(st.integers(0, maxn))):
        node = g_flip(draw, node, inverse_ok)
    return node


@st.composite
def r_scaling(draw, tier):
    a, b, dist = _base(draw)
    cls = draw(CLS)
    if draw(st.integers(0, 3)) == 0:
        D = draw(st.sampled_from(["M", "Ma", "Mb"]))
        c2 = draw(CLS)
        node = g_mscal(draw, D, {"a": cls, "b": c2, "_single": draw(st.booleans())})
        return _wrap(draw, a, b, dist, D, _maybe_flips(draw, node))
    D = _tupD(draw, a, b)
    node = g_leaf(draw, a, b, D, cls, zero_ok=True, low=True, kinds=["scal"])
    if node[1] == 0:
        # zero covariance: forward draws only, not flipped (.inverse raises ZeroDivisionError at construction)
        return _wrap(draw, a, b, dist, D, _maybe_flips(draw, node, 1, inverse_ok=False), inv=False)
    return _wrap(draw, a, b, dist, D, _maybe_flips(draw, node))


def _inv_parity(node):
    p = False
    while node[0] == "flip":
        p ^= "inverse" in node[1]
        node = node[2]
    return p, node


@st.composite
def r_diagonal(draw, tier):
    a, b, dist = _base(draw)
    cls = draw(CLS)
    D = _tupD(draw, a, b)
    node = g_leaf(draw, a, b, D, cls, zero_ok=True, low=True,
                  kinds=["diag", "diag"] + (["pdiag", "pdiag", "pdiag"] if D in ("P", "H") else []))
    haszero = any(x == 0 for x in node[1])
    if haszero:
        # semi-definite: only the combination whose covariance exists (flips act on the stored
        # diagonal lazily, so .inverse of a diagonal with zeros is constructible)
        node = _maybe_flips(draw, node, 2)
        par, _ = _inv_parity(node)
        return _wrap(draw, a, b, dist, D, node, inv=par)
    return _wrap(draw, a, b, dist, D, _maybe_flips(draw, node, 3))


@st.composite
def r_sandwich(draw, tier):
    a, b, dist = _base(draw)
    cls = draw(CLS)
    D = _tupD(draw, a, b)
    want = draw(st.sampled_from(["inv", "inv", "noninv", None]))
    node = g_sandwich(draw, a, b, D, cls, 2 if tier == "quick" else 3, True, want)
    return _wrap(draw, a, b, dist, D, _maybe_flips(draw, node, 2))


@st.composite
def r_block(draw, tier):
    a, b, dist = _base(draw)
    clsmap = {"a": draw(CLS), "b": draw(CLS), "_single": draw(st.booleans())}
    node = g_multi(draw, a, b, clsmap)
    return _wrap(draw, a, b, dist, "M", _maybe_flips(draw, node, 1))


@st.composite
def r_sums(draw, tier):
    a, b, dist = _base(draw)
    cls = draw(CLS)
    D = _tupD(draw, a, b)
    k = draw(st.sampled_from(["enabler", "enabler", "enabler", "sum", "sum", "diff", "sandwich_enabler",
                              "invenabler"]))
    if k == "enabler":
        node = g_enabler(draw, a, b, D, cls)
        inv = draw(st.sampled_from([True, True, False]))
        node = _maybe_flips(draw, node, 1)
        par, _ = _inv_parity(node)
        return _wrap(draw, a, b, dist, D, node, inv=inv ^ par)
    if k == "sum":
        node = g_sum(draw, a, b, D, cls, 2)
        node = _maybe_flips(draw, node, 1)
        par, _ = _inv_parity(node)
        inv = draw(st.sampled_from([False, False, False, True]))
        return _wrap(draw, a, b, dist, D, node, inv=inv ^ par)
    if k == "diff":
        node = g_diff(draw, a, b, D, cls)
        return _wrap(draw, a, b, dist, D, node, inv=False)
    if k == "sandwich_enabler":
        bun, D2, _ = g_bun(draw, a, b, D, 0, True, want="inv")
        node = ["sandwich", bun, g_enabler(draw, a, b, D2, cls), None]
        return _wrap(draw, a, b, dist, D, node)
    node = ["invenabler", g_sum(draw, a, b, D, cls, 1)]
    return _wrap(draw, a, b, dist, D, node, inv=False)


def _bad_leaf(draw, a, b, D, kind):
    """leaf that cannot represent a covariance"""
    n = _sz(a, b, D)
    cls = draw(CLS)
    if kind == "nodtype":
        lf = g_leaf(draw, a, b, D, cls)
        lf[2] = None
        return lf
    sd = g_sd(draw, cls)
    lk = draw(st.sampled_from(["scal", "diag", "diag"] + (["pdiag"] if D in ("P", "H") else [])))
    if kind == "negative":
        if lk == "scal":
            return ["scal", -draw(POS), sd]
        m = n if lk == "diag" else None
        sp = draw(st.integers(0, 1))
        m = n if lk == "diag" else (a if sp == 0 else b)
        v = draw(S.vec(m, POS))
        for i in draw(st.lists(st.integers(0, m - 1), min_size=1, max_size=m)):
            v[i] = -abs(v[i])
        return ["diag", v, sd] if lk == "diag" else ["pdiag", v, sd, sp]
    if kind == "complex":
        im = S.dyadic_nz(0.25, 2.0, 8)
        if lk == "scal":
            return ["scal", {"re": draw(S.dyadic(-2, 4, 8)), "im": draw(im)}, sd]
        sp = draw(st.integers(0, 1))
        m = n if lk == "diag" else (a if sp == 0 else b)
        v = [{"re": x, "im": 0.0} for x in draw(S.vec(m, POS))]
        for i in draw(st.lists(st.integers(0, m - 1), min_size=1, max_size=m)):
            v[i] = {"re": v[i]["re"], "im": draw(im)}
        return ["diag", v, sd] if lk == "diag" else ["pdiag", v, sd, sp]
    # zero eigenvalue
    if lk == "scal":
        return ["scal", 0.0, sd]
    sp = draw(st.integers(0, 1))
    m = n if lk == "diag" else (a if sp == 0 else b)
    v = draw(S.vec(m, POS))
    for i in draw(st.lists(st.integers(0, m - 1), min_size=1, max_size=max(1, m - 1))):
        v[i] = 0.0
    return ["diag", v, sd] if lk == "diag" else ["pdiag", v, sd, sp]


@st.composite
def r_refusal(draw, tier):
    a, b, dist = _base(draw)
    kind = draw(st.sampled_from(["nodtype", "nodtype", "negative", "negative", "complex", "zero", "zero",
                                 "wide_bun", "neg_sum", "cheese_none_nodtype", "missing_key"]))
    D = _tupD(draw, a, b)
    if kind == "wide_bun":
        n = _sz(a, b, D)
        if n == 1:
            D, n = "P", a * b
            if n == 1:
                D, n = ["U", 3], 3
        rows = draw(st.integers(1, n - 1))
        cls = draw(CLS)
        bun = ["bdense", g_matrix(draw, rows, n, True), False, False]
        node = ["sandwich", bun, g_leaf(draw, a, b, ["U", rows], cls), None]
        node = _maybe_flips(draw, node, 1)
        par, _ = _inv_parity(node)
        return _wrap(draw, a, b, dist, D, node, inv=not par)
    if kind == "neg_sum":
        node = g_diff(draw, a, b, D, draw(CLS), psd=False)
        return _wrap(draw, a, b, dist, D, node, inv=False)
    if kind == "cheese_none_nodtype":
        bun, _, _ = g_bun(draw, a, b, D, 1)
        return _wrap(draw, a, b, dist, D, _maybe_flips(draw, ["sandwich", bun, None, None], 1))
    if kind == "missing_key":
        clsmap = {"a": draw(CLS), "b": draw(CLS)}
        keep = draw(st.sampled_from(["a", "b", None]))
        sub = {}
        if keep is not None:
            sub[keep] = g_cov(draw, a, b, "R" if keep == "a" else ["U", b], clsmap[keep], 1)
        return _wrap(draw, a, b, dist, "M", _maybe_flips(draw, ["block", sub], 1))
    wrap = draw(st.sampled_from(["bare", "bare", "flip", "sandwich", "block", "invenabler"]))
    if wrap == "block":
        key = draw(st.sampled_from(["a", "b"]))
        kd = "R" if key == "a" else ["U", b]
        bad = _bad_leaf(draw, a, b, kd, kind)
        other = "b" if key == "a" else "a"
        sub = {key: bad, other: g_cov(draw, a, b, "R" if other == "a" else ["U", b],
                                      draw(CLS), 1)}
        node, D = ["block", sub], "M"
    elif wrap == "sandwich":
        bun, D2, _ = g_bun(draw, a, b, D, 1, True, want="inv")
        node = ["sandwich", bun, _bad_leaf(draw, a, b, D2, kind), None]
    else:
        node = _bad_leaf(draw, a, b, D, kind)
        if wrap == "invenabler":
            node = ["invenabler", node]
    if kind == "zero":
        if node[0] == "scal" or (wrap == "invenabler" and node[1][0] == "scal"):
            # zero ScalingOperator: cannot be flipped (ZeroDivisionError at construction)
            return _wrap(draw, a, b, dist, D, node, inv=draw(st.sampled_from([True, True, False])))
        if wrap in ("flip", "bare"):
            node = _maybe_flips(draw, node, 2 if wrap == "flip" else 0)
        par, _ = _inv_parity(node)
        want_inv = draw(st.sampled_from([True, True, True, False]))   # mostly the non-existing inverse
        return _wrap(draw, a, b, dist, D, node, inv=want_inv ^ par)
    if wrap == "flip":
        node = _maybe_flips(draw, g_flip(draw, node), 1)
    return _wrap(draw, a, b, dist, D, node)


@st.composite
def r_mc(draw, tier):
    a, b, dist = _base(draw)
    cls = draw(CLS)
    k = draw(st.sampled_from(["leaf", "sandwich", "sandwich", "sum", "block", "enabler"]))
    D = _tupD(draw, a, b)
    inv = None
    if k == "leaf":
        node = _maybe_flips(draw, g_leaf(draw, a, b, D, cls), 1)
    elif k == "sandwich":
        node = _maybe_flips(draw, g_sandwich(draw, a, b, D, cls, 1, False, want="inv"), 1)
    elif k == "sum":
        node, inv = g_sum(draw, a, b, D, cls, 1, False), False
    elif k == "block":
        D = "M"
        node = g_block(draw, a, b, "M", {"a": cls, "b": draw(CLS)}, 1, False)
    else:
        node, inv = g_enabler(draw, a, b, D, cls, False), draw(st.booleans())
    rec = _wrap(draw, a, b, dist, D, node, inv)
    rec["seed"] = draw(st.integers(0, 2 ** 31 - 1))
    rec["n"] = 6000 if tier == "quick" else 12000
    return rec


_NT = ("non-trivial = the draw succeeded and the operator is composite (not a bare leaf) or the draw is from the "
       "inverse or the sampling dtype is complex; every case also checks S*0 = 0 and linearity in the normals; "
       "0-2 earlier draws from operators derived from the same object (.inverse/.adjoint, other from_inverse) precede "
       "the draw under test and must not influence it")

def _with_history(strategy):
    """adds 0-2 earlier draws from the same operator family to a recipe strategy"""
    pre = st.lists(st.tuples(st.sampled_from(["none", "inverse", "adjoint", "inverse_adjoint", "adjoint_inverse"]),
                             st.booleans(), st.integers(0, 2**20)).map(list), min_size=0, max_size=2)

    def wrapped(tier):
        return st.tuples(strategy(tier), pre).map(lambda t: dict(t[0], pre=t[1]))
    return wrapped


r_scaling, r_diagonal, r_sandwich, r_block, r_sums = (_with_history(f) for f in
                                                     (r_scaling, r_diagonal, r_sandwich, r_block, r_sums))

SUBS = [
    Sub(name="scaling", check=check_cov, strategy=r_scaling, quick=800, thorough=20000, shards=4,
        rule="ScalingOperator on DomainTuples and MultiDomains (dtype dicts), flipped, zero factor forward, "
             "float32/complex64 too; " + _NT),
    Sub(name="diagonal", check=check_cov, strategy=r_diagonal, quick=1200, thorough=30000, shards=4,
        rule="DiagonalOperator full and partial space, int/float diagonals, zeros (semi-definite) where the "
             "covariance exists, up to 3 nested .inverse/.adjoint flips; " + _NT),
    Sub(name="sandwich", check=check_cov, strategy=r_sandwich, quick=2000, thorough=40000, shards=8,
        rule="SandwichOperator.make with invertible buns (scaling, diagonal, FFT/Hartley both directions, dense, "
             "chains, flipped) and non-invertible buns (MatrixProductOperator, rectangular dense), nested "
             "cheeses, cheese=None with sampling_dtype, OperatorAdapter flips; " + _NT),
    Sub(name="block_diagonal", check=check_cov, strategy=r_block, quick=2000, thorough=40000, shards=8,
        rule="BlockDiagonalOperator with mixed real/complex sampling dtypes, nested entries, sums of block "
             "operators on equal / disjoint / overlapping MultiDomains, ScalingOperator on MultiDomains, "
             "SamplingEnabler and sandwiches on MultiDomains; " + _NT),
    Sub(name="sums_enabler", check=check_cov, strategy=r_sums, quick=2000, thorough=40000, shards=8,
        rule="SumOperator forward draws, PSD differences A-B (must have covariance A-B or refuse), "
             "SamplingEnabler (CG with a recording controller, tol_abs 1e-12; comparison tolerance derived "
             "from the recorded residual), with/without preconditioner and start_from_zero, its .inverse, "
             "sandwiches around it, InversionEnabler; " + _NT),
    Sub(name="refusal", check=check_cov, strategy=r_refusal, quick=1600, thorough=30000, shards=8,
        rule="operators that cannot represent a covariance: no sampling dtype (leaf, cheese=None, missing "
             "block entry), negative or complex diagonal/factor, zero eigenvalue drawn from the inverse, "
             "singular sandwich (wide bun) drawn from the inverse, negative-definite difference; bare, "
             "flipped, as cheese, as block entry, behind InversionEnabler. non-trivial = draw_sample raised "
             "ValueError/RuntimeError/NotImplementedError as required"),
    Sub(name="montecarlo", check=check_mc, strategy=r_mc, quick=64, thorough=480, shards=8,
        rule="black box (no tape): 6000 draws (thorough 12000) from the library RNG under a generated seed; "
             "sample whitened with the model covariance; chi-square bound on the mean, Davidson-Szarek bound on "
             "the extreme eigenvalues of the sample second moment; false-alarm probability <= 3e-12 per case. "
             "non-trivial = every evaluated case"),
]
