"""C03 - nonlinear operator values and Jacobians are exact derivatives (DESIGN 2/C03).

Recipe
------
{"u": {"spaces": [["rg", n, dist] | ["un", n], ...(1 or 2)], "keys": [] | ["a","b"(,"c")], "cplx": bool,
       "pc": 0|1|None},
 "x": {key or "": [flat numbers]}, "wm": bool, "expr": tree}

The tree is interpreted three times:
  * as a NIFTy *operator* expression (`_Build`)            -> op(x), op(Linearization.make_var(x, wm))
  * directly on Linearization / Field objects (`_Eager`)   -> Linearization arithmetic rules
  * as a pure JAX function on arrays (`_jx`, jnp primitives only, own evaluation semantics);
    forward-mode JVPs pushed over the standard basis (what jax.jacfwd does; the basis is zero-padded
    to a fixed batch of 24 so that XLA compiles each primitive once per field shape) give the true
    Jacobian of the result *and of every intermediate node* (used for the magnitude bound).

Types of sub-expressions: "D" full domain, "P" D with space `pc` contracted (2-space domains only),
"S" scalar domain, "T" MultiDomain target {"x": D, "y": D}.

Two further sub-checks have their own recipes (see the sections "ptw_sweep" and "einsum_general"):
  ptw_sweep      {"name", "cplx", "route", "args", "pts": 16 arguments, "pre": exponents of an inner diagonal
                  Jacobian or None, "dom", "wm"} - one table entry on arguments spanning all magnitudes
  einsum_general {"spaces": letter -> space, "ops": [{"key", "ss", "static", "val", "pre"}] in key_order,
                  "out", "cplx", "optimize", "mode": "mle"|"linear", "domdict", "static_as", "ko_none", "wm"}
"""
import numpy as np
from hypothesis import strategies as st

import nifty.cl as ift
from vlib import Discard, Sub, Violation, close, require
from vlib import nx
from vlib import strat as S

PROPERTY = "C03"
LEVEL = "exploration"
TECHNIQUE = "PBT: same expression recipe interpreted by NIFTy and by an independent JAX program; forward-mode AD oracle"
RULE = ("Typed random expression trees (depth<=3 quick, <=4 thorough) over single domains and MultiDomains "
        "(2-3 keys, <=8 pixels per key) built from every entry of pointwise.ptw_dict (inputs kept inside the "
        "region where the entry is differentiable; affine pre-factors 2^k, k=-40..7, push the arguments into "
        "the saturated and the near-zero regimes), * + - / ** with operators, numbers and fields, "
        "linear operators, sum/integrate/vdot/broadcast, key insertion/extraction, ducktape, real/imag/"
        "conjugate, MultiLinearEinsum (2-3 operands, drawn key_order/static fields/optimize), JaxOperator "
        "(DomainTuple and MultiDomain) and energies at the root (incl. sums, scalings, StandardHamiltonian, "
        "AveragedEnergy). Oracle: the same "
        "recipe interpreted as a pure JAX function; value vs op(x) vs op(Linearization).val; dense "
        "Jacobian (TIMES) vs forward-mode JAX Jacobian; dense adjoint vs (conjugate) transpose; metric vs "
        "J^T M J with the closed-form Fisher metric M of the energy. Plus two dedicated sub-checks: "
        "ptw_sweep (every table entry over its whole range: arguments m*2^k, k=-40..8, linear grid up to 448, "
        "0, both signs, complex; value/f'/adjoint vs jnp + jax.jvp) and einsum_general (MultiLinearEinsum / "
        "LinearEinsum with 2-4 operands, generated subscripts, every key order, static subsets, optimize "
        "forms, real/complex vs a broadcast-multiply-sum reference).")
LEVEL_TEXT = ("Generated search over operator expression trees with an independent automatic-differentiation "
              "oracle: every point-wise function of the table, every combinator named in the property and "
              "four likelihood energies are exercised in random compositions at random points; exact "
              "(round-off level) agreement of value, Jacobian, adjoint Jacobian and metric is demanded. "
              "Exploration, not proof: depth <= 4, <= 24 input pixels.")
LEVEL_NOTE = ("Trusted: jax.numpy primitives and their JVP rules (x64), NumPy, the harness' own tree "
              "interpreter. In the trees points closer than a stated margin to kinks, poles and branch cuts are "
              "discarded; ptw_sweep knows its arguments exactly and only excludes the kink/pole itself.")
ASSUMPTIONS = [
    "expression trees: valid input range of a ptw entry = where it is differentiable: reciprocal/non-integer or "
    "negative power on values >= 1/16, real log/log10/sqrt on values >= 2^-12 (complex: |z| >= 1/16 and 0.05 rad "
    "away from the negative real axis), abs/sign/"
    "unitstep/clip at least 1/32 away from their kinks and on real input only (the tree oracle does not know "
    "the argument exactly), tan/tanh/sigmoid away from poles; sinc everywhere (after the repair of its "
    "small-argument derivative, REGIONS['sinc_small_argument'])",
    "power with exponent 0 is not generated (the library's derivative formula gives 0*inf at v=0)",
    "for expressions that are only real-linear in a complex input (real, imag, conjugate, vdot, complex "
    "Gaussian energy) 'Jacobian' and 'conjugate transpose' are meant in the real 2N representation "
    "(columns = images of e_i and 1j*e_i; adjoint = transpose), as in DESIGN 1.8",
    "comparison tolerance 1e-9 * max|intermediate value| * max|intermediate Jacobian entry| (bound taken "
    "from the oracle's own forward pass); cases where that product exceeds 1e6 are discarded",
    "Fisher metrics used: Gaussian = inverse covariance, Poisson = diag(1/lambda), Bernoulli = "
    "diag(1/(p(1-p))), Student-t = diag((theta+1)/(theta+3)); StandardHamiltonian adds the identity",
    "Linearization.outer and calling ducktape_left on a Linearization are outside the property",
    ".imag of a complex expression whose Jacobian the library simplifies to ScalingOperator(0) (x - x): that "
    "operator returns a real-typed zero field and Imaginizer rejects real input by design (explicit ValueError), "
    "so the Jacobian cannot be applied; such recipes are discarded like .imag of real input",
    "ptw_sweep: documented range of an entry = all float64 arguments with |x| <= 448 (complex: |Re|,|Im| <= 112, "
    "so that no intermediate of the library's closed forms overflows) at which it is differentiable: "
    "sqrt/log/log10/non-integer or negative power: x > 0 (complex: off 0 and at least atan(1/16) off the negative "
    "real axis); log1p: x > -1; reciprocal/abs/sign/unitstep: x != 0; clip: x != bounds (bounds: numbers, ints, "
    "fields, None); complex tan/tanh/sigmoid/arctan/softplus: |cos|,|cosh|,|1+z^2|,|1+e^z| >= 1/64 and off the "
    "branch cuts; complex softplus right of the library's cut-over (Re z > 33, result z) only for |Im z| <= 2 where "
    "z is the principal value of log(1+e^z); abs/sign/clip/unitstep real only",
    "ptw_sweep tolerance: |value - f| <= 1e-11 (|f| + |x f'| + 1) and |derivative - f'| <= 1e-11 (|f'| + |x f''| "
    "+ 1) per argument (f, f', f'' from the harness' jnp expression by jax.jvp; sinc by its Maclaurin series "
    "below |pi x| = 1/2 because differentiating sin(t)/t cancels): relative accuracy, plus the conditioning with "
    "respect to the argument (argument reduction and composed formulas such as base**x = exp(x log base) lose "
    "|x f'/f| ulps in either implementation), plus an absolute floor at the function's natural scale 1 "
    "(closed forms like 1 - tanh(x)^2 or expm1(x) + 1 carry an absolute error of one ulp of 1). 1e-11 = ~5e4 "
    "ulp leaves room for the few-ulp differences between NumPy's and XLA's elementary functions and still "
    "resolves any wrong branch, factor or sign (errors of relative size >= 1e-10)",
    "einsum_general: documented argument domain of MultiLinearEinsum/LinearEinsum = einsum subscripts 'a,b,..->o' "
    "with one letter per space (a space may have several array axes), every letter at most once per operand and "
    "once in the output, output letters drawn from the operands, key_order any order of the keys (None: sorted "
    "keys, only without static fields), static_mf dict or MultiField, optimize as for numpy.einsum_path "
    "(bool, 'greedy', 'optimal', explicit path); repeated letters inside one operand (traces/diagonals: the "
    "adjoint cannot be written as an einsum) are not generated; tolerance 1e-10 * max(1, |J|, |value|)",
]

VMAX = 1e3       # intermediate values beyond this are outside the generated range (discard)
SMAX = 1e6       # bound on value*Jacobian magnitude
NPAD = 24        # fixed number of tangent directions pushed through the JAX program
TOL = 1e-9


# ====================================================================== universe
class Uni:
    def __init__(self, rec):
        u = rec["u"]
        sp, self.dvol, shape = [], [], []
        for s in u["spaces"]:
            if s[0] == "rg":
                sp.append(ift.RGSpace(s[1], distances=s[2]))
                self.dvol.append(float(s[2]))
            else:
                sp.append(ift.UnstructuredDomain(s[1]))
                self.dvol.append(1.0)
            shape.append(s[1])
        self.shape = tuple(shape)
        self.size = int(np.prod(shape))
        self.D = ift.DomainTuple.make(tuple(sp))
        self.S = ift.DomainTuple.scalar_domain()
        self.pc = u.get("pc")
        if self.pc is not None:
            keep = 1 - self.pc
            self.P = ift.DomainTuple.make((sp[keep],))
            self.pshape = (shape[keep],)
        self.T = ift.MultiDomain.make({"x": self.D, "y": self.D})
        self.keys = list(u["keys"])
        self.multi = len(self.keys) > 0
        self.cplx = bool(u["cplx"])
        self.dtype = np.complex128 if self.cplx else np.float64
        if self.multi:
            self.dom = ift.MultiDomain.make({k: self.D for k in self.keys})
        else:
            self.dom = self.D
        self.x = {}
        for k in (self.keys if self.multi else [""]):
            self.x[k] = nx.arr(rec["x"][k]).astype(self.dtype).reshape(self.shape)

    def field(self, vec, dom=None, shape=None, force_dtype=False):
        a = nx.arr(vec)
        if not self.cplx:
            a = a.astype(np.float64)
        elif force_dtype:
            a = a.astype(np.complex128)
        return ift.makeField(dom or self.D, np.array(a.reshape(shape or self.shape)))

    def xfield(self, keys=None):
        if not self.multi:
            return ift.makeField(self.D, np.array(self.x[""]))
        keys = self.keys if keys is None else keys
        dom = ift.MultiDomain.make({k: self.D for k in keys})
        return ift.MultiField.from_dict({k: ift.makeField(self.D, np.array(self.x[k])) for k in keys}, dom)


def _num(v):
    return nx.num(v)


# ====================================================================== guards (concrete pass only)
def _np(v):
    return np.asarray(v)


def _pos(z, rmin=1. / 16):
    z = _np(z)
    if np.iscomplexobj(z):
        ok = (np.abs(z) >= rmin) & (np.abs(np.angle(z)) <= np.pi - 0.05)
    else:
        ok = z >= rmin
    if not np.all(ok):
        raise Discard()


def _nz(z, rmin=1. / 16):
    if not np.all(np.abs(_np(z)) >= rmin):
        raise Discard()


def _realonly(z):
    if np.iscomplexobj(_np(z)):
        raise Discard()


def _needcomplex(z):
    if not np.iscomplexobj(_np(z)):
        raise Discard()


def _is_posint(e):
    e = _np(e)
    return (not np.iscomplexobj(e)) and np.all(e == np.round(e)) and np.all(e >= 1)


def guard_ptw(name, v, args):
    z = _np(v)
    if name in ("sqrt", "log", "log10"):
        # (the distance from the singularity enters the tolerance through the oracle's Jacobian bound)
        _pos(z, 1. / 16 if np.iscomplexobj(z) else 2. ** -12)
    elif name == "log1p":
        _pos(1 + z)
    elif name == "reciprocal":
        _nz(z)
    elif name == "power":
        if not _is_posint(args[0]):
            _pos(z)
    elif name in ("abs", "absolute", "sign", "unitstep"):
        _realonly(z)
        _nz(z, 1. / 32)
    elif name == "clip":
        _realonly(z)
        if args[0] is not None:
            _nz(z - _np(args[0]), 1. / 32)
        if args[1] is not None:
            _nz(z - _np(args[1]), 1. / 32)
    elif name == "tan":
        _nz(np.cos(z), 0.1)
    elif name in ("tanh", "sigmoid"):
        if np.iscomplexobj(z):
            _nz(np.cosh(z), 0.1)
    elif name == "arctan":
        if np.iscomplexobj(z):
            _nz(1 + z * z, 0.1)
            if not np.all((np.abs(z.real) >= 0.05) | (np.abs(z.imag) <= 0.9)):
                raise Discard()
    elif name == "softplus":
        if np.iscomplexobj(z):
            # log(1+exp(z)) on its principal branch; far to the right (library: Re z > 33 -> z itself) this
            # is only the same function while |Im z| < pi
            sat = (z.real > 30) & (np.abs(z.imag) <= 2)
            if not np.all((np.abs(z.real) <= 30) | sat):
                raise Discard()
            if not np.all(sat):
                _pos(1 + np.exp(z[~sat]), 0.1)
    elif name == "sinc":
        if not REGIONS["sinc_small_argument"] and not np.all((z == 0) | (np.abs(z) >= 1. / 64)):
            raise Discard()
    elif name == "exponentiate":
        _pos(args[0], 0.25)


# ====================================================================== JAX interpreter (the oracle)
def _jp():
    import jax.numpy as jnp

    def softplus(v):
        if jnp.iscomplexobj(v):
            return jnp.log(1 + jnp.exp(v))
        return jnp.logaddexp(v, 0.)

    def clip(v, lo, hi):
        r = v
        if lo is not None:
            r = jnp.maximum(r, lo)
        if hi is not None:
            r = jnp.minimum(r, hi)
        return r

    def sinc(v):
        # sin(t)/t, t = pi v, with the Maclaurin series for |t| < 1/2: automatic differentiation of the
        # quotient (also of jnp.sinc) cancels catastrophically for small |t| (absolute error eps/|t|), the
        # polynomial does not; truncation error of the series < 1e-19 relative
        t = np.pi * v
        small = jnp.abs(t) < 0.5
        ts = jnp.where(small, t, 0.)
        q = ts * ts
        ser = 1. + q * (-1. / 6 + q * (1. / 120 + q * (-1. / 5040 + q * (1. / 362880 + q * (
            -1. / 39916800 + q * (1. / 6227020800 + q * (-1. / 1307674368000)))))))
        tl = jnp.where(small, 1., t)
        return jnp.where(small, ser, jnp.sin(tl) / tl)

    def sigmoid(v):
        import jax
        if jnp.iscomplexobj(v):
            return 0.5 + 0.5 * jnp.tanh(v)
        return jax.nn.sigmoid(2. * v)       # overflow-free value and derivative for any magnitude

    return {
        "sqrt": jnp.sqrt, "sin": jnp.sin, "cos": jnp.cos, "tan": jnp.tan, "sinc": sinc,
        "exp": jnp.exp, "expm1": jnp.expm1, "log": jnp.log,
        "log10": lambda v: jnp.log(v) / np.log(10.), "log1p": jnp.log1p,
        "sinh": jnp.sinh, "cosh": jnp.cosh, "tanh": jnp.tanh,
        "sigmoid": sigmoid,
        "reciprocal": lambda v: 1. / v,
        "abs": jnp.abs, "absolute": jnp.abs, "sign": jnp.sign,
        "power": lambda v, e: jnp.power(v, e),
        "clip": clip, "softplus": softplus,
        "exponentiate": lambda v, b: jnp.exp(v * jnp.log(b)),
        "arctan": jnp.arctan,
        "unitstep": lambda v: jnp.where(v >= 0, 1., 0.),
    }


def _jaxfuncs():
    """functions handed to ift.JaxOperator (act on arrays of the domain's shape)"""
    import jax.numpy as jnp
    return [
        lambda v: jnp.sin(v) * v,
        lambda v: jnp.exp(0.5 * v) + v * v,
        lambda v: jnp.cumsum(v.reshape(-1)).reshape(v.shape) * jnp.cos(v),
        lambda v: jnp.tanh(v) * jnp.sum(v * v),
    ]


_CACHE = {}


def _tables():
    if not _CACHE:
        _CACHE["jp"] = _jp()
        _CACHE["jf"] = _jaxfuncs()
    return _CACHE["jp"], _CACHE["jf"]


def _tm(f, *vals):
    if isinstance(vals[0], dict):
        return {k: f(*[v[k] for v in vals]) for k in sorted(vals[0])}
    return f(*vals)


# ---- fixed-shape representation -------------------------------------------------------------------
# Every non-scalar oracle value is a length-LPAD vector holding the C-order flattened field, cyclically
# repeated ("tiled") up to LPAD.  Point-wise operations keep the tiling, linear maps are LPAD x LPAD
# matrices built so that their output is tiled again, reductions mask the repeats.  Scalars have shape ().
# XLA therefore sees the same few array shapes for every recipe and compiles each primitive only once.
LPAD = 8


def _tile(a):
    a = np.asarray(a).reshape(-1)
    return a[np.arange(LPAD) % a.size]


def _tilemat(M, nout, nin):
    """(nout x nin) matrix -> LPAD x LPAD: rows tiled, columns beyond nin zero"""
    R = np.zeros((LPAD, LPAD), dtype=np.asarray(M).dtype)
    R[:, :nin] = np.asarray(M)[np.arange(LPAD) % nout, :]
    return R


def typ_of(n, u):
    """static type of a sub-expression: "D", "P", "S" or "T" """
    k = n[0]
    if k in ("var", "bcast", "bcastS", "get", "lin", "linpre", "addf", "subf", "mulf", "divf", "jaxop", "jaxop2"):
        return "D"
    if k in ("vdot", "vdotf", "energy", "esum", "escale", "ham", "avg"):
        return "S"
    if k in ("tadd", "jaxopT"):
        return "T"
    if k in ("sum", "integrate"):
        return "S" if n[1] is None else "P"
    if k == "join":
        return "T"
    if k == "pins":
        return typ_of(n[3], u)
    if k == "mle":
        out = n[1].split("->")[1]
        return {0: "S", 1: "D" if len(u.shape) == 1 else "P", 2: "D"}[len(out)]
    if k == "mlen":
        return {0: "S", 1: "D" if len(u.shape) == 1 else "P", 2: "D"}[len(n[1])]
    if k == "ptw":
        return typ_of(n[3], u)
    if k == "bin":
        return typ_of(n[2], u)
    if k in ("neg", "real", "imag", "conj"):
        return typ_of(n[1], u)
    return typ_of(n[2], u)      # mulc, addc, ..., duckr


class JEnv:
    def __init__(self, u, x, guard):
        self.u = u
        self.x = x          # key -> tiled array
        self.guard = guard
        self.keys = []      # keys the function is differentiated with respect to
        self.inter = []
        self.local = []
        sz = u.size
        self.n = {"D": sz, "P": (u.pshape[0] if u.pc is not None else 0), "S": 1}
        self.mask = {"D": np.arange(LPAD) < sz, "P": np.arange(LPAD) < self.n["P"]}
        if u.pc is not None:
            n1 = u.shape[1]
            j = np.arange(sz)
            self.keep = (j % n1) if u.pc == 0 else (j // n1)    # flat D index -> P index

    def note(self, v):
        if isinstance(v, dict):
            for k in sorted(v):
                self.inter.append(v[k])
        else:
            self.inter.append(v)

    def arg(self, a):
        """ptw argument: number, None, or {"f": flat vector} on D"""
        import jax.numpy as jnp
        if a is None:
            return None
        if isinstance(a, dict) and "f" in a:
            return jnp.asarray(_tile(nx.arr(a["f"])))
        return _num(a)

    def vec(self, v):
        import jax.numpy as jnp
        return jnp.asarray(_tile(nx.arr(v)))

    def msum(self, v, typ):
        """sum over the genuine entries of a tiled D or P vector"""
        import jax.numpy as jnp
        if typ == "S":
            return v
        return jnp.sum(jnp.where(self.mask[typ], v, 0.))

    def matmul(self, M, v, tin):
        import jax.numpy as jnp
        return jnp.asarray(M) @ jnp.where(self.mask[tin], v, 0.)


def _jlin(spec, v, E):
    k = spec[0]
    u = E.u
    if k == "scal":
        return _num(spec[1]) * v
    if k == "diag":
        return E.vec(spec[1]) * v
    if k == "mat":
        return E.matmul(_tilemat(nx.arr(spec[1]), u.size, u.size), v, "D")
    if k == "matsp":
        m = nx.arr(spec[1])
        n0, n1 = u.shape
        M = np.kron(m, np.eye(n1)) if spec[2] == 0 else np.kron(np.eye(n0), m)
        return E.matmul(_tilemat(M, u.size, u.size), v, "D")
    if k == "harm":
        # convolution-like operator  T^-1 diag(w) T  along space 0, T = Hartley (real) / Fourier (complex)
        # transform in the library's volume convention, written out as explicit matrices
        n0 = u.shape[0]
        kx = np.outer(np.arange(n0), np.arange(n0)) / n0
        if u.cplx:
            T = u.dvol[0] * np.exp(-2j * np.pi * kx)
        else:
            T = u.dvol[0] * (np.cos(2 * np.pi * kx) - np.sin(2 * np.pi * kx))
        C = np.linalg.inv(T) @ np.diag(nx.arr(spec[1])) @ T
        M = C if len(u.shape) == 1 else np.kron(C, np.eye(u.shape[1]))
        return E.matmul(_tilemat(M, u.size, u.size), v, "D")
    raise ValueError(k)


def _contract(v, E):
    """D -> P: sum over space pc"""
    u = E.u
    npx = E.n["P"]
    C = np.zeros((npx, u.size))
    C[E.keep, np.arange(u.size)] = 1.
    return E.matmul(_tilemat(C, npx, u.size), v, "D")


def _jbin(o, a, b, E):
    import jax.numpy as jnp
    if o == "mul":
        return _tm(lambda p, q: p * q, a, b)
    if o == "add":
        return _tm(lambda p, q: p + q, a, b)
    if o == "sub":
        return _tm(lambda p, q: p - q, a, b)
    if o == "div":
        if E.guard:
            _tm(lambda q: _nz(q), b)
        return _tm(lambda p, q: p / q, a, b)
    if o == "pow":
        if E.guard:
            _tm(lambda p: _pos(p), a)
        return _tm(lambda p, q: jnp.exp(q * jnp.log(p)), a, b)
    raise ValueError(o)


def _jenergy(spec, v, t, E):
    import jax.numpy as jnp
    k = spec[0]
    if k == "gauss":
        r = v if spec[1] is None else v - E.vec(spec[1])
        w = spec[2]
        if w is None:
            wr = r
        elif w[0] == "scal":
            wr = _num(w[1]) * r
        else:
            wr = E.vec(w[1]) * r
        return 0.5 * jnp.real(E.msum(jnp.conj(r) * wr, t))
    if k == "poisson":
        if E.guard:
            _realonly(v)
            _pos(v)
        d = E.vec(spec[1])
        return E.msum(v, t) - E.msum(d * jnp.log(v), t)
    if k == "bernoulli":
        if E.guard:
            _realonly(v)
            _pos(v, 0.02)
            _pos(1 - _np(v), 0.02)
        d = E.vec(spec[1])
        return -E.msum(d * jnp.log(v), t) - E.msum((1 - d) * jnp.log(1 - v), t)
    if k == "studentt":
        th = E.vec(spec[1]) if isinstance(spec[1], list) else _num(spec[1])
        return E.msum((th + 1) / 2 * jnp.log1p(v * v / th), t)
    if k == "sq2norm":
        return jnp.real(E.msum(jnp.conj(v) * v, t))
    if k == "quad":
        return 0.5 * E.msum(v * E.vec(spec[1]) * v, t)
    if k == "invgamma":
        if E.guard:
            _realonly(v)
            _pos(v)
        al = E.vec(spec[2]) if isinstance(spec[2], list) else _num(spec[2])
        return E.msum((al + 1.) * jnp.log(v), t) + E.msum(E.vec(spec[1]) / v, t)
    if k == "jaxlh":
        r = v - E.vec(spec[1])
        return 0.5 * E.msum(E.vec(spec[2]) * r * r, t)
    raise ValueError(k)


def _jjax(fid, v, E):
    """the harness' own rendering of the functions in _jaxfuncs on the tiled representation"""
    import jax.numpy as jnp
    u = E.u
    if fid == 0:
        return jnp.sin(v) * v
    if fid == 1:
        return jnp.exp(0.5 * v) + v * v
    if fid == 2:
        L = np.tril(np.ones((u.size, u.size)))
        return E.matmul(_tilemat(L, u.size, u.size), v, "D") * jnp.cos(v)
    return jnp.tanh(v) * E.msum(v * v, "D")


def _jx(n, E):
    r = _jx0(n, E)
    E.note(r)
    return r


def _jx0(n, E):
    import jax.numpy as jnp
    JP, _ = _tables()
    k = n[0]
    u = E.u
    if k == "var":
        key = n[1] if n[1] is not None else E.local[-1]
        return E.x[key]
    if k in ("ptw", "linpre"):
        name, args, child = (n[1], n[2], n[3]) if k == "ptw" else (n[2], n[3], n[4])
        v = _jx(child, E)
        a = [E.arg(t) for t in args]
        if E.guard:
            _tm(lambda t: guard_ptw(name, t, a), v)
        r = _tm(lambda t: JP[name](t, *a), v)
        if k == "linpre":
            E.note(r)
            r = _jlin(n[1], r, E)
        return r
    if k == "lin":
        return _jlin(n[1], _jx(n[2], E), E)
    if k == "neg":
        return _tm(lambda t: -t, _jx(n[1], E))
    if k in ("mulc", "addc", "subc", "rsubc", "divc", "rdivc", "powc", "rpowc"):
        c = _num(n[1])
        v = _jx(n[2], E)
        if k == "mulc":
            return _tm(lambda t: c * t, v)
        if k == "addc":
            return _tm(lambda t: t + c, v)
        if k == "subc":
            return _tm(lambda t: t - c, v)
        if k == "rsubc":
            return _tm(lambda t: c - t, v)
        if k == "divc":
            return _tm(lambda t: t / c, v)
        if k == "rdivc":
            if E.guard:
                _tm(lambda t: _nz(t), v)
            return _tm(lambda t: c / t, v)
        if k == "powc":
            if E.guard and not _is_posint(c):
                _tm(lambda t: _pos(t), v)
            return _tm(lambda t: jnp.power(t, c), v)
        return _tm(lambda t: jnp.exp(t * np.log(c)), v)
    if k in ("addf", "subf", "mulf", "divf"):
        f = E.vec(n[1])
        v = _jx(n[2], E)
        return {"addf": lambda: v + f, "subf": lambda: v - f, "mulf": lambda: v * f, "divf": lambda: v / f}[k]()
    if k == "real":
        return _tm(jnp.real, _jx(n[1], E))
    if k == "imag":
        v = _jx(n[1], E)
        if E.guard:
            _tm(_needcomplex, v)      # Imaginizer rejects real input by design (ValueError)
        return _tm(jnp.imag, v)
    if k == "conj":
        return _tm(jnp.conj, _jx(n[1], E))
    if k == "bin":
        a = _jx(n[2], E)
        b = _jx(n[3], E)
        return _jbin(n[1], a, b, E)
    if k in ("sum", "integrate"):
        tc = typ_of(n[2], u)
        v = _jx(n[2], E)
        sp = n[1]
        r = E.msum(v, tc) if sp is None else _contract(v, E)
        if k == "integrate":
            if tc == "D":
                w = float(np.prod(u.dvol)) if sp is None else u.dvol[sp]
            else:
                w = u.dvol[1 - u.pc]
            r = r * w
        return r
    if k == "bcast":
        v = _jx(n[1], E)
        B = np.zeros((u.size, E.n["P"]))
        B[np.arange(u.size), E.keep] = 1.
        return E.matmul(_tilemat(B, u.size, E.n["P"]), v, "P")
    if k == "bcastS":
        return jnp.broadcast_to(_jx(n[1], E), (LPAD,))
    if k == "vdot":
        t = typ_of(n[1], u)
        a = _jx(n[1], E)
        b = _jx(n[2], E)
        return E.msum(jnp.conj(a) * b, t)
    if k == "vdotf":
        t = typ_of(n[2], u)
        a = _jx(n[2], E)
        return E.msum(jnp.conj(a) * E.vec(n[1]), t)
    if k == "join":
        return {"x": _jx(n[1], E), "y": _jx(n[2], E)}
    if k == "get":
        return _jx(n[2], E)[n[1]]
    if k == "duckr":
        E.local.append(n[1])
        try:
            return _jx(n[2], E)
        finally:
            E.local.pop()
    if k == "pins":
        # outer expression with its input component `key` replaced by the value of the inner expression
        v = _jx(n[2], E)
        saved = E.x[n[1]]
        E.x[n[1]] = v
        try:
            return _jx(n[3], E)
        finally:
            E.x[n[1]] = saved
    if k == "mle":
        a = _jx(n[2], E)
        b = E.vec(n[3]["f"]) if isinstance(n[3], dict) else _jx(n[3], E)
        prod = a * b        # every generated subscript string is a (partial) trace of the point-wise product
        out = n[1].split("->")[1]
        ins = n[1].split("->")[0].split(",")[0]
        if len(out) == len(ins):
            return prod
        if len(out) == 0:
            return E.msum(prod, "D")
        return _contract(prod, E)
    if k == "mlen":
        # ["mlen", out, optimize, keys, subscripts, operand...]: every operand carries the letters of D or
        # of P (= D without space pc); the result is a (partial) trace of the product of the operands
        # broadcast to D
        rank = len(u.shape)
        prod = None
        for ss, o in zip(n[4], n[5:]):
            isp = len(ss) < rank
            if isinstance(o, dict):
                v = jnp.asarray(_tile(nx.arr(o["f"])))
            else:
                v = _jx(o, E)
            if isp:
                B = np.zeros((u.size, E.n["P"]))
                B[np.arange(u.size), E.keep] = 1.
                v = E.matmul(_tilemat(B, u.size, E.n["P"]), v, "P")
            prod = v if prod is None else prod * v
        if len(n[1]) == rank:
            return prod
        if len(n[1]) == 0:
            return E.msum(prod, "D")
        return _contract(prod, E)
    if k == "tadd":
        # T-valued expression + (D-valued expression labelled with one of T's keys)
        t = dict(_jx(n[2], E))
        t[n[1]] = t[n[1]] + _jx(n[3], E)
        return t
    if k == "jaxop":
        return _jjax(n[1], _jx(n[2], E), E)
    if k == "jaxop2":
        a, b = _jx(n[1], E), _jx(n[2], E)
        return jnp.sin(a) * b + a
    if k == "jaxopT":
        v = _jx(n[1], E)
        return {"x": v * v, "y": jnp.cos(v) * E.msum(v, "D")}
    if k == "avg":
        tot = 0.
        for smp in n[1]:
            saved = dict(E.x)
            for key in E.keys:
                E.x[key] = E.x[key] + E.vec(smp[key])
            try:
                tot = tot + _jx(n[2], E)
            finally:
                E.x = saved
        return tot / len(n[1])
    if k == "energy":
        return _jenergy(n[1], _jx(n[2], E), typ_of(n[2], u), E)
    if k == "esum":
        return _jx(n[1], E) + _jx(n[2], E)
    if k == "escale":
        return _num(n[1]) * _jx(n[2], E)
    if k == "ham":
        prior = 0.
        for key in E.keys:
            prior = prior + 0.5 * jnp.real(E.msum(jnp.conj(E.x[key]) * E.x[key], "D"))
        return _jx(n[1], E) + prior
    raise ValueError(k)


def _cut(parts, sizes):
    """tiled leaves -> genuine entries, concatenated (numpy); last axis is the tiled one"""
    out = []
    for p, m in zip(parts, sizes):
        p = np.asarray(p)
        out.append(p[..., None] if m is None else p[..., :m])
    return np.concatenate(out, axis=-1)


def oracle(u, tree, keys):
    """returns (value flat [complex or real], J (real universe: dy/dx; complex: real 2M x 2N repr.),
    vmax, jmax).  `keys`: the input keys (sorted) the function is differentiated with respect to.

    Forward mode: jax.jvp pushed (jax.vmap) over the standard basis of the input - this is what
    jax.jacfwd does - with the basis zero-padded to NPAD directions (fixed batch shape)."""
    import jax
    import jax.numpy as jnp
    sz = u.size
    n = sz * len(keys)
    nin = 2 * n if u.cplx else n
    if nin > NPAD:
        raise Discard()
    consts = {k: jnp.asarray(_tile(u.x[k])) for k in u.x if k not in keys}
    E0 = JEnv(u, {}, False)
    t = typ_of(tree, u)
    osz = [E0.n["D"], E0.n["D"]] if t == "T" else [None if t == "S" else E0.n[t]]

    def run(xr, xi, guard):
        xs = dict(consts)
        for k in keys:
            xs[k] = xr[k] + 1j * xi[k] if u.cplx else xr[k]
        E = JEnv(u, xs, guard)
        E.keys = list(keys)
        y = _jx(tree, E)
        y = [y[k] for k in sorted(y)] if isinstance(y, dict) else [y]
        return y, list(E.inter)

    xr0 = {k: jnp.asarray(_tile(u.x[k].real.astype(np.float64))) for k in keys}
    xi0 = {k: jnp.asarray(_tile(u.x[k].imag.astype(np.float64))) for k in keys} if u.cplx else {}
    # tangent basis: direction d < nin is e_d in the ordering [Re(keys...), Im(keys...)]; tangents of a
    # tiled input are tiled
    tr = {k: np.zeros((NPAD, LPAD)) for k in keys}
    ti = {k: np.zeros((NPAD, LPAD)) for k in keys} if u.cplx else {}
    for a, k in enumerate(keys):
        for e in range(sz):
            tr[k][a * sz + e, np.arange(LPAD) % sz == e] = 1.
            if u.cplx:
                ti[k][n + a * sz + e, np.arange(LPAD) % sz == e] = 1.

    with np.errstate(all="ignore"), jax.disable_jit():
        y0, inter0 = run(xr0, xi0, True)
        y0 = _cut(y0, osz)
        inter0 = np.concatenate([np.asarray(v).reshape(-1) for v in inter0]) if inter0 else np.zeros(0)
        if not (np.all(np.isfinite(y0)) and np.all(np.isfinite(inter0))):
            raise Discard()
        vmax = float(max(1.0, np.max(np.abs(inter0)) if inter0.size else 0.0))
        if vmax > VMAX:
            raise Discard()

        def push(a, b):
            return jax.jvp(lambda p, q: run(p, q, False), (xr0, xi0), (a, b))[1]

        Jy, Ji = jax.vmap(push)({k: jnp.asarray(v) for k, v in tr.items()},
                                {k: jnp.asarray(v) for k, v in ti.items()})
    Jy = _cut(Jy, osz).T[:, :nin]           # (M, nin)
    Ji = np.concatenate([np.asarray(v).reshape(NPAD, -1) for v in Ji], axis=1) if Ji else np.zeros((NPAD, 0))
    if u.cplx:
        Jy = np.concatenate([Jy.real, Jy.imag], axis=0)
    J = np.array(Jy.real if not np.iscomplexobj(Jy) or not np.any(Jy.imag) else Jy)
    if not (np.all(np.isfinite(J)) and np.all(np.isfinite(Ji))):
        raise Discard()
    jmax = float(max(1.0, np.max(np.abs(Ji)) if Ji.size else 0.0))
    if vmax * jmax > SMAX:
        raise Discard()
    return y0, J, vmax, jmax


# ====================================================================== NIFTy: operator mode
def _linop(spec, dom, u):
    k = spec[0]
    if k == "scal":
        return ift.ScalingOperator(dom, _num(spec[1]))
    if k == "diag":
        return ift.DiagonalOperator(u.field(spec[1], dom, dom.shape))
    if k == "mat":
        return ift.MatrixProductOperator(dom, nx.arr(spec[1]), flatten=True)
    if k == "matsp":
        return ift.MatrixProductOperator(dom, nx.arr(spec[1]), spaces=(spec[2],))
    if k == "harm":
        T = (ift.FFTOperator if u.cplx else ift.HartleyOperator)(dom, space=0)
        w = nx.arr(spec[1])
        w = w.astype(np.complex128 if u.cplx else np.float64)
        diag = ift.DiagonalOperator(ift.makeField(T.target[0], w), domain=T.target, spaces=0)
        return T.inverse @ diag @ T
    raise ValueError(k)


def _ptwargs(args, u):
    res = []
    for a in args:
        if isinstance(a, dict) and "f" in a:
            res.append(u.field(a["f"]))
        elif a is None:
            res.append(None)
        else:
            res.append(_num(a))
    return res


def _energy(spec, dom, u):
    k = spec[0]
    if k == "gauss":
        data = None if spec[1] is None else u.field(spec[1], dom, dom.shape, force_dtype=True)
        w = spec[2]
        if w is None:
            if data is None:
                return ift.GaussianEnergy(domain=dom, sampling_dtype=u.dtype)
            return ift.GaussianEnergy(data=data)
        sdt = u.dtype
        if w[0] == "scal":
            icov = ift.ScalingOperator(dom, _num(w[1]), sampling_dtype=sdt)
        else:
            icov = ift.DiagonalOperator(ift.makeField(dom, nx.arr(w[1]).astype(np.float64).reshape(dom.shape)),
                                        sampling_dtype=sdt)
        return ift.GaussianEnergy(data=data, inverse_covariance=icov)
    if k == "poisson":
        return ift.PoissonianEnergy(ift.makeField(dom, np.array(spec[1], dtype=np.int64).reshape(dom.shape)))
    if k == "bernoulli":
        return ift.BernoulliEnergy(ift.makeField(dom, np.array(spec[1], dtype=np.int64).reshape(dom.shape)))
    if k == "studentt":
        th = spec[1]
        if isinstance(th, list):
            th = ift.makeField(dom, np.array(th, dtype=np.float64).reshape(dom.shape))
        return ift.StudentTEnergy(dom, th)
    if k == "sq2norm":
        return ift.Squared2NormOperator(dom)
    if k == "quad":
        return ift.QuadraticFormOperator(
            ift.DiagonalOperator(ift.makeField(dom, np.array(spec[1], dtype=np.float64).reshape(dom.shape))))
    if k == "invgamma":
        beta = ift.makeField(dom, np.array(spec[1], dtype=np.float64).reshape(dom.shape))
        al = spec[2]
        if isinstance(al, list):
            al = ift.makeField(dom, np.array(al, dtype=np.float64).reshape(dom.shape))
        return ift.InverseGammaEnergy(beta, al)
    if k == "jaxlh":
        import warnings
        import jax.numpy as jnp
        d = np.array(spec[1], dtype=np.float64).reshape(dom.shape)
        w = np.array(spec[2], dtype=np.float64).reshape(dom.shape)
        trafo = ift.makeOp(ift.makeField(dom, np.sqrt(w))) @ ift.Adder(ift.makeField(dom, d), neg=True)
        with warnings.catch_warnings():
            warnings.simplefilter("ignore")     # "does not support normalized residuals yet"
            return ift.JaxLikelihoodEnergyOperator(dom, lambda v: 0.5 * jnp.sum(w * (v - d) ** 2),
                                                   transformation=trafo, sampling_dtype=np.float64)
    raise ValueError(k)


def _fisher(spec, v):
    """closed-form Fisher metric (dense, on the flattened argument v of the energy)"""
    k = spec[0]
    n = v.size
    v = v.reshape(-1)
    if k == "gauss":
        w = spec[2]
        if w is None:
            return np.eye(n)
        if w[0] == "scal":
            return _num(w[1]) * np.eye(n)
        return np.diag(nx.arr(w[1]).astype(np.float64).reshape(-1))
    if k == "poisson":
        return np.diag(1. / v.real)
    if k == "bernoulli":
        return np.diag(1. / (v.real * (1 - v.real)))
    if k == "studentt":
        th = np.broadcast_to(np.asarray(spec[1], dtype=np.float64).reshape(-1), (n,))
        return np.diag((th + 1) / (th + 3))
    if k == "invgamma":
        al = np.broadcast_to(np.asarray(spec[2], dtype=np.float64).reshape(-1), (n,))
        return np.diag((al + 1.) / v.real ** 2)
    if k == "jaxlh":
        return np.diag(np.asarray(spec[2], dtype=np.float64).reshape(-1))
    return None


class _Build:
    def __init__(self, u):
        self.u = u
        self.local = []

    def ident(self):
        return ift.ScalingOperator(self.u.D, 1.)

    def b(self, n):
        u = self.u
        k = n[0]
        if k == "var":
            if n[1] is None:
                return self.ident()
            if not u.multi:
                return self.ident()
            how = n[2] if len(n) > 2 else 0
            if how == 1:
                return self.ident().ducktape(n[1])
            if how == 2:
                return ift.ducktape(u.D, None, n[1])
            return ift.FieldAdapter(u.D, n[1])
        if k == "ptw":
            c = self.b(n[3])
            a = _ptwargs(n[2], u)
            how = n[4] if len(n) > 4 else 0
            if how == 1:
                return getattr(c, n[1])(*a)
            if how == 2 and n[1] == "abs":
                return abs(c)
            return c.ptw(n[1], *a)
        if k == "linpre":
            c = self.b(n[4])
            L = _linop(n[1], c.target, u)
            a = _ptwargs(n[3], u)
            how = n[5] if len(n) > 5 else 0
            pre = getattr(L, n[2] + "_pre")(*a) if how == 1 else L.ptw_pre(n[2], *a)
            return pre(c) if how == 1 else pre @ c
        if k == "lin":
            c = self.b(n[2])
            L = _linop(n[1], c.target, u)
            how = n[3] if len(n) > 3 else 0
            return L @ c if how == 1 else L(c)
        if k == "neg":
            return -self.b(n[1])
        if k in ("mulc", "addc", "subc", "rsubc", "divc", "rdivc", "powc", "rpowc"):
            cst = _num(n[1])
            c = self.b(n[2])
            how = n[3] if len(n) > 3 else 0
            if k == "mulc":
                return [lambda: c * cst, lambda: cst * c, lambda: c.scale(cst)][how % 3]()
            if k == "addc":
                return c + cst if how % 2 == 0 else cst + c
            if k == "subc":
                return c - cst
            if k == "rsubc":
                return cst - c
            if k == "divc":
                return c / cst
            if k == "rdivc":
                return cst / c
            if k == "powc":
                return c ** cst
            return cst ** c
        if k in ("addf", "subf", "mulf", "divf"):
            f = u.field(n[1])
            c = self.b(n[2])
            how = n[3] if len(n) > 3 else 0
            if k == "addf":
                return c + f if how % 2 == 0 else f + c
            if k == "subf":
                return c - f
            if k == "mulf":
                return c * f if how % 2 == 0 else f * c
            return c / f
        if k == "real":
            return self.b(n[1]).real
        if k == "imag":
            return self.b(n[1]).imag
        if k == "conj":
            return self.b(n[1]).conjugate()
        if k == "bin":
            a, b = self.b(n[2]), self.b(n[3])
            o = n[1]
            return {"mul": lambda: a * b, "add": lambda: a + b, "sub": lambda: a - b,
                    "div": lambda: a / b, "pow": lambda: a ** b}[o]()
        if k == "sum":
            return self.b(n[2]).sum(n[1])
        if k == "integrate":
            return self.b(n[2]).integrate(n[1])
        if k == "bcast":
            c = self.b(n[1])
            how = n[2] if len(n) > 2 else 0
            if how == 1:
                return c.broadcast(u.pc, u.D[u.pc])
            return ift.ContractionOperator(u.D, u.pc).adjoint @ c
        if k == "bcastS":
            return ift.ContractionOperator(u.D, None).adjoint(self.b(n[1]))
        if k == "vdot":
            return self.b(n[1]).vdot(self.b(n[2]))
        if k == "vdotf":
            c = self.b(n[2])
            return c.vdot(u.field(n[1], c.target, c.target.shape))
        if k == "join":
            return self.b(n[1]).ducktape_left("x") + self.b(n[2]).ducktape_left("y")
        if k == "get":
            return self.b(n[2])[n[1]]
        if k == "duckr":
            self.local.append(n[1])
            try:
                sub = self.b(n[2])
            finally:
                self.local.pop()
            return sub.ducktape(n[1])
        if k == "pins":
            inner = self.b(n[2]).ducktape_left(n[1])
            outer = self.b(n[3])
            return outer @ inner        # target {key} != outer.domain  ->  Operator.partial_insert
        if k == "mle":
            a = self.b(n[2])
            if isinstance(n[3], dict):
                op = ift.MultiLinearEinsum({"p": u.D}, n[1], key_order=("p", "q"),
                                           static_mf={"q": u.field(n[3]["f"])})
                return op @ a.ducktape_left("p")
            b = self.b(n[3])
            op = ift.MultiLinearEinsum({"p": u.D, "q": u.D}, n[1], key_order=("p", "q"))
            return op @ (a.ducktape_left("p") + b.ducktape_left("q"))
        if k == "mlen":
            rank = len(u.shape)
            dyn, stat, arg = {}, {}, None
            for key, ss, o in zip(n[3], n[4], n[5:]):
                isp = len(ss) < rank
                if isinstance(o, dict):
                    stat[key] = u.field(o["f"], u.P, u.pshape) if isp else u.field(o["f"])
                    continue
                dyn[key] = u.P if isp else u.D
                c = self.b(o).ducktape_left(key)
                arg = c if arg is None else arg + c
            op = ift.MultiLinearEinsum(dyn, ",".join(n[4]) + "->" + n[1], key_order=tuple(n[3]),
                                       static_mf=stat if stat else None, optimize=n[2])
            return op @ arg
        if k == "tadd":
            return self.b(n[2]) + self.b(n[3]).ducktape_left(n[1])
        if k == "jaxop":
            c = self.b(n[2])
            return ift.JaxOperator(c.target, c.target, _tables()[1][n[1]]) @ c
        if k == "jaxop2":
            import jax.numpy as jnp
            a, b = self.b(n[1]), self.b(n[2])
            op = ift.JaxOperator({"p": u.D, "q": u.D}, u.D, lambda d: jnp.sin(d["p"]) * d["q"] + d["p"])
            return op @ (a.ducktape_left("p") + b.ducktape_left("q"))
        if k == "jaxopT":
            import jax.numpy as jnp
            c = self.b(n[1])
            return ift.JaxOperator(u.D, u.T, lambda v: {"x": v * v, "y": jnp.cos(v) * jnp.sum(v)}) @ c
        if k == "avg":
            h = self.b(n[2])
            smp = []
            for sm in n[1]:
                if u.multi:
                    smp.append(ift.MultiField.from_dict(
                        {key: u.field(sm[key], force_dtype=True) for key in h.domain.keys()}, h.domain))
                else:
                    smp.append(u.field(sm[""], force_dtype=True))
            return ift.AveragedEnergy(h, smp)
        if k == "energy":
            c = self.b(n[2])
            e = _energy(n[1], c.target, u)
            how = n[3] if len(n) > 3 else 0
            return e(c) if how == 1 else e @ c
        if k == "esum":
            return self.b(n[1]) + self.b(n[2])
        if k == "escale":
            e = self.b(n[2])
            cst = _num(n[1])
            how = n[3] if len(n) > 3 else 0
            return [lambda: ift.ScalingOperator(e.target, cst) @ e, lambda: cst * e, lambda: e * cst,
                    lambda: e.scale(cst)][how % 4]()
        if k == "ham":
            return ift.StandardHamiltonian(self.b(n[1]))
        raise ValueError(k)


# ====================================================================== NIFTy: eager mode
class _Eager:
    """the tree applied directly to field-like objects (Linearization or Field)"""

    def __init__(self, u, x0):
        self.u = u
        self.x0 = x0       # Linearization or (Multi)Field on the full input domain

    def e(self, n):
        u = self.u
        k = n[0]
        if k == "var":
            return self.x0[n[1]] if u.multi else self.x0
        if k == "ptw":
            c = self.e(n[3])
            return c.ptw(n[1], *_ptwargs(n[2], u))
        if k == "linpre":
            c = self.e(n[4]).ptw(n[2], *_ptwargs(n[3], u))
            return _linop(n[1], c.target if c.jac is not None else c.domain, u)(c)
        if k == "lin":
            c = self.e(n[2])
            return _linop(n[1], c.target if c.jac is not None else c.domain, u)(c)
        if k == "neg":
            return -self.e(n[1])
        if k in ("mulc", "addc", "subc", "rsubc", "divc", "rdivc", "powc", "rpowc"):
            cst = _num(n[1])
            c = self.e(n[2])
            how = n[3] if len(n) > 3 else 0
            if k == "mulc":
                return c * cst if how % 2 == 0 else cst * c
            if k == "addc":
                return c + cst if how % 2 == 0 else cst + c
            if k == "subc":
                return c - cst
            if k == "rsubc":
                return cst - c
            if k == "divc":
                return c / cst
            if k == "rdivc":
                return cst / c
            if k == "powc":
                return c ** cst
            return cst ** c
        if k in ("addf", "subf", "mulf", "divf"):
            f = u.field(n[1])
            c = self.e(n[2])
            how = n[3] if len(n) > 3 else 0
            if k == "addf":
                return c + f if how % 2 == 0 or c.jac is None else f + c
            if k == "subf":
                return c - f
            if k == "mulf":
                return c * f
            return c / f
        if k == "real":
            return self.e(n[1]).real
        if k == "imag":
            return self.e(n[1]).imag
        if k == "conj":
            return self.e(n[1]).conjugate()
        if k == "bin":
            a, b = self.e(n[2]), self.e(n[3])
            o = n[1]
            return {"mul": lambda: a * b, "add": lambda: a + b, "sub": lambda: a - b,
                    "div": lambda: a / b, "pow": lambda: a ** b}[o]()
        if k == "sum":
            return self.e(n[2]).sum(n[1])
        if k == "integrate":
            return self.e(n[2]).integrate(n[1])
        if k == "bcast":
            return ift.ContractionOperator(u.D, u.pc).adjoint(self.e(n[1]))
        if k == "bcastS":
            return ift.ContractionOperator(u.D, None).adjoint(self.e(n[1]))
        if k == "vdot":
            a, b = self.e(n[1]), self.e(n[2])
            if u.cplx:
                return (a.conjugate() * b).sum()
            return a.vdot(b)
        if k == "vdotf":
            c = self.e(n[2])
            dom = c.target if c.jac is not None else c.domain
            f = u.field(n[1], dom, dom.shape)
            if u.cplx:
                return (c.conjugate() * f).sum()
            return c.vdot(f)
        if k == "energy":
            c = self.e(n[2])
            e = _energy(n[1], c.target if c.jac is not None else c.domain, u)
            return e(c)
        if k == "esum":
            return self.e(n[1]) + self.e(n[2])
        if k == "escale":
            cst = _num(n[1])
            e = self.e(n[2])
            how = n[3] if len(n) > 3 else 0
            # Linearization.__rmul__ / __mul__ / __truediv__ with a number (value, Jacobian and metric scale)
            return [lambda: cst * e, lambda: e * cst, lambda: e / (1. / cst)][how % 3]()
        raise ValueError(k)


# ====================================================================== recipe statistics
def _children(n):
    k = n[0]
    if k == "var":
        return []
    if k == "ptw":
        return [n[3]]
    if k == "linpre":
        return [n[4]]
    if k in ("lin", "mulc", "addc", "subc", "rsubc", "divc", "rdivc", "powc", "rpowc", "addf", "subf", "mulf",
             "divf", "sum", "integrate", "vdotf", "get", "duckr", "jaxop", "energy", "escale"):
        return [n[2]]
    if k in ("neg", "real", "imag", "conj", "bcast", "bcastS", "ham", "jaxopT"):
        return [n[1]]
    if k == "avg":
        return [n[2]]
    if k == "tadd":
        return [n[2], n[3]]
    if k == "jaxop2":
        return [n[1], n[2]]
    if k == "mlen":
        return [o for o in n[5:] if not isinstance(o, dict)]
    if k == "bin":
        return [n[2], n[3]]
    if k in ("vdot", "join", "esum"):
        return [n[1], n[2]]
    if k == "pins":
        return [n[2], n[3]]
    if k == "mle":
        return [n[2]] + ([] if isinstance(n[3], dict) else [n[3]])
    raise ValueError(k)


NONLIN = ("ptw", "linpre", "powc", "rpowc", "rdivc", "mle", "mlen", "jaxop", "jaxop2", "jaxopT", "energy")
BINARY = ("bin", "vdot", "join", "esum", "tadd", "jaxop2")


def stats(n, acc):
    k = n[0]
    acc["kinds"].add(k)
    if k in ("ptw", "linpre"):
        name = n[1] if k == "ptw" else n[2]
        args = n[2] if k == "ptw" else n[3]
        acc["ptw"].add(name)
        if any(isinstance(a, dict) and "f" in a for a in args):
            acc["ptw"].add(name + "(field_arg)")
        if any(a is None for a in args):
            acc["ptw"].add(name + "(None_arg)")
        acc["nonlin"] += 1
    elif k in NONLIN or (k == "bin" and n[1] in ("mul", "div", "pow")):
        acc["nonlin"] += 1
    if k == "bin":
        acc["kinds"].add("bin:" + n[1])
    if k in ("lin", "linpre"):
        acc["kinds"].add("lin:" + n[1][0])
    if k == "energy":
        acc["kinds"].add("energy:" + n[1][0])
    if k == "mle":
        acc["kinds"].add("mle:" + n[1] + (":static" if isinstance(n[3], dict) else ""))
        if not isinstance(n[3], dict):
            acc["binary"] += 1
    if k == "mlen":
        ndyn = sum(1 for o in n[5:] if not isinstance(o, dict))
        rank = max(len(t) for t in n[4])
        acc["kinds"].add("mlen:%dops" % len(n[4]))
        acc["kinds"].add("mlen:key_order_" + ("sorted" if list(n[3]) == sorted(n[3]) else "unsorted"))
        acc["kinds"].add("mlen:optimize=%s" % (n[2],))
        if ndyn < len(n[4]):
            acc["kinds"].add("mlen:static")
        if any(len(t) < rank for t in n[4]):
            acc["kinds"].add("mlen:unequal_operand_shapes")
        if ndyn >= 2:
            acc["binary"] += 1
    if k == "escale":
        acc["kinds"].add("escale:how%d" % (n[3] if len(n) > 3 else 0))
    if k in ("ptw", "linpre"):
        c = n[3] if k == "ptw" else n[4]
        while c[0] == "addc":
            c = c[2]
        if c[0] == "mulc" and not isinstance(c[1], dict):
            if abs(c[1]) >= 8:
                acc["ptw"].add((n[1] if k == "ptw" else n[2]) + "(arg_scaled_up)")
            elif abs(c[1]) <= 1. / 256:
                acc["ptw"].add((n[1] if k == "ptw" else n[2]) + "(arg_scaled_down)")
    if k in BINARY:
        acc["binary"] += 1
    d = 0
    for c in _children(n):
        d = max(d, stats(c, acc))
    return d + 1


def varkeys(n, acc, local=None):
    if n[0] == "var":
        acc.add(n[1] if n[1] is not None else local)
        return
    if n[0] == "duckr":
        varkeys(n[2], acc, n[1])
        return
    if n[0] == "pins":
        varkeys(n[2], acc, local)
        outer = set()
        varkeys(n[3], outer, local)
        acc.update(outer - {n[1]})
        return
    for c in _children(n):
        varkeys(c, acc, local)


# ====================================================================== the check
def _dense(u, op, mode, real_input_only=False):
    if not u.cplx:
        return nx.dense(op, mode, dtype=np.float64)
    if not real_input_only:
        return nx.dense_real(op, mode)
    # real 2N representation restricted to real input directions
    n_in = nx.dom_size(nx.op_dom(op, mode))
    cols = []
    for i in range(n_in):
        e = np.zeros(n_in, dtype=np.float64)
        e[i] = 1.
        y = nx.apply_flat(op, e, mode).astype(np.complex128)
        cols.append(np.concatenate([y.real, y.imag]))
    return np.stack(cols, axis=1)


def _imaginizer_rejects(exc):
    """Imaginizer.apply raises a bare ValueError in adjoint mode for non-real input (explicit check in
    the library = documented rejection, not a crash)"""
    import traceback
    fr = traceback.extract_tb(exc.__traceback__)[-1]
    return isinstance(exc, ValueError) and fr.name == "apply" and fr.filename.endswith("simple_linear_operators.py") \
        and "raise ValueError" in (fr.line or "")


def _metric_oracle(u, tree, keys, J):
    """sum over the energies at the root of J_e^H M_e J_e, by the closed-form Fisher metric"""
    k = tree[0]
    if k == "energy":
        y, Je, _, _ = oracle(u, tree[2], keys)
        M = _fisher(tree[1], np.asarray(y))
        if M is None:
            return None
        if u.cplx:
            m = Je.shape[0] // 2
            nn = Je.shape[1] // 2
            Jc = Je[:m, :nn] + 1j * Je[m:, :nn]     # holomorphic argument: J is complex-linear
            return Jc.conj().T @ M @ Jc
        return Je.T @ M @ Je
    if k == "esum":
        a = _metric_oracle(u, tree[1], keys, J)
        b = _metric_oracle(u, tree[2], keys, J)
        return None if a is None or b is None else a + b
    if k == "escale":
        a = _metric_oracle(u, tree[2], keys, J)
        return None if a is None else _num(tree[1]) * a
    if k == "ham":
        a = _metric_oracle(u, tree[1], keys, J)
        return None if a is None else a + np.eye(a.shape[0])
    if k == "avg":
        # mean over the samples of the metric of the inner energy at the shifted position
        import copy
        tot = None
        for smp in tree[1]:
            u2 = copy.copy(u)
            u2.x = dict(u.x)
            for key in keys:
                u2.x[key] = u.x[key] + nx.arr(smp[key]).astype(u.dtype).reshape(u.shape)
            a = _metric_oracle(u2, tree[2], keys, J)
            if a is None:
                return None
            tot = a if tot is None else tot + a
        return tot / len(tree[1])
    return None


def _compare(u, tree, keys, ora, plain, lin, wm, mode):
    """all oracle relations for one evaluation path"""
    y0, J, vmax, jmax = ora
    sv, sj = vmax, vmax * jmax
    pv = nx.flat(plain)
    if not u.cplx:
        require(not np.iscomplexobj(pv) or np.all(pv.imag == 0), mode + "value_dtype",
                "real input gave a complex value")
    close(pv, y0, mode + "value_vs_oracle", tol=TOL, scale=sv)
    require(lin.val.domain is plain.domain, mode + "lin_val_domain", f"{lin.val.domain} vs {plain.domain}")
    close(nx.flat(lin.val), pv, mode + "lin_val_vs_plain", tol=1e-12, scale=sv)
    require(lin.jac.target is lin.val.domain, mode + "jac_target", "jac.target is not val.domain")
    require(lin.target is lin.val.domain, mode + "lin_target", "")
    require(bool(lin.want_metric) == bool(wm), mode + "want_metric_flag", f"{lin.want_metric} vs {wm}")
    try:
        Jt = _dense(u, lin.jac, nx.TIMES)
    except ValueError as e:
        # x - x and the like: the library simplifies the Jacobian to ScalingOperator(0), which returns a
        # real-typed zero field also for complex input, and Imaginizer rejects real input by design
        if u.cplx and _has(tree, "imag") and _imaginizer_rejects(e):
            raise Discard()
        raise
    close(Jt, J, mode + "jacobian_vs_autodiff", tol=TOL, scale=sj,
          detail=f"\nnifty=\n{np.asarray(Jt)}\njax=\n{J}")
    JT, notes = J.T, []
    try:
        Ja = _dense(u, lin.jac, nx.ADJ)
    except ValueError as e:
        if not (u.cplx and _has(tree, "imag") and _imaginizer_rejects(e)):
            raise
        # the adjoint of Imaginizer only accepts real cotangents: probe with real cotangents only
        try:
            Ja = _dense(u, lin.jac, nx.ADJ, real_input_only=True)
            JT = J.T[:, :J.shape[0] // 2]
            notes.append("adjoint_real_cotangents_only(imag)")
        except ValueError as e2:
            if not _imaginizer_rejects(e2):
                raise
            Ja = None
            notes.append("adjoint_skipped(imag_rejects_complex_cotangent)")
    if Ja is not None:
        close(Ja, JT, mode + "jacobian_adjoint_vs_transpose", tol=TOL, scale=sj,
              detail=f"\nnifty=\n{np.asarray(Ja)}\njax^T=\n{JT}")
    # gradient convenience for scalar targets
    Mo = _metric_oracle(u, tree, keys, J) if tree[0] in ("energy", "esum", "escale", "ham", "avg") else None
    if wm and Mo is not None:
        require(lin.metric is not None, mode + "metric_missing", "want_metric=True but metric is None")
        require(lin.metric.domain is lin.jac.domain and lin.metric.target is lin.jac.domain,
                mode + "metric_domain", "")
        Mn = nx.dense(lin.metric, nx.TIMES, dtype=np.float64)
        close(Mn, Mo, mode + "metric_vs_pullback", tol=TOL, scale=sj * jmax,
              detail=f"\nnifty=\n{Mn}\noracle=\n{Mo}")
        if u.cplx:
            Mn2 = nx.dense(lin.metric, nx.TIMES, dtype=np.complex128)
            close(Mn2, Mo, mode + "metric_vs_pullback", tol=TOL, scale=sj * jmax)
    if not wm:
        require(lin.metric is None, mode + "metric_unrequested", "metric present although want_metric=False")
    return Mo is not None, notes


def _has(n, kind):
    return n[0] == kind or any(_has(c, kind) for c in _children(n))


def _classes(rec, u, tree, acc, depth):
    cl = ["ptw:" + p for p in sorted(acc["ptw"])] + ["node:" + k for k in sorted(acc["kinds"])]
    cl.append("multi%d" % len(u.keys) if u.multi else "single")
    cl.append("rank%d" % len(u.shape))
    cl.append("complex" if u.cplx else "real")
    cl.append("want_metric" if rec["wm"] else "no_metric")
    cl.append("depth%d" % min(depth, 6))
    return cl


def _prep(rec):
    u = Uni(rec)
    tree = rec["expr"]
    acc = dict(kinds=set(), ptw=set(), nonlin=0, binary=0)
    depth = stats(tree, acc)
    return u, tree, acc, depth


def check_op(rec):
    """operator mode: build the Operator, evaluate on Field and on Linearization"""
    u, tree, acc, depth = _prep(rec)
    wm = bool(rec["wm"])
    used = set()
    varkeys(tree, used)
    with np.errstate(all="ignore"):
        op = _Build(u).b(tree)
        if u.multi:
            keys = sorted(used)
            require(isinstance(op.domain, ift.MultiDomain) and sorted(op.domain.keys()) == keys, "op_domain",
                    f"{op.domain} vs keys {keys}")
            x = u.xfield(keys)
            require(x.domain is op.domain, "op_domain", "domain identity")
        else:
            keys = [""]
            require(op.domain is u.D, "op_domain", f"{op.domain}")
            x = u.xfield()
        # oracle first: discards must not depend on the code under test
        ora = oracle(u, tree, keys)
        plain = op(x)
        require(plain.domain is op.target, "plain_domain", f"{plain.domain} vs {op.target}")
        before = nx.flat(x).tobytes()
        lin = op(ift.Linearization.make_var(x, wm))
        require(nx.flat(x).tobytes() == before, "input_modified", "")
        require(lin.jac.domain is op.domain, "jac_domain", "jac.domain is not op.domain")
        require(lin.domain is op.domain, "lin_domain", "")
        had_metric, notes = _compare(u, tree, keys, ora, plain, lin, wm, "")
    cl = _classes(rec, u, tree, acc, depth) + notes
    if had_metric and wm:
        cl.append("metric_checked")
    return dict(nontrivial=depth >= 3 and acc["nonlin"] >= 1 and acc["binary"] >= 1, classes=cl)


def check_eager(rec):
    """eager mode: Linearization arithmetic applied node by node"""
    u, tree, acc, depth = _prep(rec)
    wm = bool(rec["wm"])
    keys = sorted(u.keys) if u.multi else [""]
    with np.errstate(all="ignore"):
        ora = oracle(u, tree, keys)
        x = u.xfield()
        plain = _Eager(u, x).e(tree)
        lin = _Eager(u, ift.Linearization.make_var(x, wm)).e(tree)
        require(lin.jac is not None, "eager_not_linearization", f"{type(lin)}")
        require(lin.jac.domain is x.domain, "jac_domain", "jac.domain is not the input domain")
        had_metric, notes = _compare(u, tree, keys, ora, plain, lin, wm, "eager_")
    cl = _classes(rec, u, tree, acc, depth) + notes
    if had_metric and wm:
        cl.append("metric_checked")
    return dict(nontrivial=depth >= 3 and acc["nonlin"] >= 1 and acc["binary"] >= 1, classes=cl)


# ====================================================================== strategies
# Hypothesis only supplies 48 seed bits; the recipe itself is produced from them by a deterministic
# generator with its own PRNG.  Reason: small categorical/integer choices drawn through Hypothesis are
# strongly biased towards their "simplest" value and clustered (measured: integers(0,3) gives 0 in 54% of
# the draws; some ptw_dict keys got 0-1 hits per 600 cases); the property demands *every* key.  The
# failing recipe is stored verbatim, so replay does not depend on this generator; `shrink_recipe` below is
# a structural shrinker for failing recipes (used when preparing corpus entries).
import hashlib
import random

# Regions in which this check found defects (see corpus/C03 and scratch/fixes/C03_*.diff).  They stay in
# the generated space (so a repaired tree keeps being searched there); set an entry to False to exclude
# the region by construction if the defect is recorded as a known finding instead of being repaired.
REGIONS = {
    "clip_none": True,       # ptw "clip" with a_min=None or a_max=None evaluated on a Linearization
    "imag_multi": True,      # .imag of an operator whose target is a MultiDomain
    "lh_plus_plain": True,   # LikelihoodEnergyOperator + (energy that is not a LikelihoodEnergyOperator)
    # derivative of "sinc" for 0 < |v| < 1/64: the library's (cos(pi v)-sinc(v))/v cancels (absolute error
    # eps/|v|, i.e. the derivative is wrong by O(1) relative for |v| < 1e-8); fixes/C03_sinc_small_argument.diff
    "sinc_small_argument": True,
    # an index that occurs in a single einsum operand and not in the output (plain sum over that operand):
    # the adjoint Jacobian asks numpy.einsum to create an axis and raises; fixes/C03_einsum_lonely_sum_index.diff
    "einsum_lonely_sum_index": True,
}

REAL_SHAPES = [[4], [6], [2, 2], [2, 3], [3, 2], [2, 4]]
CPLX_SHAPES = [[2], [3], [4], [2, 2]]

SMOOTH = ["sin", "cos", "tan", "sinc", "exp", "expm1", "log1p", "sinh", "cosh", "tanh", "sigmoid", "softplus",
          "arctan", "exponentiate"]
POSONLY = ["sqrt", "log", "log10", "reciprocal", "power"]
KINK = ["abs", "absolute", "sign", "clip", "unitstep"]
EXPONENTS = [-2, -1, -0.5, 0.5, 1, 1.5, 2, 2, 3, 2.5]


class Rnd:
    def __init__(self, seed):
        self.r = random.Random(seed)

    def ch(self, seq):
        return seq[self.r.randrange(len(seq))]

    def i(self, a, b):
        return self.r.randint(a, b)

    def b(self, p=0.5):
        return self.r.random() < p

    def dy(self, lo, hi, den):
        return self.r.randint(int(round(lo * den)), int(round(hi * den))) / den

    def dynz(self, lo, hi, den, signed=True):
        m = self.dy(lo, hi, den)
        return -m if signed and self.b() else m


class Cx:
    def __init__(self, r, u, feats, depth):
        self.r = r
        self.u = u
        self.feats = feats
        self.size = int(np.prod([s[1] for s in u["spaces"]]))
        self.rank2 = len(u["spaces"]) == 2
        self.cplx = u["cplx"]
        self.local = None
        self.maxdepth = depth
        self.force = []     # ptw names that the next _gen_ptw calls must use

    def num(self, nonzero=False):
        r = self.r
        re = r.dynz(0.25, 2.0, 8) if nonzero else r.dy(-2.0, 2.0, 8)
        if self.cplx and r.b():
            return {"re": re, "im": r.dy(-1.0, 1.0, 8)}
        return re

    def vec(self, n, nonzero=False, positive=False):
        r = self.r
        if positive:
            return [r.dynz(0.25, 2.0, 8, signed=False) for _ in range(n)]
        if self.cplx and r.b():
            if nonzero:
                return [{"re": r.dynz(0.25, 2.0, 8), "im": r.dy(-1.0, 1.0, 8)} for _ in range(n)]
            return [{"re": r.dy(-2.0, 2.0, 8), "im": r.dy(-2.0, 2.0, 8)} for _ in range(n)]
        return [r.dynz(0.25, 2.0, 8) if nonzero else r.dy(-2.0, 2.0, 8) for _ in range(n)]

    def mat(self, n, m):
        r = self.r
        if self.cplx and r.b():
            return [[{"re": r.dy(-1.0, 1.0, 4), "im": r.dy(-1.0, 1.0, 4)} for _ in range(m)] for _ in range(n)]
        return [[r.dy(-1.0, 1.0, 4) for _ in range(m)] for _ in range(n)]


def _positive(cx, typ, sub):
    """wrap `sub` into an expression with values >= 1/4 (complex: inside the right half plane)"""
    r = cx.r
    if cx.cplx:
        if r.b(1. / 3):
            return ["ptw", "exp", [], ["mulc", 0.25, sub, 0], 0]
        return ["addc", 2.5, ["ptw", "sin", [], ["mulc", 0.25, sub, 0], 0], 0]
    w = r.ch(["exp", "sq", "cosh", "sig", "abs", "softplus"])
    if w == "exp":
        return ["ptw", "exp", [], sub, r.i(0, 1)]
    if w == "sq":
        return ["addc", r.dynz(0.25, 1.0, 8, signed=False), ["powc", 2, sub, 0], 0]
    if w == "cosh":
        return ["ptw", "cosh", [], sub, 0]
    if w == "sig":
        return ["addc", 0.25, ["ptw", "sigmoid", [], sub, 0], 0]
    if w == "abs":
        return ["addc", 0.25, ["ptw", "abs", [], sub, r.i(0, 2)], 0]
    return ["addc", 0.25, ["ptw", "softplus", [], sub, 0], 0]


def _unit_interval(cx, sub):
    """values in (0.06, 0.94)"""
    return ["addc", 0.0625, ["mulc", 0.875, ["ptw", "sigmoid", [], sub, 0], 0], 0]


def _gen_ptw(cx, typ, depth):
    r = cx.r
    names = list(SMOOTH) + list(POSONLY)
    if not cx.cplx:
        names += KINK
    name = cx.force.pop() if cx.force else r.ch(names)
    sub = gen(cx, typ, depth - 1)
    args = []
    fieldok = typ == "D"
    if name in POSONLY:
        if name == "power":
            if fieldok and r.b(0.25):
                args = [{"f": [r.ch(EXPONENTS) for _ in range(cx.size)]}]
                sub = _positive(cx, typ, sub)
            else:
                e = r.ch(EXPONENTS)
                args = [e]
                if not (e == round(e) and e >= 1):
                    sub = _positive(cx, typ, sub)
        else:
            sub = _positive(cx, typ, sub)
    elif name == "exponentiate":
        if fieldok and r.b(0.25):
            args = [{"f": cx.vec(cx.size, positive=True)}]
        else:
            args = [r.dynz(0.25, 3.0, 8, signed=False)]
    elif name == "clip":
        lo = r.dy(-1.5, 0.5, 8) + 1. / 32
        hi = lo + r.dynz(0.5, 2.0, 8, signed=False)
        w = r.i(0, 5)
        if w == 0 and fieldok:
            args = [{"f": [lo - 0.125 * (j % 2) for j in range(cx.size)]},
                    {"f": [hi + 0.125 * (j % 3) for j in range(cx.size)]}]
        elif w == 1 and REGIONS["clip_none"]:
            args = [None, hi]
        elif w == 2 and REGIONS["clip_none"]:
            args = [lo, None]
        elif w == 3:
            args = [int(np.floor(lo)), int(np.floor(lo)) + r.i(1, 3)]    # integer bounds
        else:
            args = [lo, hi]
    elif name == "log1p":
        sub = _positive(cx, typ, sub) if r.b() else ["mulc", 0.25, ["ptw", "tanh", [], sub, 0], 0]
    elif name == "tan" or (cx.cplx and name in ("tanh", "sigmoid", "arctan", "softplus")):
        sub = ["mulc", 0.25, sub, 0] if r.b() else sub
    sub = _rescale(cx, name, args, sub)
    how = r.i(0, 2) if name == "abs" else r.i(0, 1)
    return ["ptw", name, args, sub, how]


# entries whose value stays bounded (or grows at most linearly) for large arguments
BOUNDED = ["softplus", "sigmoid", "tanh", "arctan", "abs", "absolute", "sign", "unitstep", "clip", "sinc", "sin",
           "cos", "tan"]


def _rescale(cx, name, args, sub):
    """affine pre-factor 2^k (and a shift) in front of a table entry: moves the argument (|x| <~ 2 in the
    plain trees) into the saturated / asymptotic regime (|arg| up to ~100) or towards 0 (down to 2^-40)"""
    r = cx.r
    if not r.b(0.35):
        return sub
    if name in ("abs", "absolute", "sign", "unitstep"):
        ks = [4, 5, 6, 7]       # (towards 0 is towards the kink: left to ptw_sweep, which knows the argument)
    elif name in BOUNDED:
        ks = [3, 4, -10, -24, -40] if cx.cplx else [4, 5, 6, 6, 7, -10, -24, -40]
    elif name in ("sqrt", "log", "log10"):
        ks = [4, 8] if cx.cplx else [-8, 4, 8]
    elif name == "reciprocal":
        ks = [4, 8, -3]
    elif name == "power":
        e = args[0]
        ks = [-3, 2] if not isinstance(e, dict) and 0 < e <= 2 else [1]
    elif name == "log1p":
        ks = [-10, -24, -40] + ([4, 8] if sub[0] != "mulc" else [])
    else:       # exp, expm1, sinh, cosh, exponentiate
        ks = [2, -10, -24, -40]
    k = r.ch(ks)
    c = 2. ** k
    if name not in POSONLY and not (name == "log1p" and k > 0) and r.b():
        c = -c
    sub = ["mulc", c, sub, 0]
    if name in BOUNDED and k > 0 and r.b():
        sub = ["addc", r.ch([-32., 32., 8., -8.]), sub, 0]
    return sub


def _linspec(cx, typ):
    r = cx.r
    if typ != "D":
        return ["scal", cx.num(nonzero=True)]
    k = r.ch(["scal", "diag", "mat"] + (["matsp"] if cx.rank2 else [])
             + (["harm"] if cx.u["spaces"][0][0] == "rg" else []))
    if k == "harm":
        return ["harm", cx.vec(cx.u["spaces"][0][1])]
    if k == "scal":
        return ["scal", cx.num(nonzero=True)]
    if k == "diag":
        return ["diag", cx.vec(cx.size)]
    if k == "mat":
        return ["mat", cx.mat(cx.size, cx.size)]
    sp = r.i(0, 1)
    m = cx.u["spaces"][sp][1]
    return ["matsp", cx.mat(m, m), sp]


def _gen_bin(cx, typ, depth):
    r = cx.r
    o = r.ch(["mul", "mul", "add", "sub", "div", "pow"])
    d1, d2 = depth - 1, r.i(0, depth - 1)
    if r.b():
        d1, d2 = d2, d1
    a, b = gen(cx, typ, d1), gen(cx, typ, d2)
    if o == "div":
        b = _positive(cx, typ, b)
    if o == "pow":
        a = _positive(cx, typ, a)
        b = ["mulc", 0.5, b, 0]
    return ["bin", o, a, b]


def _gen_generic(cx, typ, depth):
    """type-preserving nodes available for every type"""
    r = cx.r
    w = r.ch(["ptw"] * 6 + ["bin"] * 5 + ["aff"] * 3 + ["ric"] * (2 if cx.cplx and not cx.feats.get("no_ric") else 0))
    if w == "ptw":
        return _gen_ptw(cx, typ, depth)
    if w == "bin":
        return _gen_bin(cx, typ, depth)
    if w == "ric":
        # ConjugationOperator is documented for DomainTuples only; Imaginizer see KNOWN note in the report
        opts = ["real"] + ([] if typ == "T" else ["imag", "conj"])
        if typ == "T" and REGIONS["imag_multi"]:
            opts.append("imag")
        return [r.ch(opts), gen(cx, typ, depth - 1)]
    k = r.ch(["neg", "mulc", "addc", "subc", "rsubc", "divc", "rdivc", "powc", "rpowc"])
    sub = gen(cx, typ, depth - 1)
    how = r.i(0, 2)
    if k == "neg":
        return ["neg", sub]
    if k in ("mulc", "divc"):
        return [k, cx.num(nonzero=True), sub, how]
    if k in ("addc", "subc", "rsubc"):
        return [k, cx.num(), sub, how]
    if k == "rdivc":
        return [k, cx.num(nonzero=True), _positive(cx, typ, sub), how]
    if k == "powc":
        e = r.ch(EXPONENTS)
        if not (e == round(e) and e >= 1):
            sub = _positive(cx, typ, sub)
        return [k, e, sub, how]
    return ["rpowc", r.dynz(0.25, 3.0, 8, signed=False), sub, how]


def _contr(cx, typ, spaces):
    """'integrate' needs pixel volumes: only over RGSpaces (UnstructuredDomain has no volume)"""
    sp = cx.u["spaces"]
    if typ == "P":
        involved = [sp[1 - cx.u["pc"]]]
    elif spaces is None:
        involved = sp
    else:
        involved = [sp[spaces]]
    if all(s[0] == "rg" for s in involved):
        return cx.r.ch(["sum", "integrate"])
    return "sum"


def _leaf(cx, typ):
    r = cx.r
    if typ == "D":
        if cx.local is not None:
            return ["var", None]
        if not cx.u["keys"]:
            return ["var", ""]
        return ["var", r.ch(cx.u["keys"]), r.i(0, 2)]
    if typ == "S":
        return [_contr(cx, "D", None), None, _leaf(cx, "D")]
    if typ == "P":
        return [_contr(cx, "D", cx.u["pc"]), cx.u["pc"], _leaf(cx, "D")]
    return ["join", _leaf(cx, "D"), _leaf(cx, "D")]


def gen(cx, typ, depth):
    r = cx.r
    f = cx.feats
    if depth <= 0:
        return _leaf(cx, typ)
    if typ == "D":
        opts = ["generic"] * 9 + ["lin", "lin", "linpre", "fld", "fld", "bcastS"]
        if depth < cx.maxdepth:
            opts += ["leaf"]
        if cx.rank2 and cx.u["pc"] is not None:
            opts += ["bcast", "bcast"]
        if f.get("T"):
            opts += ["get", "get"]
        if f.get("duckr") and cx.u["keys"] and cx.local is None:
            opts += ["duckr"]
        if f.get("pins") and cx.u["keys"] and cx.local is None:
            opts += ["pins", "pins"]
        if f.get("mle"):
            opts += ["mle"] * 7
        if f.get("jaxop"):
            opts += ["jaxop"] * 7
        w = r.ch(opts)
        if w == "leaf":
            return _leaf(cx, "D")
        if w == "lin":
            return ["lin", _linspec(cx, "D"), gen(cx, "D", depth - 1), r.i(0, 1)]
        if w == "linpre":
            name = r.ch(["sin", "exp", "tanh", "cosh", "arctan", "sinh"])
            return ["linpre", _linspec(cx, "D"), name, [], gen(cx, "D", depth - 1), r.i(0, 1)]
        if w == "fld":
            k = r.ch(["addf", "subf", "mulf", "divf"])
            return [k, cx.vec(cx.size, nonzero=(k == "divf")), gen(cx, "D", depth - 1), r.i(0, 1)]
        if w == "bcastS":
            return ["bcastS", gen(cx, "S", depth - 1)]
        if w == "bcast":
            return ["bcast", gen(cx, "P", depth - 1), r.i(0, 1)]
        if w == "get":
            return ["get", r.ch(["x", "y"]), gen(cx, "T", depth - 1)]
        if w == "duckr":
            key = r.ch(cx.u["keys"])
            cx.local = key
            try:
                sub = gen(cx, "D", depth - 1)
            finally:
                cx.local = None
            return ["duckr", key, sub]
        if w == "pins":
            key = r.ch(cx.u["keys"])
            inner = gen(cx, "D", depth - 1)
            # (LinearOperator @ LinearOperator insists on matching domains: the outer expression is made
            # a genuine nonlinear Operator, for which `@` performs the partial insertion)
            o = r.ch(["mul", "mul", "add", "sub"])
            v = ["var", key, r.i(0, 2)]
            if o != "mul":
                v = ["ptw", r.ch(["sinh", "tanh", "exp", "arctan"]), [], v, 0]
            side = [v, gen(cx, "D", r.i(0, depth - 1))]
            if r.b():
                side.reverse()
            return ["pins", key, inner, ["bin", o] + side]
        if w == "mle" and r.b(0.7):
            return _gen_mlen(cx, "D", depth)
        if w == "jaxop" and r.b(0.25):
            a, b = gen(cx, "D", depth - 1), gen(cx, "D", r.i(0, depth - 1))
            if cx.cplx:
                a = ["addc", {"re": 0.0, "im": 0.5}, a, 0]
                b = ["addc", {"re": 0.0, "im": 0.5}, b, 0]
            return ["jaxop2", a, b]
        if w == "mle":
            ss = "ij,ij->ij" if cx.rank2 else "i,i->i"
            a = gen(cx, "D", depth - 1)
            if r.b(0.25):
                return ["mle", ss, a, {"f": cx.vec(cx.size)}]
            return ["mle", ss, a, gen(cx, "D", r.i(0, depth - 1))]
        if w == "jaxop":
            sub = gen(cx, "D", depth - 1)
            if cx.cplx:
                # jax's VJP insists on the primal's dtype: keep the argument complex-typed (a sub-expression
                # such as x-x is simplified by the library to a real-typed zero field)
                sub = ["addc", {"re": 0.0, "im": 0.5}, sub, 0]
            return ["jaxop", r.i(0, 3), sub]
        return _gen_generic(cx, "D", depth)
    if typ == "S":
        opts = ["generic"] * 3 + ["sumD"] * 4 + ["vdot"] * 3 + ["vdotf"]
        if cx.rank2 and cx.u["pc"] is not None:
            opts += ["sumP"]
        if f.get("mle"):
            opts += ["mle"] * 3
        w = r.ch(opts)
        if w == "sumD":
            return [_contr(cx, "D", None), None, gen(cx, "D", depth - 1)]
        if w == "sumP":
            return [_contr(cx, "P", None), None, gen(cx, "P", depth - 1)]
        if w == "vdot":
            return ["vdot", gen(cx, "D", depth - 1), gen(cx, "D", r.i(0, depth - 1))]
        if w == "vdotf":
            return ["vdotf", cx.vec(cx.size), gen(cx, "D", depth - 1)]
        if w == "mle" and r.b(0.7):
            return _gen_mlen(cx, "S", depth)
        if w == "mle":
            ss = "ij,ij->" if cx.rank2 else "i,i->"
            return ["mle", ss, gen(cx, "D", depth - 1), gen(cx, "D", r.i(0, depth - 1))]
        return _gen_generic(cx, "S", depth)
    if typ == "P":
        opts = ["generic"] * 3 + ["sumD"] * 4
        if f.get("mle"):
            opts += ["mle"] * 2
        w = r.ch(opts)
        if w == "sumD":
            return [_contr(cx, "D", cx.u["pc"]), cx.u["pc"], gen(cx, "D", depth - 1)]
        if w == "mle" and r.b(0.7):
            return _gen_mlen(cx, "P", depth)
        if w == "mle":
            ss = "ij,ij->j" if cx.u["pc"] == 0 else "ij,ij->i"
            return ["mle", ss, gen(cx, "D", depth - 1), gen(cx, "D", r.i(0, depth - 1))]
        return _gen_generic(cx, "P", depth)
    # T
    w = r.i(0, 11)
    if w < 6:
        return ["join", gen(cx, "D", depth - 1), gen(cx, "D", r.i(0, depth - 1))]
    if w < 8:
        # sum of two operators whose MultiDomain targets overlap in one key (_OpSum / MultiField.unite)
        return ["tadd", r.ch(["x", "y"]), gen(cx, "T", depth - 1), gen(cx, "D", r.i(0, depth - 1))]
    if w == 8 and f.get("jaxop"):
        sub = gen(cx, "D", depth - 1)
        if cx.cplx:
            sub = ["addc", {"re": 0.0, "im": 0.5}, sub, 0]
        return ["jaxopT", sub]
    return _gen_generic(cx, "T", depth)


def _gen_mlen(cx, typ, depth):
    """MultiLinearEinsum with 2-3 operands carrying the indices of D or of P (= D without space pc), a drawn
    (mostly non-alphabetical) key_order, static fields at drawn positions and a drawn `optimize`"""
    r = cx.r
    rank2 = cx.rank2
    dss = "ij" if rank2 else "i"
    pss = None
    if rank2 and cx.u["pc"] is not None:
        pss = "j" if cx.u["pc"] == 0 else "i"
        psize = cx.u["spaces"][1 - cx.u["pc"]][1]
    nops = r.ch([2, 3, 3])
    keys = ["p", "q", "r", "s"]
    r.r.shuffle(keys)
    keys = keys[:nops]
    sss, operands = [], []
    kinds = ["Dt"] + [r.ch(["Dt", "Dt", "Df"] + (["Pt", "Pt", "Pf"] if pss else [])) for _ in range(nops - 1)]
    r.r.shuffle(kinds)
    first = True
    for kd in kinds:
        d = depth - 1 if first else r.i(0, depth - 1)
        if kd == "Dt":
            sss.append(dss)
            operands.append(gen(cx, "D", d))
            first = False
        elif kd == "Pt":
            sss.append(pss)
            operands.append(gen(cx, "P", d))
        elif kd == "Df":
            sss.append(dss)
            operands.append({"f": cx.vec(cx.size)})
        else:
            sss.append(pss)
            operands.append({"f": cx.vec(psize)})
    out = {"D": dss, "S": "", "P": pss}[typ]
    opt = r.ch(["optimal", "optimal", "greedy", True, False])
    return ["mlen", out, opt, keys, sss] + operands


def _universe(r, cplx, small):
    shapes = CPLX_SHAPES if cplx else REAL_SHAPES
    shape = r.ch(shapes[:2] if small else shapes)
    spaces = []
    for n in shape:
        if r.b():
            spaces.append(["rg", n, r.ch([0.5, 1.0, 0.25, 2.0])])
        else:
            spaces.append(["un", n])
    size = int(np.prod(shape))
    maxk = 3
    while maxk * size * (2 if cplx else 1) > NPAD:
        maxk -= 1
    nk = min(r.ch([0, 2, 2, 3]), maxk)
    if nk == 1:
        nk = 0
    keys = ["a", "b", "c"][:nk]
    pc = r.i(0, 1) if len(shape) == 2 else None
    return {"spaces": spaces, "keys": keys, "cplx": cplx, "pc": pc}, size


def _xvals(r, u, size):
    def el():
        if u["cplx"]:
            return {"re": r.dynz(0.125, 1.5, 16), "im": r.dynz(0.125, 1.0, 16)}
        return r.dynz(0.125, 1.5, 16)
    return {k: [el() for _ in range(size)] for k in (u["keys"] or [""])}


def make_recipe(t, tier, cplx, feats, root):
    seed = int(hashlib.sha256(repr((tuple(t), tier, cplx, sorted(feats), root)).encode()).hexdigest()[:16], 16)
    r = Rnd(seed)
    c = cplx if cplx is not None else r.b(1. / 3)
    sizeclass = r.i(0, 7)
    u, size = _universe(r, c, small=(sizeclass == 0))
    depth = 2 if sizeclass <= 1 else (4 if tier != "quick" and sizeclass >= 6 else 3)
    cx = Cx(r, u, dict(feats), depth)
    if root == "energy":
        expr = _gen_energy_root(cx, depth)
    elif root.startswith("ptw:"):
        # the named table entry inside a binary node: f(...) <op> g(...)
        cx.force = [root[4:]]
        typ = r.ch(["D", "D", "S"])
        f = _gen_ptw(cx, typ, 2)
        o = r.ch(["mul", "add", "sub"])
        expr = ["bin", o, f, gen(cx, typ, 1)] if r.b() else ["bin", o, gen(cx, typ, 1), f]
    else:
        types = ["D", "D", "S"] + (["P"] if u["pc"] is not None else []) + (["T"] if feats.get("T") else [])
        typ = r.ch(types)
        # a binary node at the root half of the time (the non-triviality rule wants one)
        expr = _gen_bin(cx, typ, depth) if r.b(0.4) else gen(cx, typ, depth)
    return {"u": u, "x": _xvals(r, u, size), "wm": r.b(), "expr": expr}


def _mk_strategy(cplx, feats, root="any"):
    def strat(tier):
        return st.tuples(st.integers(0, 65535), st.integers(0, 65535), st.integers(0, 65535)).map(lambda t: make_recipe(t, tier, cplx, feats, root))
    return strat


def _gen_energy(cx, depth):
    r = cx.r
    typ = r.ch(["D", "D", "P"] if cx.u["pc"] is not None else ["D"])
    n = cx.size if typ == "D" else cx.u["spaces"][1 - cx.u["pc"]][1]
    kinds = ["gauss"] if cx.cplx else \
        ["gauss", "gauss", "poisson", "poisson", "bernoulli", "studentt", "sq2norm", "quad", "invgamma"]
    if not cx.cplx and cx.feats.get("jaxlh") and r.b(0.4):
        kinds += ["jaxlh"]
    k = r.ch(kinds)
    sub = gen(cx, typ, depth - 1)
    if cx.cplx:
        # complex Gaussian energy: holomorphic argument so that the pulled-back metric is J^H M J
        sub = _strip_nonholo(sub)
    if k == "gauss":
        data = None if r.b(0.25) else cx.vec(n)
        w = r.ch(["none", "scal", "diag"])
        icov = None if w == "none" else (["scal", r.dynz(0.25, 2.0, 8, signed=False)] if w == "scal"
                                         else ["diag", [r.dynz(0.25, 2.0, 8, signed=False) for _ in range(n)]])
        spec = ["gauss", data, icov]
    elif k == "poisson":
        spec = ["poisson", [r.i(0, 5) for _ in range(n)]]
        sub = _positive(cx, typ, sub)
    elif k == "bernoulli":
        spec = ["bernoulli", [r.i(0, 1) for _ in range(n)]]
        sub = _unit_interval(cx, sub)
    elif k == "studentt":
        if r.b():
            spec = ["studentt", [r.dynz(0.5, 4.0, 4, signed=False) for _ in range(n)]]
        else:
            spec = ["studentt", r.dynz(0.5, 4.0, 4, signed=False)]
    elif k == "sq2norm":
        spec = ["sq2norm"]
    elif k == "invgamma":
        beta = [r.dynz(0.25, 2.0, 8, signed=False) for _ in range(n)]
        alpha = [r.dy(-0.75, 2.0, 8) for _ in range(n)] if r.b() else r.dy(-0.75, 2.0, 8)
        spec = ["invgamma", beta, alpha]
        sub = _positive(cx, typ, sub)
    elif k == "jaxlh":
        spec = ["jaxlh", cx.vec(n), [r.dynz(0.25, 2.0, 8, signed=False) for _ in range(n)]]
    else:
        spec = ["quad", [r.dynz(0.25, 2.0, 8) for _ in range(n)]]
    return ["energy", spec, sub, r.i(0, 1)]


_ALLKINDS = {"pins", "var", "ptw", "linpre", "lin", "neg", "mulc", "addc", "subc", "rsubc", "divc", "rdivc", "powc",
             "rpowc", "addf", "subf", "mulf", "divf", "real", "imag", "conj", "bin", "sum", "integrate", "bcast",
             "bcastS", "vdot", "vdotf", "join", "get", "duckr", "mle", "jaxop", "energy", "esum", "escale", "ham",
             "mlen", "tadd", "jaxop2", "jaxopT", "avg"}


def _strip_nonholo(n):
    if n[0] in ("real", "imag", "conj"):
        return _strip_nonholo(n[1])
    if n[0] == "vdot":
        return ["sum", None, ["bin", "mul", _strip_nonholo(n[1]), _strip_nonholo(n[2])]]
    if n[0] == "vdotf":
        return ["sum", None, ["mulf", n[1], _strip_nonholo(n[2]), 0]]
    n = list(n)
    for i, c in enumerate(n):
        if isinstance(c, list) and c and isinstance(c[0], str) and c[0] in _ALLKINDS:
            n[i] = _strip_nonholo(c)
    return n


def _gen_energy_root(cx, depth):
    r = cx.r
    opts = ["plain"] * 4 + ["esum"] * 3 + ["escale"] * 2
    if cx.feats.get("ham"):
        opts += ["ham"] * 2
    if cx.feats.get("avg"):
        opts += ["avg"]
    w = r.ch(opts)
    if w == "plain":
        return _gen_energy(cx, depth)
    if w == "esum":
        return _esum(cx, depth)
    if w == "escale":
        inner = _gen_energy(cx, depth) if r.b(0.7) else _esum(cx, depth)
        return ["escale", r.dynz(0.25, 3.0, 8, signed=False), inner, r.i(0, 3)]
    if w == "avg":
        inner = _gen_energy(cx, depth) if r.b(0.6) else (["ham", _gen_energy(cx, depth)] if cx.feats.get("ham")
                                                         else _esum(cx, depth))
        ns = r.ch([1, 2, 2, 3])
        smp = []
        for _ in range(ns):
            smp.append({k: [({"re": r.dy(-0.25, 0.25, 16), "im": r.dy(-0.25, 0.25, 16)} if cx.cplx
                             else r.dy(-0.25, 0.25, 16)) for _ in range(cx.size)]
                        for k in (cx.u["keys"] or [""])})
        return ["avg", smp, inner]
    inner = _gen_energy(cx, depth) if r.b() else _esum(cx, depth)
    return ["ham", inner]


def _esum(cx, depth):
    a, b = _gen_energy(cx, depth), _gen_energy(cx, cx.r.i(1, depth))
    lh = ("gauss", "poisson", "bernoulli", "studentt", "invgamma", "jaxlh")
    if a[1][0] in lh and b[1][0] not in lh and not REGIONS["lh_plus_plain"]:
        a, b = b, a
    return ["esum", a, b]


def shrink_recipe(rec, check, kind=None, rounds=6):
    """greedy structural shrinker (development aid for corpus entries): repeatedly replaces a node by one
    of its children of the same static type, or a non-root sub-tree by a leaf, as long as `check` keeps
    failing (with Violation kind `kind`, or with any non-harness exception if kind is None)."""
    import copy

    def fails(r):
        try:
            check(r)
            return False
        except Discard:
            return False
        except Violation as v:
            return kind is None or v.kind == kind
        except Exception:  # noqa: BLE001
            return kind is None

    def paths(n, pre=()):
        yield pre
        k = n[0]
        idx = [i for i, c in enumerate(n) if isinstance(c, list) and c and isinstance(c[0], str)
               and c[0] in _ALLKINDS]
        for i in idx:
            yield from paths(n[i], pre + (i,))

    def get(n, path):
        for i in path:
            n = n[i]
        return n

    def put(root, path, val):
        if not path:
            return val
        root = copy.deepcopy(root)
        get(root, path[:-1])[path[-1]] = val
        return root

    u = Uni(rec)
    best = copy.deepcopy(rec)
    for _ in range(rounds):
        changed = False
        for path in sorted(paths(best["expr"]), key=len):
            try:
                node = get(best["expr"], path)
            except (IndexError, TypeError):
                continue
            t = typ_of(node, u)
            cands = [c for c in _children(node) if typ_of(c, u) == t]
            if t == "D" and node[0] != "var":
                cands.append(["var", (u.keys[0] if u.multi else "")] + ([0] if u.multi else []))
            for c in cands:
                trial = dict(best, expr=put(best["expr"], path, c))
                if fails(trial):
                    best, changed = trial, True
                    break
            if changed:
                break
        if not changed:
            break
    return best


def ptw_table_cases(tier, seed):
    """every key of the library's table (read at run time), real input and - for the entries the library
    accepts on complex input - complex input, a few random contexts each"""
    from nifty.cl.pointwise import ptw_dict
    per = 5 if tier == "quick" else 60
    res = []
    for name in sorted(ptw_dict):
        for cplx in (False, True):
            if cplx and name in KINK:
                continue
            for j in range(per if not cplx else max(2, per // 2)):
                res.append(make_recipe((seed, j, 4711), tier, cplx, {"T": True}, "ptw:" + name))
    return res



# ====================================================================== ptw_sweep: every regime of every entry
# Each table entry on a grid of dyadic arguments m*2^k (m in {1, 1.25, 1.5, 1.75}, k = -40..8, both signs), on
# a linear dyadic grid j + l/8 (j up to 64 resp. 448; covers implementation thresholds such as the library's
# |v| > 33 branches of softplus) and at 0 where the entry is differentiable there; complex arguments for the
# holomorphic entries (|Re|, |Im| <= 112: beyond that the library's closed forms square overflowing
# intermediates).  Reference: the harness' own jnp expression; f' and f'' by forward-mode AD (jax.jvp).
NPT = 16
SWEEP_TOL = 1e-11
MANT = [1.0, 1.25, 1.5, 1.75]
SWEEP_PRE = ["sin", "exp", "tanh", "cosh", "arctan", "sinh"]


def _sweep_args(rec, n):
    """recipe args -> (numpy arrays of length n for the reference, raw list for the library call)"""
    res = []
    for a in rec["args"]:
        if a is None:
            res.append(None)
        elif isinstance(a, dict) and "f" in a:
            res.append(nx.arr(a["f"]).astype(np.float64))
        else:
            res.append(np.full(n, float(a)))
    return res


def _sweep_valid(name, z, args, cplx):
    """mask of the points inside the entry's documented range (where it is differentiable)"""
    z = np.asarray(z)
    ok = np.isfinite(z)
    with np.errstate(all="ignore"):
        if cplx:
            ok &= (np.abs(z.real) <= 112) & (np.abs(z.imag) <= 112)

            def offcut(w):      # away from 0 and from the negative real axis (branch cut of log/sqrt/power)
                return (w != 0) & ((w.real > 0) | (np.abs(w.imag) * 16 >= np.abs(w.real)))
            nonint = name == "power" and not _is_posint(args[0])
            if name in ("sqrt", "log", "log10") or nonint:
                ok &= offcut(z)
            elif name == "log1p":
                ok &= offcut(1 + z)
            elif name == "reciprocal":
                ok &= z != 0
            elif name == "tan":
                ok &= np.abs(np.cos(z)) >= 1. / 64
            elif name in ("tanh", "sigmoid"):
                ok &= np.abs(np.cosh(z)) >= 1. / 64
            elif name == "arctan":
                ok &= (np.abs(1 + z * z) >= 1. / 64) & ((np.abs(z.real) * 16 >= np.abs(z.imag)) | (np.abs(z.imag) <= 0.9))
            elif name == "softplus":
                w = 1 + np.exp(np.where(z.real <= 33, z, 0))
                ok &= np.where(z.real <= 33, (np.abs(w) >= 1. / 64) & offcut(w), np.abs(z.imag) <= 2)
            elif name in KINK:
                ok &= False
        else:
            ok &= np.abs(z) <= 448
            nonint = name == "power" and not _is_posint(args[0])
            if name in ("sqrt", "log", "log10") or nonint:
                ok &= z > 0
            elif name == "log1p":
                ok &= z > -1
            elif name in ("reciprocal", "abs", "absolute", "sign", "unitstep"):
                ok &= z != 0
            elif name == "clip":
                for b in args:
                    if b is not None:
                        ok &= z != b
    return ok


def _sweep_reference(name, z, args):
    """(f, f', f'') of the entry at the points z by the harness' jnp table and forward-mode AD"""
    import jax
    import jax.numpy as jnp
    JP, _ = _tables()
    a = []
    for t in args:
        a.append(None if t is None else jnp.asarray(t))
    if name == "exponentiate" and np.iscomplexobj(z):
        def F(v):
            return jnp.exp(v * jnp.log(a[0]))
    elif name == "exponentiate":
        def F(v):
            return jnp.power(a[0], v)
    else:
        def F(v):
            return JP[name](v, *a)
    x = jnp.asarray(z)
    one = jnp.ones_like(x)

    def dF(v):
        return jax.jvp(F, (v,), (one,))[1]

    with np.errstate(all="ignore"), jax.disable_jit():
        f = F(x)
        f1, f2 = jax.jvp(dF, (x,), (one,))
    return np.asarray(f), np.asarray(f1), np.asarray(f2)


def _sweep_regimes(name, z, cplx):
    z = np.asarray(z)
    m = np.maximum(np.abs(z.real), np.abs(z.imag)) if cplx else np.abs(z)
    bins = [("0", m == 0), ("<2^-20", (m > 0) & (m < 2. ** -20)), ("2^-20..2^-4", (m >= 2. ** -20) & (m < 2. ** -4)),
            ("2^-4..4", (m >= 2. ** -4) & (m < 4)), ("4..33", (m >= 4) & (m <= 33)), ("33..128", (m > 33) & (m <= 128)),
            (">128", m > 128)]
    cl = []
    for tag, sel in bins:
        if not np.any(sel):
            continue
        if cplx or tag == "0":
            cl.append("%s|%s" % (name, tag))
        else:
            if np.any(sel & (z > 0)):
                cl.append("%s|+%s" % (name, tag))
            if np.any(sel & (z < 0)):
                cl.append("%s|-%s" % (name, tag))
    return cl


def _rowclose(a, ref, bound, kind, axis, detail=""):
    """|a - ref| <= bound[i] for every entry of row i (axis=0) / column i (axis=1)"""
    a, ref = np.asarray(a), np.asarray(ref)
    require(a.shape == ref.shape, kind + ":shape", f"{a.shape} vs {ref.shape}")
    require(bool(np.all(np.isfinite(a))), kind + ":nonfinite", f"library result\n{a}\nreference\n{ref} {detail}")
    b = bound[:, None] if (a.ndim == 2 and axis == 0) else bound[None, :] if a.ndim == 2 else bound
    err = np.abs(a - ref)
    if np.any(err > b):
        i = np.unravel_index(np.argmax(err / b), err.shape)
        raise Violation(kind, f"entry {i}: library {a[i]!r} reference {ref[i]!r} err {err[i]:.3e} "
                              f"allowed {np.broadcast_to(b, err.shape)[i]:.3e} {detail}")


def check_sweep(rec):
    name, cplx, wm = rec["name"], bool(rec["cplx"]), bool(rec["wm"])
    dt = np.complex128 if cplx else np.float64
    pts = nx.arr(rec["pts"]).astype(dt)
    n = pts.size
    args = _sweep_args(rec, n)
    if not np.all(_sweep_valid(name, pts, args, cplx)):
        raise Discard()
    if name == "exponentiate" and not np.all(args[0] > 0):
        raise Discard()
    f, f1, f2 = _sweep_reference(name, pts, args)
    if not (np.all(np.isfinite(f)) and np.all(np.isfinite(f1)) and np.all(np.isfinite(f2))):
        raise Discard()
    dom = ift.DomainTuple.make(ift.UnstructuredDomain(n) if rec["dom"] == "un" else ift.RGSpace(n, distances=0.5))
    d = 2. ** np.array(rec["pre"], dtype=np.float64) if rec["pre"] is not None else np.ones(n)
    xf = ift.makeField(dom, np.array(pts / d))          # exact: d is a power of two
    largs = []
    for a in rec["args"]:
        if isinstance(a, dict) and "f" in a:
            largs.append(ift.makeField(dom, nx.arr(a["f"]).astype(np.float64)))
        else:
            largs.append(a)
    ident = ift.ScalingOperator(dom, 1.)
    inner = ident if rec["pre"] is None else ift.DiagonalOperator(ift.makeField(dom, d))
    route = rec["route"]
    with np.errstate(all="ignore"):
        if route < 4:
            if route == 0:
                op = inner.ptw(name, *largs)
            elif route == 1:
                op = getattr(inner, name)(*largs)
            elif route == 2:
                op = ident.ptw_pre(name, *largs) @ inner
            else:
                op = getattr(ident, name + "_pre")(*largs) @ inner
            require(op.domain is dom and op.target is dom, "sweep_domain", f"{op.domain} {op.target}")
            plain = op(xf)
            lin = op(ift.Linearization.make_var(xf, wm))
        else:
            def run(v):
                y = v if rec["pre"] is None else inner(v)
                return y.ptw(name, *largs) if route == 4 else getattr(y, name)(*largs)
            plain = run(xf)
            lin = run(ift.Linearization.make_var(xf, wm))
        require(lin.jac is not None and lin.jac.domain is dom and lin.jac.target is dom, "sweep_jac_domain", "")
        require(bool(lin.want_metric) == wm and lin.metric is None, "sweep_metric_flag", "")
        pv, lv = nx.flat(plain), nx.flat(lin.val)
        if not cplx:
            require(not np.iscomplexobj(pv) and not np.iscomplexobj(lv), "sweep_value_dtype", "")
        # allowed error: SWEEP_TOL relative to the result, to its conditioning w.r.t. the argument
        # (|x f'|: covers argument reduction / composed formulas in either implementation) and to the
        # function's natural scale 1 (closed forms like 1 - tanh^2 carry an absolute error eps)
        bv = SWEEP_TOL * (np.abs(f) + np.abs(pts * f1) + 1.)
        bd = SWEEP_TOL * (np.abs(f1) + np.abs(pts * f2) + 1.) * np.abs(d)
        info = f"\nname={name} args={rec['args']}\npoints={pts}"
        _rowclose(pv, f, bv, "sweep_value_vs_reference:" + name, 0, info)
        _rowclose(lv, pv, 1e-13 * (np.abs(f) + 1.), "sweep_lin_val_vs_plain:" + name, 0, info)
        D = np.diag(f1 * d)
        if cplx:
            R = np.block([[D.real, -D.imag], [D.imag, D.real]])
            Jt = nx.dense_real(lin.jac, nx.TIMES)
            Ja = nx.dense_real(lin.jac, nx.ADJ)
            bd = np.concatenate([bd, bd])
        else:
            R = D
            Jt = nx.dense(lin.jac, nx.TIMES, dtype=np.float64)
            Ja = nx.dense(lin.jac, nx.ADJ, dtype=np.float64)
        _rowclose(Jt, R, bd, "sweep_derivative_vs_reference:" + name, 0, info + f"\nf'={f1}")
        _rowclose(Ja, R.T, bd, "sweep_adjoint_vs_transpose:" + name, 1, info + f"\nf'={f1}")
    cl = ["fn:" + name, "route%d" % route, "complex" if cplx else "real", "want_metric" if wm else "no_metric"]
    cl += _sweep_regimes(name, pts, cplx)
    for a in rec["args"]:
        if a is None:
            cl.append(name + "(None_arg)")
        elif isinstance(a, dict):
            cl.append(name + "(field_arg)")
        elif isinstance(a, int):
            cl.append(name + "(int_arg)")
    if rec["pre"] is not None:
        cl.append("inner_jacobian")
    return dict(nontrivial=len(_sweep_regimes(name, pts, cplx)) >= 3, classes=cl)


def _sweep_recipe(seed, name, cplx, j):
    r = Rnd(int(hashlib.sha256(repr(("sweep", seed, name, cplx, j)).encode()).hexdigest()[:16], 16))
    n = NPT
    # ---- arguments of the entry
    args = []
    if name == "power":
        args = [{"f": [r.ch(EXPONENTS) for _ in range(n)]}] if j % 4 == 3 else [r.ch(EXPONENTS + [3, 1])]
    elif name == "exponentiate":
        args = [{"f": [r.dynz(0.25, 3.0, 8, signed=False) for _ in range(n)]}] if j % 4 == 3 \
            else [r.dynz(0.25, 3.0, 8, signed=False)]
    elif name == "clip":
        # bounds have mantissa 1.125 / 1.375: never on the grid of the arguments; every form of the bounds
        # (fields, None/number, number/None, ints, numbers) in each block of six cases
        w = j % 6
        lo, hi = -1.125 * 2. ** r.i(-6, 6), 1.375 * 2. ** r.i(-6, 6)
        if r.b(0.3):
            lo = 1.125 * 2. ** r.i(-6, 4)
            hi = lo * 2. ** r.i(1, 3) * 1.375 / 1.125
        if w == 0:
            args = [{"f": [lo * (1 + (i % 2)) if lo < 0 else lo / (1 + (i % 2)) for i in range(n)]},
                    {"f": [hi * (1 + (i % 3)) for i in range(n)]}]
        elif w == 1:
            args = [None, hi]
        elif w == 2:
            args = [lo, None]
        elif w == 3:
            args = [-r.i(1, 40), r.i(1, 40)]
        else:
            args = [lo, hi]
    anp = _sweep_args({"args": args}, n)
    posonly = name in ("sqrt", "log", "log10") or (name == "power" and not _is_posint(anp[0]))
    zero_ok = name not in KINK and name not in ("reciprocal",) and not posonly

    def mag(kmax, linmax):
        w = r.i(0, 19)
        if w < 12 or (w == 19 and not zero_ok):
            return r.ch(MANT) * 2. ** r.i(-40, kmax)
        if w < 17:
            return r.i(0, min(64, linmax)) + r.i(1, 8) / 8.
        if w < 19:
            return r.i(0, linmax) + r.i(1, 8) / 8.
        return 0.

    pts = []
    for i in range(n):
        if not cplx:
            x = mag(8, 440)
            x = min(x, 448.)
            if not posonly and r.b():
                x = -x
            if name == "log1p" and x <= -1:
                x = -1 + r.ch(MANT) * 2. ** r.i(-40, -1)
            if name == "clip":
                while any(b is not None and x == b[i] for b in anp):
                    x += 0.0625
            if x == 0 and not zero_ok:
                x = 0.375
            pts.append(x)
        else:
            re, im = mag(5, 100), mag(5, 100)
            re, im = min(re, 112.), min(im, 112.)
            w = r.i(0, 9)
            if w == 0:
                im = 0.
            elif w == 1:
                re = 0.
            if r.b():
                re = -re
            if r.b():
                im = -im
            z = complex(re, im)
            if not _sweep_valid(name, np.array([z]), [None if b is None else b[i:i + 1] for b in anp], True)[0]:
                z = complex(abs(re) if abs(re) <= 30 else 0.5, im if abs(im) <= 1.5 else 0.25)
                if not _sweep_valid(name, np.array([z]), [None if b is None else b[i:i + 1] for b in anp], True)[0]:
                    z = 0.5 + 0.25j
            pts.append({"re": z.real, "im": z.imag})
    pre = [r.i(-3, 3) for _ in range(n)] if r.b(0.4) else None
    return {"name": name, "cplx": cplx, "route": (j + r.i(0, 5)) % 6, "args": args, "pts": pts, "pre": pre,
            "dom": r.ch(["un", "rg"]), "wm": r.b()}


def sweep_cases(tier, seed):
    from nifty.cl.pointwise import ptw_dict
    per = 6 if tier == "quick" else 120
    res = []
    for name in sorted(ptw_dict):
        for cplx in (False, True):
            if cplx and name in KINK:
                continue
            for j in range(per):
                res.append(_sweep_recipe(seed, name, cplx, j))
    return res



# ====================================================================== einsum_general
# MultiLinearEinsum / LinearEinsum over its documented argument domain: 2-4 operands, generated subscripts
# (contractions, outer/broadcast indices, transposed index orders, scalar operands, spaces with several
# array axes), operand shapes equal and unequal, every order of the keys (`key_order`; None where allowed),
# static fields at any position (as dict or MultiField), every `optimize` form, real and complex.
# Reference: the operands are expanded to the full index space by numpy broadcasting, multiplied and summed
# (no einsum); the Jacobian follows from multilinearity (operand replaced by basis vectors).
EIN_TOL = 1e-10
EIN_PRE = {"sin": (np.sin, np.cos), "exp": (np.exp, np.exp), "tanh": (np.tanh, lambda v: 1. - np.tanh(v) ** 2)}


def _ein_space(spec):
    if spec[0] == "un":
        return ift.UnstructuredDomain(spec[1])
    shp = tuple(spec[1])
    return ift.RGSpace(shp if len(shp) > 1 else shp[0])


def _ein_ref(order, lshape, sss, arrays, out):
    """sum over the letters not in `out` of the product of the operands; `order`: all letters, lshape:
    letter -> tuple of axis lengths (a space may have several axes)"""
    full = None
    for ss, a in zip(sss, arrays):
        a = np.asarray(a)
        # axes of `a`: letters of ss in order, each with its own block of array axes
        blocks, pos = {}, 0
        for L in ss:
            blocks[L] = list(range(pos, pos + len(lshape[L])))
            pos += len(lshape[L])
        perm = [ax for L in order if L in blocks for ax in blocks[L]]
        a = np.transpose(a, perm) if perm else a
        shp = []
        for L in order:
            shp += list(lshape[L]) if L in blocks else [1] * len(lshape[L])
        a = a.reshape(shp)
        full = a if full is None else full * a
    full = np.broadcast_to(full, [m for L in order for m in lshape[L]])
    # sum the letters not in out, then move the remaining blocks into the order of `out`
    axes, pos, keep = [], 0, {}
    for L in order:
        blk = list(range(pos, pos + len(lshape[L])))
        pos += len(lshape[L])
        if L in out:
            keep[L] = blk
        else:
            axes += blk
    res = full.sum(axis=tuple(axes)) if axes else np.array(full)
    rem = [L for L in order if L in out]
    cur, pos = {}, 0
    for L in rem:
        cur[L] = list(range(pos, pos + len(lshape[L])))
        pos += len(lshape[L])
    perm = [ax for L in out for ax in cur[L]]
    return np.transpose(res, perm) if perm else res


def check_einsum(rec):
    cplx = bool(rec["cplx"])
    dt = np.complex128 if cplx else np.float64
    spaces = {L: _ein_space(sp) for L, sp in sorted(rec["spaces"].items())}
    lshape = {L: tuple(spaces[L].shape) for L in spaces}
    order = sorted(spaces)
    ops = rec["ops"]
    out = rec["out"]
    sss = [o["ss"] for o in ops]
    keys = [o["key"] for o in ops]
    doms = [ift.DomainTuple.make(tuple(spaces[L] for L in o["ss"])) for o in ops]
    vals = [nx.arr(o["val"]).astype(dt).reshape(dm.shape) for o, dm in zip(ops, doms)]
    subscripts = ",".join(sss) + "->" + out
    opt = rec["optimize"]
    if opt == "path":
        opt = ["einsum_path"] + [(0, 1)] * (len(ops) - 1)
    tgt = ift.DomainTuple.make(tuple(spaces[L] for L in out))
    linear = rec["mode"] == "linear"
    if linear:
        dyn = [len(ops) - 1]
    else:
        dyn = [i for i, o in enumerate(ops) if not o["static"]]
    pre = [ops[i].get("pre") for i in range(len(ops))]
    # ---- reference
    yv = [EIN_PRE[pre[i]][0](vals[i]) if (i in dyn and pre[i]) else vals[i] for i in range(len(ops))]
    yref = _ein_ref(order, lshape, sss, yv, out).reshape(-1)
    cols = []
    for i in sorted(dyn, key=lambda t: keys[t]):      # MultiDomain keys are sorted
        dv = EIN_PRE[pre[i]][1](vals[i]).reshape(-1) if pre[i] else np.ones(vals[i].size, dtype=dt)
        for e in range(vals[i].size):
            b = np.zeros(vals[i].size, dtype=dt)
            b[e] = dv[e]
            arrs = list(yv)
            arrs[i] = b.reshape(vals[i].shape)
            cols.append(_ein_ref(order, lshape, sss, arrs, out).reshape(-1))
    Jref = np.stack(cols, axis=1)
    # ---- library
    with np.errstate(all="ignore"):
        if linear:
            fixed = {keys[i]: ift.makeField(doms[i], np.array(vals[i])) for i in range(len(ops) - 1)}
            mf = ift.MultiField.from_dict(fixed)
            ko = None if rec["ko_none"] else tuple(keys[:-1])
            op = ift.LinearEinsum(doms[-1], mf, subscripts, key_order=ko, optimize=opt)
            x = ift.makeField(doms[-1], np.array(vals[-1]))
            full = op if not pre[-1] else op @ ift.ScalingOperator(doms[-1], 1.).ptw(pre[-1])
        else:
            dd = {keys[i]: doms[i] for i in dyn}
            domain = dd if rec["domdict"] else ift.MultiDomain.make(dd)
            stat = {keys[i]: ift.makeField(doms[i], np.array(vals[i])) for i in range(len(ops)) if i not in dyn}
            if not stat:
                smf = None
            else:
                smf = stat if rec["static_as"] == "dict" else ift.MultiField.from_dict(stat)
            ko = None if rec["ko_none"] else tuple(keys)
            op = ift.MultiLinearEinsum(domain, subscripts, key_order=ko, static_mf=smf, optimize=opt)
            x = ift.MultiField.from_dict({keys[i]: ift.makeField(doms[i], np.array(vals[i])) for i in dyn})
            full = op
            if any(pre[i] for i in dyn):
                inner = None
                for i in dyn:
                    fa = ift.FieldAdapter(doms[i], keys[i])
                    if pre[i]:
                        fa = fa.ptw(pre[i])
                    fa = fa.ducktape_left(keys[i])
                    inner = fa if inner is None else inner + fa
                full = op @ inner
        require(op.target == tgt, "einsum_target", f"{op.target} vs {tgt}")
        require(full.domain is x.domain, "einsum_domain", f"{full.domain} vs {x.domain}")
        wm = bool(rec["wm"])
        plain = full(x)
        lin = full(ift.Linearization.make_var(x, wm))
        require(plain.domain is op.target and lin.val.domain is op.target, "einsum_value_domain", "")
        require(lin.jac.domain is x.domain and lin.jac.target is op.target, "einsum_jac_domain", "")
        require(lin.metric is None, "einsum_metric_unrequested", "")
        info = f"\nsubscripts={subscripts} keys={keys} dyn={[keys[i] for i in dyn]} optimize={rec['optimize']}"
        sc = max(1., float(np.max(np.abs(yref))), float(np.max(np.abs(Jref))))
        close(nx.flat(plain), yref, "einsum_value_vs_reference", tol=EIN_TOL, scale=sc, detail=info)
        close(nx.flat(lin.val), nx.flat(plain), "einsum_lin_val_vs_plain", tol=1e-12, scale=sc, detail=info)
        if cplx:
            R = np.block([[Jref.real, -Jref.imag], [Jref.imag, Jref.real]])
            Jt = nx.dense_real(lin.jac, nx.TIMES)
            Ja = nx.dense_real(lin.jac, nx.ADJ)
        else:
            R = Jref
            Jt = nx.dense(lin.jac, nx.TIMES, dtype=np.float64)
            Ja = nx.dense(lin.jac, nx.ADJ, dtype=np.float64)
        close(Jt, R, "einsum_jacobian_vs_reference", tol=EIN_TOL, scale=sc, detail=info + f"\nlibrary=\n{Jt}\nreference=\n{R}")
        close(Ja, R.T, "einsum_adjoint_vs_transpose", tol=EIN_TOL, scale=sc,
              detail=info + f"\nlibrary=\n{Ja}\nreference=\n{R.T}")
    # ---- classes
    cnt = {L: sum(1 for t in sss if L in t) for L in order}
    cl = ["linear_einsum" if linear else "multilinear_einsum", "operands%d" % len(ops), "complex" if cplx else "real",
          "optimize=%s" % (rec["optimize"],), "dynamic%d" % len(dyn)]
    if not linear:
        cl.append("static%d" % (len(ops) - len(dyn)))
        if len(dyn) < len(ops):
            cl.append("static_as_" + rec["static_as"])
        cl.append("domain_as_dict" if rec["domdict"] else "domain_as_MultiDomain")
    kk = keys[:-1] if linear else keys
    cl.append("key_order_None" if rec["ko_none"] else ("key_order_sorted" if kk == sorted(kk) else "key_order_unsorted"))
    shapes = [v.shape for v in vals]
    cl.append("operand_shapes_equal" if all(t == shapes[0] for t in shapes) else "operand_shapes_unequal")
    contraction = any(cnt[L] >= 2 and L not in out for L in order)
    if contraction:
        cl.append("contraction")
    if any(cnt[L] >= 2 and L in out for L in order):
        cl.append("batch_index")
    if any(cnt[L] == 1 and L not in out for L in order):
        cl.append("lonely_sum_index")
    if len(set("".join(sss))) > max(len(t) for t in sss):
        cl.append("outer_or_broadcast")
    if any(len(lshape[L]) > 1 for L in order):
        cl.append("multi_axis_space")
    if any(t == "" for t in sss):
        cl.append("scalar_operand")
    if out == "":
        cl.append("scalar_output")
    if any(sorted(t) != list(t) for t in sss + [out]):
        cl.append("transposed_index_order")
    if any(pre[i] for i in dyn):
        cl.append("nonlinear_inner_operator")
    return dict(nontrivial=len(ops) >= 3 or contraction, classes=cl)


def _ein_recipe(t, tier):
    r = Rnd(int(hashlib.sha256(repr(("einsum", tuple(t), tier)).encode()).hexdigest()[:16], 16))
    cplx = r.b(0.3)
    lim_dyn, lim_out, lim_op = (10, 12, 9) if cplx else (18, 16, 12)
    while True:
        nops = r.ch([2, 3, 3, 4])
        letters = list("ijklabxy")
        r.r.shuffle(letters)
        letters = letters[:r.i(1, 4)]
        equal = r.b(0.4)
        eq = r.ch([2, 2, 3])
        spaces = {}
        for L in letters:
            if not equal and r.b(0.12):
                spaces[L] = ["rg", r.ch([[2, 2], [1, 2], [2, 1], [3]])]
            else:
                m = eq if equal else r.ch([1, 2, 2, 3, 3])
                spaces[L] = ["un", m] if r.b(0.6) else ["rg", [m]]
        size = {L: int(np.prod(spaces[L][1])) for L in letters}
        sss = []
        for _ in range(nops):
            nl = min(len(letters), r.ch([0] + [1] * 5 + [2] * 10 + [3] * 4))
            if equal and len(letters) >= 2:
                nl = min(len(letters), 2)       # equally shaped operands with different roles of the indices
            ll = list(letters)
            r.r.shuffle(ll)
            sss.append("".join(ll[:nl]))
        used = [L for L in letters if any(L in t for t in sss)]
        if not used:
            continue
        cand = list(used)
        r.r.shuffle(cand)
        out = "".join(cand[:r.i(0, min(3, len(cand)))])
        if not REGIONS["einsum_lonely_sum_index"]:
            for L in used:
                if L not in out and sum(1 for t in sss if L in t) == 1:
                    out += L
        mode = r.ch(["mle", "mle", "mle", "linear"])
        static = [False] * nops
        if mode == "mle":
            static = [r.b(0.3) for _ in range(nops)]
            if all(static):
                static[r.i(0, nops - 1)] = False
        opsz = [int(np.prod([size[L] for L in t])) for t in sss]
        dynsz = opsz[-1] if mode == "linear" else sum(z for z, st_ in zip(opsz, static) if not st_)
        outsz = int(np.prod([size[L] for L in out]))
        if max(opsz) > lim_op or dynsz > lim_dyn or outsz > lim_out:
            continue
        break
    keys = list("abcdef")
    r.r.shuffle(keys)
    keys = keys[:nops]
    ko_none = False
    if not any(static) and r.b(0.2):
        # key_order=None: the order of the keys of the MultiDomain / MultiField, i.e. sorted
        if mode == "linear":
            keys = sorted(keys[:-1]) + [keys[-1]]
        else:
            keys = sorted(keys)
        ko_none = True

    def val(nn):
        if cplx:
            return [{"re": r.dy(-2.0, 2.0, 4), "im": r.dy(-2.0, 2.0, 4)} for _ in range(nn)]
        return [r.dy(-2.0, 2.0, 4) for _ in range(nn)]

    ops = []
    for i in range(nops):
        ops.append({"key": keys[i], "ss": sss[i], "static": static[i], "val": val(opsz[i]),
                    "pre": r.ch([None, None, None, "sin", "exp", "tanh"]) if not static[i] else None})
    return {"spaces": {L: spaces[L] for L in used}, "ops": ops, "out": out, "cplx": cplx,
            "optimize": r.ch(["optimal", "optimal", "greedy", True, False, "path"]), "mode": mode,
            "domdict": r.b(), "static_as": r.ch(["dict", "mf"]), "ko_none": ko_none, "wm": r.b()}


def _ein_strategy(tier):
    return st.tuples(st.integers(0, 65535), st.integers(0, 65535), st.integers(0, 65535)).map(
        lambda t: _ein_recipe(t, tier))


OPF = {"T": True, "duckr": True, "pins": True}
NT = ("non-trivial = tree depth >= 3 (>= 2 levels above the leaves) with >= 1 nonlinear node (ptw, power, "
      "reciprocal/division, operator product, einsum, jax function, energy) and >= 1 binary node "
      "(operator*+-/**operator, vdot, join of two keys, energy sum); distinct = sha1 of the canonical recipe")

SUBS = [
    Sub(name="ptw_table", check=check_op, cases=ptw_table_cases, shards=1, jax=True,
        rule="enumeration of every key of pointwise.ptw_dict (real; complex for the entries that accept it), "
             "5 (thorough: 60) random binary contexts f(u) <op> g each; " + NT),
    Sub(name="op_real", check=check_op, strategy=_mk_strategy(False, OPF), quick=720, thorough=30000,
        shards=4, jax=True, rule="operator expressions on real input, all 24 ptw_dict entries; " + NT),
    Sub(name="op_complex", check=check_op, strategy=_mk_strategy(True, OPF), quick=450, thorough=12000,
        shards=3, jax=True,
        rule="operator expressions on complex input: holomorphic ptw entries, real/imag/conjugate/vdot in the "
             "real 2N representation; " + NT),
    Sub(name="lin_eager", check=check_eager, strategy=_mk_strategy(None, {}), quick=450, thorough=15000,
        shards=3, jax=True,
        rule="the tree applied node by node to Linearization objects (Linearization.__mul__/__add__/__pow__/"
             "__truediv__/ptw/sum/integrate/vdot/__getitem__/real/imag/conjugate); " + NT),
    Sub(name="energy_metric", check=check_op,
        strategy=_mk_strategy(None, {"T": True, "ham": True, "avg": True, "jaxlh": True}, root="energy"),
        quick=450, thorough=12000, shards=3, jax=True,
        rule="likelihood energies (Gaussian, Poisson, Bernoulli, Student-t, inverse gamma, JaxLikelihoodEnergy"
             "Operator; sums, scaled in four spellings, StandardHamiltonian, AveragedEnergy over 1-3 residual "
             "samples) and Squared2Norm/QuadraticForm at the root of an expression, want_metric drawn; metric = "
             "J^T M J; " + NT),
    Sub(name="energy_eager", check=check_eager, strategy=_mk_strategy(None, {}, root="energy"),
        quick=150, thorough=6000, shards=1, jax=True,
        rule="energies applied to an eagerly built Linearization with non-trivial Jacobian (prepend_jac path); "
             + NT),
    Sub(name="einsum_jaxop", check=check_op,
        strategy=_mk_strategy(None, {"mle": True, "jaxop": True, "no_ric": True}),
        quick=100, thorough=3000, shards=1, jax=True,
        rule="MultiLinearEinsum (2-3 operands on D and on D with one space contracted, drawn key_order / "
             "static fields / optimize) and JaxOperator (DomainTuple and MultiDomain domain / target) inside "
             "expressions; " + NT),
    Sub(name="ptw_sweep", check=check_sweep, cases=sweep_cases, shards=1, jax=True,
        rule="every key of pointwise.ptw_dict (real; complex for the holomorphic entries) through ptw / named "
             "method / ptw_pre / <name>_pre / Linearization.ptw / Linearization.<name>, 6 (thorough: 120) cases "
             "of 16 arguments each: m*2^k with k=-40..8, j+l/8 up to 448, 0; both signs; value, f' (diagonal "
             "Jacobian incl. its zeros, times an inner diagonal Jacobian) and adjoint against the harness' jnp "
             "expression differentiated by jax.jvp; allowed error 1e-11*(|f'| + |x f''| + 1); "
             "non-trivial = the 16 arguments cover >= 3 magnitude/sign regimes"),
    Sub(name="einsum_general", check=check_einsum, strategy=_ein_strategy, quick=300, thorough=20000, shards=1,
        rule="MultiLinearEinsum (75%) and LinearEinsum (25%) with 2-4 operands over generated subscripts "
             "(<= 4 index letters of size 1-3 or a 2-axis space; contractions, batch, outer and lonely summed "
             "indices, scalar operands, transposed orders), equal and unequal operand shapes, drawn key names "
             "in drawn order (key_order unsorted / sorted / None), static fields at drawn positions (dict or "
             "MultiField), optimize in {optimal, greedy, True, False, explicit path}, real and complex, with "
             "and without a nonlinear operator in front; value, dense Jacobian and adjoint against a "
             "broadcast-multiply-sum reference; non-trivial = >= 3 operands or a contracted index"),
]
