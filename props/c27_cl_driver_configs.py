"""C27 - the classic VI driver accepts every documented configuration (DESIGN 2/C27).

Recipe: one row of a seeded greedy t-wise covering array over the option values of nifty.cl.optimize_kl.
"""
import glob
import hashlib
import itertools
import os
import shutil
import tempfile

import numpy as np

from vlib import Sub, Violation, require

PROPERTY = "C27"
LEVEL = "exploration"
TECHNIQUE = "combinatorial (pairwise / 3-wise covering array) configuration testing with an options-consistency oracle"
RULE = ("Rows of a seeded greedy covering array (pairwise in the quick tier, 3-wise in the thorough tier) over the "
        "documented options of nifty.cl.optimize_kl on a small valid two-key model. Oracle: the call completes; "
        "return type/arity follows return_final_position; the sample count is 2*n_samples of the last executed "
        "iteration (1 for MAP / dry run); constant keys are bit-unchanged; callbacks are called once per executed "
        "iteration with the documented arity; output files exist iff configured; a resumed run equals the "
        "uninterrupted one; the depth of the global RNG stack (and, without resume, the identity of the current "
        "generator) is as before the call. Call sequences: a second call in the same process behaves like a "
        "stand-alone call and never writes into the output directory of an earlier call.")
LEVEL_TEXT = "t-wise coverage of the option space on one small model; not exhaustive over the full product."
LEVEL_NOTE = "comm=None only (no MPI in the sandbox); one small model; 2 global iterations."
ASSUMPTIONS = ["option combinations excluded as undocumented/invalid: resume or export or plots without an output "
               "directory (resume without directory is a documented ValueError and is checked separately)"]

PARAMS = {
    "odir": [False, True],
    "sanity": [True, False],
    "save": ["latest", "all"],
    "plot_e": [False, True],
    "plot_m": [False, True],
    "constants": ["none", "b", "callable"],
    "pe": ["none", "b"],
    "nsamp": [0, 2, "callable"],
    "transitions": ["none", "fn"],
    "inspect": ["none", 1, 2],
    "terminate": ["none", 0, 1],
    "fresh": ["true", "callable"],
    "dry": [False, True],
    "retpos": [False, True],
    "resume": [False, True],
    "export": [False, True],
    "nonlin": [False, True],
    "initpos": [True, False],
    "minimizer": ["newton", "lbfgs"],
}
NEEDS_ODIR = ("resume", "export", "plot_e", "plot_m")


def repair(row):
    row = dict(row)
    if not row["odir"]:
        for k in NEEDS_ODIR:
            row[k] = False
    if row["nsamp"] == 0:
        row["nonlin"] = False
    return row


def covering_rows(t, seed):
    names = sorted(PARAMS)
    need = set()
    for combo in itertools.combinations(names, t):
        for vals in itertools.product(*[range(len(PARAMS[n])) for n in combo]):
            row = {n: PARAMS[n][0] for n in names}
            for n, v in zip(combo, vals):
                row[n] = PARAMS[n][v]
            if all(repair(row)[n] == row[n] for n in combo):      # achievable under the constraints
                need.add(tuple(zip(combo, vals)))
    rows = []
    ctr = 0

    def h(*a):
        return int(hashlib.sha1(":".join(map(str, (seed,) + a)).encode()).hexdigest()[:8], 16)
    while need:
        best, bestcov = None, -1
        for cand in range(30):
            ctr += 1
            row = {n: PARAMS[n][h("r", ctr, n) % len(PARAMS[n])] for n in names}
            # bias: force one still-uncovered tuple
            tup = sorted(need)[h("t", ctr) % len(need)]
            for n, v in tup:
                row[n] = PARAMS[n][v]
            row = repair(row)
            idx = {n: PARAMS[n].index(row[n]) for n in names}
            cov = sum(1 for tp in need if all(idx[n] == v for n, v in tp))
            if cov > bestcov:
                best, bestcov = row, cov
        idx = {n: PARAMS[n].index(best[n]) for n in names}
        need = {tp for tp in need if not all(idx[n] == v for n, v in tp)}
        rows.append(best)
    return rows


def cases(tier, seed):
    rows = covering_rows(2 if tier == "quick" else 3, seed)
    return [dict(r, rngseed=1000 + i) for i, r in enumerate(rows)]


def _model():
    import logging

    import nifty.cl as ift
    ift.logger.setLevel(logging.CRITICAL)
    sp = ift.UnstructuredDomain(3)
    A = ift.FieldAdapter(sp, "a")
    B = ift.FieldAdapter(sp, "b")
    sig = A * B.exp()
    data = ift.makeField(sp, np.array([0.7, -0.2, 1.1]))
    lh = ift.GaussianEnergy(data=data, inverse_covariance=ift.ScalingOperator(sp, 4.0, np.float64)) @ sig
    return ift, sp, sig, lh


def _call(ift, lh, sig, sp, row, odir, total, resume, rec):
    calls = rec.setdefault("inspect_calls", [])
    ic = ift.AbsDeltaEnergyController(1e-8, iteration_limit=20)
    mini = ift.NewtonCG(ift.GradientNormController(iteration_limit=2)) if row["minimizer"] == "newton" \
        else ift.L_BFGS(ift.GradientNormController(iteration_limit=3))
    kw = {}
    kw["constants"] = {"none": [], "b": ["b"], "callable": (lambda i: ["b"] if i == 0 else [])}[row["constants"]]
    kw["point_estimates"] = {"none": [], "b": ["b"]}[row["pe"]]
    nsamp = {0: 0, 2: 2, "callable": (lambda i: [1, 2, 1][i])}[row["nsamp"]]
    if row["transitions"] == "fn":
        kw["transitions"] = lambda i: (lambda sl: sl.average()) if i == 1 else None
    if row["inspect"] == 1:
        kw["inspect_callback"] = lambda sl: calls.append(("1", sl.n_samples))
    elif row["inspect"] == 2:
        kw["inspect_callback"] = lambda sl, i: calls.append((i, sl.n_samples))
    if row["terminate"] != "none":
        t_at = row["terminate"]
        kw["terminate_callback"] = lambda i: i == t_at
    if row["fresh"] == "callable":
        kw["fresh_stochasticity"] = lambda i: i != 1
    if row["nonlin"]:
        kw["nonlinear_sampling_minimizer"] = ift.NewtonCG(ift.GradientNormController(iteration_limit=2))
    if row["initpos"]:
        kw["initial_position"] = ift.MultiField.from_dict(
            {"a": ift.makeField(sp, np.array([0.1, -0.2, 0.3])), "b": ift.makeField(sp, np.array([0.25, 0.1, -0.1]))})
    if row["export"]:
        kw["export_operator_outputs"] = {"sig": sig}
    return ift.optimize_kl(lh, total, nsamp, mini, ic, output_directory=odir, save_strategy=row["save"],
                           plot_energy_history=row["plot_e"], plot_minisanity_history=row["plot_m"],
                           return_final_position=row["retpos"], resume=resume, sanity_checks=row["sanity"],
                           dry_run=row["dry"], **kw)


def _digest(res, retpos):
    sl = res[0] if retpos else res
    out = [s[k].asnumpy().tobytes() for s in sl.iterator() for k in sorted(s.keys())]
    if retpos:
        out += [res[1][k].asnumpy().tobytes() for k in sorted(res[1].keys())]
    return out


def check(row):
    ift, sp, sig, lh = _model()
    from nifty.cl.minimization.sample_list import SampleListBase
    R = ift.random
    total = 3
    tmp = tempfile.mkdtemp(prefix="c27_")
    classes = []
    try:
        odir = os.path.join(tmp, "out") if row["odir"] else None
        R.push_sseq_from_seed(row["rngseed"])
        depth0, rng0 = len(R._sseq), R.current_rng()
        rec = {}
        try:
            if row["resume"]:
                # first part of the run, then resume it
                _call(ift, lh, sig, sp, dict(row, terminate="none"), odir, 1, False, {})
                require(len(R._sseq) == depth0, "rng_stack_depth_changed", f"after partial run: {len(R._sseq)} vs {depth0}")
            res = _call(ift, lh, sig, sp, row, odir, total, row["resume"], rec)
            depth1, rng1 = len(R._sseq), R.current_rng()
        finally:
            while len(R._sseq) > depth0:     # keep the worker's global state sane for the next case
                R.pop_sseq()
            R.pop_sseq()
        require(depth1 == depth0, "rng_stack_depth_changed",
                f"len(random._sseq) {depth0} before the call, {depth1} after ({_short(row)})")
        if not row["resume"]:
            require(rng1 is rng0, "rng_generator_replaced", "current_rng() is a different object after the call")
        # ---- return value
        if row["retpos"]:
            require(isinstance(res, tuple) and len(res) == 2, "return_arity", repr(type(res)))
            sl, mean = res
            require(isinstance(mean, ift.MultiField), "return_mean_type", repr(type(mean)))
        else:
            sl, mean = res, None
        require(isinstance(sl, SampleListBase), "return_type", repr(type(sl)))
        # ---- executed iterations
        first = 1 if row["resume"] and not row["dry"] else 0
        executed = []
        if not row["dry"]:
            for i in range(first, total):
                executed.append(i)
                if row["terminate"] != "none" and i == row["terminate"]:
                    break
        last = executed[-1] if executed else None
        nsamp_of = {0: lambda i: 0, 2: lambda i: 2, "callable": lambda i: [1, 2, 1][i]}[row["nsamp"]]
        if last is not None:
            want = 1 if nsamp_of(last) == 0 else 2 * nsamp_of(last)
            require(sl.n_samples == want, "sample_count", f"{sl.n_samples} vs {want} ({_short(row)})")
        # ---- callbacks
        if row["inspect"] != "none":
            calls = rec["inspect_calls"]
            require(len(calls) == len(executed), "inspect_callback_count", f"{len(calls)} vs {len(executed)}")
            if row["inspect"] == 2:
                require([c[0] for c in calls] == executed, "inspect_callback_index", f"{calls} vs {executed}")
        # ---- constants
        if row["constants"] == "b" and row["initpos"] and mean is not None and not row["dry"] and row["transitions"] == "none":
            require(mean["b"].asnumpy().tobytes() == np.array([0.25, 0.1, -0.1]).tobytes(), "constant_key_changed", "")
        # ---- files
        if odir is not None and executed:
            require(os.path.isfile(os.path.join(odir, "last_finished_iteration")), "marker_missing", "")
            got = int(open(os.path.join(odir, "last_finished_iteration")).read())
            require(got == last, "marker_value", f"{got} vs {last}")
            pk = os.listdir(os.path.join(odir, "pickle"))
            tag = "latest" if row["save"] == "latest" else f"iteration_{last}"
            require(any(f.startswith(tag + ".") for f in pk), "sample_files_missing", f"{pk}")
            if row["save"] == "all":
                for i in executed:
                    require(any(f.startswith(f"iteration_{i}.") for f in pk), "sample_files_missing", f"iteration {i}: {pk}")
            have_e = bool(glob.glob(os.path.join(odir, "energy_history", "*.png")))
            require(have_e == bool(row["plot_e"]), "energy_plot_files", f"{have_e} vs {row['plot_e']}")
            have_m = bool(glob.glob(os.path.join(odir, "minisanity_history", "*.png")))
            require(have_m == bool(row["plot_m"]), "minisanity_plot_files", f"{have_m} vs {row['plot_m']}")
            have_x = bool(glob.glob(os.path.join(odir, "sig", "*.hdf5")))
            require(have_x == bool(row["export"]), "export_files", f"{have_x} vs {row['export']}")
        if odir is None:
            require(not os.listdir(tmp), "files_without_output_directory", str(os.listdir(tmp)))
        # ---- resume == uninterrupted
        if row["resume"] and not row["dry"] and row["terminate"] != 0:
            # (terminate at 0: the uninterrupted run stops after iteration 0, the resumed one never sees i == 0)
            R.push_sseq_from_seed(row["rngseed"])
            try:
                d0 = len(R._sseq)
                ref = _call(ift, lh, sig, sp, row, os.path.join(tmp, "ref"), total, False, {})
            finally:
                while len(R._sseq) > d0:
                    R.pop_sseq()
                R.pop_sseq()
            require(_digest(res, row["retpos"]) == _digest(ref, row["retpos"]), "resumed_run_differs",
                    _short(row))
            classes.append("resume_compared")
    finally:
        shutil.rmtree(tmp, ignore_errors=True)
        import matplotlib.pyplot as plt
        plt.close("all")
    classes += [f"{k}={row[k]}" for k in ("odir", "dry", "terminate", "nsamp", "sanity", "resume")]
    return dict(nontrivial=True, classes=classes)


def _short(row):
    return ",".join(f"{k}={v}" for k, v in sorted(row.items()) if v not in (False, "none") and k != "rngseed")


def check_resume_without_dir(rec):
    """documented rejection: resume=True without an output directory"""
    ift, sp, sig, lh = _model()
    row = {n: PARAMS[n][0] for n in PARAMS}
    row.update(rec)
    d0 = len(ift.random._sseq)
    try:
        _call(ift, lh, sig, sp, row, None, 2, True, {})
    except ValueError:
        require(len(ift.random._sseq) == d0, "rng_stack_depth_changed", "after rejected call")
        return dict(nontrivial=True, classes=["rejected"])
    raise Violation("resume_without_directory_accepted", "")


def _tree_digest(root):
    """relative path -> bytes of every file below root (names only for png plots, whose bytes carry timestamps)"""
    out = {}
    if root is None or not os.path.isdir(root):
        return out
    for dp, _, fns in os.walk(root):
        for fn in fns:
            full = os.path.join(dp, fn)
            rel = os.path.relpath(full, root)
            out[rel] = None if fn.endswith(".png") else open(full, "rb").read()
    return out


def _run_row(ift, lh, sig, sp, row, odir, total=2):
    R = ift.random
    R.push_sseq_from_seed(row["rngseed"])
    d0 = len(R._sseq)
    try:
        res = _call(ift, lh, sig, sp, row, odir, total, False, {})
        d1 = len(R._sseq)
    finally:
        while len(R._sseq) > d0:
            R.pop_sseq()
        R.pop_sseq()
    require(d1 == d0, "rng_stack_depth_changed", f"{d0} -> {d1} ({_short(row)})")
    return _digest(res, row["retpos"])


def check_sequence(rec):
    """history: two driver calls in one process; the second must behave as if it were the first
    (same results, same files) and must not touch the first call's output directory"""
    ift, sp, sig, lh = _model()
    first, second = (dict(repair(dict(r, resume=False))) for r in (rec["first"], rec["second"]))
    tmp = tempfile.mkdtemp(prefix="c27s_")
    try:
        o_ref = os.path.join(tmp, "ref", "out") if second["odir"] else None
        o1 = os.path.join(tmp, "a", "out") if first["odir"] else None
        o2 = os.path.join(tmp, "b", "out") if second["odir"] else None
        for d in ("ref", "a", "b"):
            os.makedirs(os.path.join(tmp, d))
        ref = _run_row(ift, lh, sig, sp, second, o_ref)
        ref_files = _tree_digest(o_ref)
        # run it once more after the reference so that "second call equals first call" is not vacuous
        _run_row(ift, lh, sig, sp, first, o1)
        snap1 = _tree_digest(o1)
        got = _run_row(ift, lh, sig, sp, second, o2)
        require(got == ref, "result_depends_on_previous_call", f"first: {_short(first)}; second: {_short(second)}")
        require(_tree_digest(o1) == snap1, "previous_output_directory_modified",
                f"first: {_short(first)}; second: {_short(second)}; "
                f"changed: {sorted(k for k in set(snap1) | set(_tree_digest(o1)) if snap1.get(k) != _tree_digest(o1).get(k))[:6]}")
        got_files = _tree_digest(o2)
        require(sorted(got_files) == sorted(ref_files), "output_files_depend_on_previous_call",
                f"{sorted(set(got_files) ^ set(ref_files))[:8]}")
        # pickled samples/means/markers must be byte-identical to those of the stand-alone call
        diff = [k for k in ref_files if k.startswith("pickle") or k == "last_finished_iteration"
                if ref_files[k] != got_files[k] and "random_state" not in k]
        require(not diff, "output_file_contents_depend_on_previous_call", str(diff[:6]))
        if not second["odir"]:
            require(not os.listdir(os.path.join(tmp, "b")) and not os.listdir(os.path.join(tmp, "ref")),
                    "files_without_output_directory", "")
    finally:
        shutil.rmtree(tmp, ignore_errors=True)
        import matplotlib.pyplot as plt
        plt.close("all")
    return dict(nontrivial=bool(first["odir"]) != bool(second["odir"]) or first["save"] != second["save"],
                classes=[f"odir:{int(first['odir'])}->{int(second['odir'])}", f"save:{first['save']}->{second['save']}",
                         f"dry:{int(first['dry'])}->{int(second['dry'])}"])


def sequence_cases(tier, seed):
    rows = cases(tier, seed)
    n = 12 if tier == "quick" else 120
    out, want = [], [(True, False), (True, True), (False, True), (True, False)]

    def h(*a):
        return int(hashlib.sha1(":".join(map(str, (seed, "seq") + a)).encode()).hexdigest()[:8], 16)
    for i in range(n):
        wa, wb = want[i % len(want)]
        ra = [r for r in rows if r["odir"] == wa]
        rb = [r for r in rows if r["odir"] == wb]
        if not ra or not rb:
            continue
        out.append({"first": ra[h(i, "a") % len(ra)], "second": rb[h(i, "b") % len(rb)]})
    return out


SUBS = [
    Sub(name="covering_array", check=check, cases=cases, shards=16,
        rule="rows of the covering array; every row is a distinct configuration and non-trivial",
        budget_quick=150, budget_thorough=3000),
    Sub(name="resume_without_directory", check=check_resume_without_dir, shards=1,
        cases=lambda tier, seed: [{"nsamp": 0}, {"nsamp": 2}, {"dry": True}],
        rule="documented ValueError; RNG stack untouched"),
    Sub(name="call_sequences", check=check_sequence, cases=sequence_cases, shards=12,
        rule="pairs of covering-array rows executed one after the other in the same process (with/without output "
             "directory in every order); oracle: the second call returns the same results and writes the same files "
             "as when executed alone, and leaves the first call's output directory untouched; non-trivial = the two "
             "calls differ in output directory presence or save strategy",
        budget_quick=150, budget_thorough=3000),
]
