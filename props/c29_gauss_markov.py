"""C29 - Gauss-Markov processes have the exact continuous-time covariance (DESIGN 2/C29).

Conventions the oracle is built from (nifty/re/gauss_markov.py docstrings, the repository's own
test/test_re/test_gauss_markov.py and the only in-tree caller nifty/re/correlated_field.py):

* every process returns the states at the grid points t_0 = 0, t_i = dt_0 + ... + dt_{i-1}; entry 0 is x0;
  parameters given as sequences are constant inside a time bin: p(t) = p_i for t_i <= t < t_{i+1}.
* Wiener:            dx = sigma dW                                    (state x)
* integrated Wiener: dx = y dt + sigma sqrt(asperity) dW1, dy = sigma dW2   (state (x, y), output [:, 0] = x,
                     [:, 1] = y).  The noise *variance* rate on x is sigma^2 * asperity: this is what the
                     repository's test (test_iwp_cumsum_vs_fori: amp_xx = sigma sqrt(dt) sqrt(dt^2/12 + asperity))
                     and the correlated-field caller use.  (The docstring formula "sigma * asperity * xi" reads
                     as an amplitude; reported as a documentation inconsistency, not demanded here.)
* Ornstein-Uhlenbeck: dx = -gamma x dt + sigma sqrt(2 gamma) dW, i.e. sigma is the standard deviation of the
                     steady state.  This is the reading under which the docstring's statement "x0 defaults to a
                     random variable drawn from the steady state distribution" (x0 = sigma * standard normal) is
                     true; it is checked as such (stationary kernel sigma^2 exp(-gamma |t-s|)).  (The SDE printed in
                     the docstring omits the factor sqrt(2 gamma); reported as documentation inconsistency.)
* discrete_gauss_markov_process: res_0 = x0, res_{i+1} = drift_i @ res_i + diffamp_i @ xi_i  (docstring).
* model classes: latent key `name` of shape dt.shape + shape(x0); tuple parameters are shortcuts for a normal
  (x0) / log-normal (sigma, gamma, asperity) prior with the given mean and standard deviation.

Oracles (NumPy / SciPy only):
  R  textbook transition recursion  m_{k+1} = A_k m_k,  P_{k+1} = A_k P_k A_k^T + Q_k,
     Cov(x_i, x_j) = P_i (A_{j-1} ... A_i)^T  with the closed-form (A_k, Q_k) of each process,
  K  the continuous-time kernel, derived independently: closed forms for constant parameters
     (sigma^2 min(s,t); sigma^2 (e^{-gamma|t-s|} - e^{-gamma(t+s)}); the double integral of white noise for the
     IWP), and for time-varying parameters the SDE (F, D) of every bin discretised by Van Loan's matrix
     exponential and summed explicitly  Cov(x_i, x_j) = sum_k Phi(i,k+1) Q_k Phi(j,k+1)^T.
  R and K are asserted to agree with each other in every case (oracle self-test => harness error).
"""
import numpy as np
from hypothesis import strategies as st
from scipy.linalg import expm

from vlib import Sub, Violation, require
from vlib import strat as S

PROPERTY = "C29"
LEVEL = "exploration"
RULE = ("Generated time grids (1-12 steps, non-uniform / uniform / scalar dt), scalar and per-step sigma, gamma, "
        "asperity, initial states, dyadic excitations; parameters fixed, tuple-prior, user model or (OU) default "
        "steady-state x0 for the model classes. Each output is affine in the standard-normal latents: the columns of L "
        "are the responses to the unit excitations (f(e_k) - f(0), one vmapped evaluation; affinity re-checked at a "
        "generated excitation), the exact covariance L L^T and the mean f(0) are compared with (R) the textbook "
        "transition recursion A P A^T + Q and (K) the independently derived continuous-time kernel (closed form for constant parameters, "
        "Van Loan matrix-exponential discretisation of the SDE otherwise); the generic generator is compared with the "
        "docstring recursion evaluated in NumPy and, fed the oracle's (A_k, chol Q_k), with the specialised processes; "
        "model classes are compared with the bare functions at the same latent input.")
LEVEL_TEXT = ("Search over generated grids, parameter shapes and parametrisation routes; every case compares the "
              "complete (N+1)d x (N+1)d covariance matrix and the mean with two independently written references, "
              "so a wrong factor, exponent, ordering of the cumulative sums or a mis-indexed per-step parameter is "
              "seen on the first non-uniform case. Exploration: at most 12 steps, float64, host CPU.")
LEVEL_NOTE = ("Trusted: numpy, scipy.linalg.expm, jax.vmap (the batch of unit excitations is evaluated in one call; "
              "affinity is re-checked at a generated point in every case). Conventions where docstring and code differ "
              "in notation (asperity as variance ratio, OU sigma as steady-state standard deviation) are taken from "
              "the repository's tests / callers / the docstring's steady-state statement, see module docstring.")
TECHNIQUE = ("PBT: exact covariance via linearity (unit excitations) vs transition recursion + continuous-time kernel "
             "(closed form / Van Loan)")
ASSUMPTIONS = [
    "float64, CPU; 1-12 steps; dt in [1/8, 2], sigma in [1/4, 3], gamma in [1/8, 2] (bare OU function: also scaled by "
    "2^-8 .. 2^-26), asperity in [0, 2] (dyadic)",
    "integrated Wiener process: asperity enters the variance linearly, Q_xx = sigma^2 (dt^3/3 + asperity dt) "
    "(repository test + correlated-field caller), not squared as the docstring's SDE notation suggests",
    "Ornstein-Uhlenbeck: sigma is the steady-state standard deviation, Q = sigma^2 (1 - exp(-2 gamma dt)) "
    "(the docstring's steady-state statement for the default x0), not sigma^2/(2 gamma) as the printed SDE suggests",
    "per-step parameters are piecewise constant on the time bins (WienerProcess notes)",
    "hyper-parameters drawn from priors (sigma, gamma, asperity) make the model non-Gaussian; the covariance is "
    "checked conditional on their latents (the model is affine in the remaining standard-normal latents)",
    "the generic generator fed (A_k, chol Q_k) agrees with the specialised processes in law (mean and covariance); "
    "path-wise equality is demanded for the scalar processes (1x1 factor, unique up to sign) and for the IWP with "
    "the upper-triangular factor used by the repository's own test",
    "prior key names name+'_x0', name+'_sigma', name+'_gamma', name+'_asperity' are read from the model's domain",
    "test vectors are dyadic numbers derived deterministically from an integer seed stored in the recipe",
    "execution: mostly as one compiled (jax.jit) program per function with all parameters passed as arrays (compiled "
    "once per shape signature), a generated fraction op-by-op (eager) with Python-float scalars; the quick tier "
    "restricts eager process cases to 2 or 5 steps and all cases to a few step counts between 1 and 12 (thorough: "
    "every count 1-12) to bound XLA compile time; a time budget that runs out skips cases, never alarms",
]

TOL = 1e-9
FLOOR = 1e-13


# ------------------------------------------------------------------ comparison helpers
def close_el(a, b, kind, scale, tol=TOL, detail=""):
    """|a-b| <= tol * (scale + FLOOR) elementwise; scale is a magnitude bound computed by the oracle"""
    a = np.asarray(a, dtype=np.float64)
    b = np.asarray(b, dtype=np.float64)
    if a.shape != b.shape:
        raise Violation(kind + ":shape", f"{a.shape} vs {b.shape} {detail}")
    if not np.all(np.isfinite(a)):
        raise Violation(kind + ":nonfinite", f"{a!r} {detail}")
    scale = np.broadcast_to(np.asarray(scale, dtype=np.float64), a.shape)
    err = np.abs(a - b)
    bad = err > tol * (scale + FLOOR)
    if np.any(bad):
        idx = np.unravel_index(int(np.argmax(err / (scale + FLOOR))), a.shape)
        raise Violation(kind, f"at {tuple(int(i) for i in idx)}: got {a[idx]!r} want {b[idx]!r} "
                              f"(scale {scale[idx]:.3e}); {int(np.sum(bad))}/{a.size} entries differ {detail}")


def cov_scale(C):
    d = np.sqrt(np.abs(np.diag(C)))
    return np.outer(d, d) + np.abs(C)


def dyvec(seed, shape, den=4, hi=8):
    """deterministic dyadic test array (multiples of 1/den in [-hi/den, hi/den]) from the recipe's seed"""
    g = np.random.default_rng(int(seed))
    return g.integers(-hi, hi + 1, size=shape) / float(den)


# ------------------------------------------------------------------ oracle
def expand(p, n):
    """per-step list of a scalar-or-list parameter"""
    if p is None:
        return [0.0] * n
    if isinstance(p, list):
        assert len(p) == n
        return [float(v) for v in p]
    return [float(p)] * n


def is_const(p):
    return not isinstance(p, list) or len(set(p)) == 1


def closed_form_steps(proc, dt, sigma, gamma, asp):
    """textbook (A_k, Q_k) and the SDE (F_k, D_k) of every bin"""
    As, Qs, Fs, Ds = [], [], [], []
    for k, d in enumerate(dt):
        s2 = sigma[k] ** 2
        if proc == "wiener":
            A, Q, F, D = [[1.0]], [[s2 * d]], [[0.0]], [[s2]]
        elif proc == "ou":
            g = gamma[k]
            A, Q, F, D = [[np.exp(-g * d)]], [[-s2 * np.expm1(-2.0 * g * d)]], [[-g]], [[2.0 * g * s2]]
        else:
            a = asp[k]
            A = [[1.0, d], [0.0, 1.0]]
            Q = [[s2 * (d ** 3 / 3.0 + a * d), s2 * d * d / 2.0], [s2 * d * d / 2.0, s2 * d]]
            F = [[0.0, 1.0], [0.0, 0.0]]
            D = [[s2 * a, 0.0], [0.0, s2]]
        As.append(np.array(A))
        Qs.append(np.array(Q))
        Fs.append(np.array(F))
        Ds.append(np.array(D))
    return As, Qs, Fs, Ds


def van_loan(F, D, d):
    """discretisation of dx = F x dt + noise with diffusion matrix D over a step d (Van Loan 1978)"""
    n = F.shape[0]
    M = np.zeros((2 * n, 2 * n))
    M[:n, :n] = -F
    M[:n, n:] = D
    M[n:, n:] = F.T
    E = expm(M * d)
    A = E[n:, n:].T
    Q = A @ E[:n, n:]
    return A, 0.5 * (Q + Q.T)


def recursion(m0, P0, As, Qs):
    """oracle R: means (n+1, d), joint covariance ((n+1) d, (n+1) d), mean magnitude bound"""
    n, d = len(As), len(m0)
    m = [np.array(m0, dtype=np.float64)]
    mabs = [np.abs(m[0])]
    P = [np.array(P0, dtype=np.float64)]
    for k in range(n):
        m.append(As[k] @ m[k])
        mabs.append(np.abs(As[k]) @ mabs[k])
        P.append(As[k] @ P[k] @ As[k].T + Qs[k])
    C = np.zeros((n + 1, d, n + 1, d))
    for i in range(n + 1):
        X = P[i]
        C[i, :, i, :] = X
        for j in range(i + 1, n + 1):
            X = X @ As[j - 1].T
            C[i, :, j, :] = X
            C[j, :, i, :] = X.T
    N = (n + 1) * d
    return np.array(m), C.reshape(N, N), np.array(mabs)


def explicit_sum(P0, As, Qs):
    """oracle K (time-varying): Cov(x_i,x_j) = Phi(i,0) P0 Phi(j,0)^T + sum_k Phi(i,k+1) Q_k Phi(j,k+1)^T"""
    n, d = len(As), As[0].shape[0] if As else len(P0)
    Phi = [[None] * (n + 1) for _ in range(n + 1)]          # Phi[i][k] = A_{i-1} ... A_k
    for k in range(n + 1):
        X = np.eye(d)
        Phi[k][k] = X
        for i in range(k + 1, n + 1):
            X = As[i - 1] @ X
            Phi[i][k] = X
    C = np.zeros((n + 1, d, n + 1, d))
    for i in range(n + 1):
        for j in range(n + 1):
            X = Phi[i][0] @ P0 @ Phi[j][0].T
            for k in range(min(i, j)):
                X = X + Phi[i][k + 1] @ Qs[k] @ Phi[j][k + 1].T
            C[i, :, j, :] = X
    N = (n + 1) * d
    return C.reshape(N, N)


def kernel_constant(proc, t, P0, s, g, a):
    """oracle K (constant parameters): closed-form continuous-time covariance at the times t"""
    n1 = len(t)
    s2 = s * s
    if proc == "wiener":
        return P0[0, 0] + s2 * np.minimum.outer(t, t)
    if proc == "ou":
        dif = np.abs(np.subtract.outer(t, t))
        tot = np.add.outer(t, t)
        return s2 * (np.exp(-g * dif) - np.exp(-g * tot)) + P0[0, 0] * np.exp(-g * tot)
    C = np.zeros((n1, 2, n1, 2))
    for i, u in enumerate(t):
        for j, v in enumerate(t):
            m = min(u, v)
            Pu = np.array([[1.0, u], [0.0, 1.0]])
            Pv = np.array([[1.0, v], [0.0, 1.0]])
            K = s2 * np.array([[u * v * m - (u + v) * m * m / 2.0 + m ** 3 / 3.0 + a * m, u * m - m * m / 2.0],
                               [v * m - m * m / 2.0, m]])
            C[i, :, j, :] = Pu @ P0 @ Pv.T + K
    return C.reshape(2 * n1, 2 * n1)


class Oracle:
    def __init__(self, proc, n, dt, sigma, gamma, asp, m0, P0):
        self.d = 2 if proc == "iwp" else 1
        self.dt = expand(dt, n)
        self.sigma = expand(sigma, n)
        self.gamma = expand(gamma, n)
        self.asp = expand(asp, n)
        m0 = np.atleast_1d(np.array(m0, dtype=np.float64))
        P0 = np.array(P0, dtype=np.float64).reshape(self.d, self.d)
        self.As, self.Qs, Fs, Ds = closed_form_steps(proc, self.dt, self.sigma, self.gamma, self.asp)
        self.mean, self.cov, self.mean_abs = recursion(m0, P0, self.As, self.Qs)
        self.scale = cov_scale(self.cov)
        if proc == "ou":
            # the documented step variance sigma^2 (1 - e^{-2 gamma dt}) carries an absolute round-off of a few eps
            # sigma^2 (cancellation for gamma dt << 1): admit it (1e-6 * TOL = 1e-15) so that slowly damped / finely
            # sampled processes can be generated without flakiness
            self.scale = self.scale + 1e-6 * n * float(np.max(np.abs(self.sigma))) ** 2
        self.t = np.concatenate([[0.0], np.cumsum(self.dt)])
        self.constant = is_const(self.sigma) and is_const(self.gamma) and is_const(self.asp)
        # independent derivation of the continuous-time covariance
        vl = [van_loan(F, D, d) for F, D, d in zip(Fs, Ds, self.dt)]
        self.kernel_vl = explicit_sum(P0, [v[0] for v in vl], [v[1] for v in vl])
        if self.constant:
            self.kernel = kernel_constant(proc, self.t, P0, self.sigma[0], self.gamma[0], self.asp[0])
            self.kernel_kind = "closed_form_kernel"
        else:
            self.kernel = self.kernel_vl
            self.kernel_kind = "van_loan_kernel"
        # oracle self-test: a disagreement is a harness error, never a violation
        for other in (self.kernel, self.kernel_vl):
            assert other.shape == self.cov.shape
            assert np.all(np.abs(other - self.cov) <= 1e-10 * (self.scale + FLOOR)), "oracle self-test failed"
        # deterministic propagation in closed form
        if proc == "wiener":
            ref = np.full((n + 1, 1), m0[0])
        elif proc == "ou":
            G = np.concatenate([[0.0], np.cumsum(np.array(self.gamma) * np.array(self.dt))])
            ref = (m0[0] * np.exp(-G))[:, None]
        else:
            ref = np.stack([m0[0] + m0[1] * self.t, np.full(n + 1, m0[1])], axis=1)
        assert np.all(np.abs(ref - self.mean) <= 1e-12 * (self.mean_abs + FLOOR)), "oracle self-test (mean) failed"


# ------------------------------------------------------------------ NIFTy side
def jarg(p, as0d=False, kind="jnp"):
    import jax.numpy as jnp
    if p is None:
        return None
    if isinstance(p, list):
        return jnp.asarray(p, dtype=jnp.float64) if kind == "jnp" else np.asarray(p, dtype=np.float64)
    return jnp.asarray(float(p)) if as0d else float(p)


_JIT = {}


def batched(which, jit):
    """xi-batched call of one of the functions under test: (X, *parameters) -> stacked outputs.

    jit=True : one module-level compiled program per function, all parameters are arguments, so XLA compiles once
               per shape signature and worker; jit=False: op-by-op (eager) evaluation of the vmapped function."""
    import jax
    from nifty.re import gauss_markov as gm
    key = (which, jit)
    if key in _JIT:
        return _JIT[key]
    if which == "wiener":
        def fn(X, x0, sigma, dt):
            return jax.vmap(lambda xi: gm.wiener_process(xi, x0, sigma, dt))(X)
    elif which == "ou":
        def fn(X, x0, sigma, gamma, dt):
            return jax.vmap(lambda xi: gm.ornstein_uhlenbeck_process(xi, x0, sigma, gamma, dt))(X)
    elif which == "iwp":
        def fn(X, x0, sigma, dt, asp):
            return jax.vmap(lambda xi: gm.integrated_wiener_process(xi, x0, sigma, dt, asp))(X)
    elif which == "iwp_default_asperity":
        def fn(X, x0, sigma, dt):
            return jax.vmap(lambda xi: gm.integrated_wiener_process(xi, x0, sigma, dt))(X)
    elif which == "generic":
        def fn(X, x0, drift, diffamp):
            return jax.vmap(lambda xi: gm.discrete_gauss_markov_process(xi, x0, drift, diffamp))(X)
    else:
        assert which == "scalar"

        def fn(X, x0, drift, diffamp):
            return jax.vmap(lambda xi: gm.scalar_gauss_markov_process(xi, x0, drift, diffamp))(X)
    _JIT[key] = jax.jit(fn) if jit else fn
    return _JIT[key]


def probe_batch(lat):
    """rows: 0, the generated excitation, all unit excitations"""
    k = lat.size
    return np.concatenate([np.zeros((1,) + lat.shape), lat[None], np.eye(k).reshape((k,) + lat.shape)], axis=0)


def affine_parts(F):
    """(f(0), f(xi), L) from the stacked outputs on probe_batch; L[:, k] = f(e_k) - f(0)"""
    F = np.asarray(F, dtype=np.float64)
    out0, out1 = F[0], F[1]
    L = (F[2:] - F[0][None]).reshape(F.shape[0] - 2, -1).T
    return out0, out1, L


def compare_with_oracle(tag, orc, out0, out1, L, lat, classes):
    n1, d = orc.mean.shape
    want_shape = (n1,) if d == 1 else (n1, d)
    require(out0.shape == want_shape, f"{tag}_output_shape", f"{out0.shape} vs {want_shape}")
    require(np.all(np.isfinite(out0)) and np.all(np.isfinite(out1)) and np.all(np.isfinite(L)),
            f"{tag}_nonfinite", "")
    close_el(out0.reshape(n1, d), orc.mean, f"{tag}_mean_vs_deterministic_propagation", orc.mean_abs)
    # affine in the latents (otherwise L L^T would not be the covariance)
    lin = out0.reshape(-1) + L @ lat.reshape(-1)
    close_el(out1.reshape(-1), lin, f"{tag}_not_affine_in_excitations",
             np.abs(out0.reshape(-1)) + np.abs(L) @ np.abs(lat.reshape(-1)))
    cov = L @ L.T
    close_el(cov, orc.cov, f"{tag}_cov_vs_transition_recursion", orc.scale)
    close_el(cov, orc.kernel, f"{tag}_cov_vs_{orc.kernel_kind}", orc.scale)
    classes.append(orc.kernel_kind)


def process_args(proc, rec, traced):
    """(name of the batched function, parameter tuple); traced => every parameter is an array"""
    import jax.numpy as jnp
    as0d = traced or rec.get("as0d", False)
    dt = jarg(rec["dt"], as0d)
    sigma = jarg(rec["sigma"], as0d)
    if proc == "wiener":
        return "wiener", (jarg(rec["x0"], as0d), sigma, dt)
    if proc == "ou":
        return "ou", (jarg(rec["x0"], as0d), sigma, jarg(rec["gamma"], as0d), dt)
    x0 = jnp.asarray(rec["x0"], dtype=jnp.float64)
    if rec["asp"] is None and rec.get("asp_omit", False):
        return "iwp_default_asperity", (x0, sigma, dt)
    return "iwp", (x0, sigma, dt, jarg(rec["asp"], as0d))


def shape_classes(rec, n):
    cl = [f"steps_{'1' if n == 1 else '2_4' if n <= 4 else '5_8' if n <= 8 else '9_12'}"]
    dt = rec["dt"]
    cl.append("dt_scalar" if not isinstance(dt, list) else "dt_uniform" if len(set(dt)) == 1 else "dt_nonuniform")
    for key in ("sigma", "gamma", "asp"):
        if key not in rec:
            continue
        p = rec[key]
        if isinstance(p, dict):
            cl.append(f"{key}_{p['k']}" + ("_per_step" if isinstance(p.get("v"), list) else ""))
        elif p is None:
            cl.append(f"{key}_none")
        elif isinstance(p, list):
            cl.append(f"{key}_per_step")
        else:
            cl.append(f"{key}_zero" if p == 0 else f"{key}_scalar")
    return cl


def varying(rec):
    """non-trivial rule of the process sub-checks"""
    dt = rec["dt"]
    nonuni = isinstance(dt, list) and len(set(dt)) > 1
    perstep = any(isinstance(rec.get(k), list) and len(set(rec[k])) > 1 for k in ("sigma", "gamma", "asp"))
    return rec["n"] >= 2 and (nonuni or perstep)


def check_process(rec):
    import jax.numpy as jnp
    proc, n, jit = rec["proc"], rec["n"], rec["jit"]
    d = 2 if proc == "iwp" else 1
    orc = Oracle(proc, n, rec["dt"], rec["sigma"], rec.get("gamma"), rec.get("asp"),
                 rec["x0"], np.zeros((d, d)))
    lat = dyvec(rec["seed"], (n, 2) if d == 2 else (n,))
    X = jnp.asarray(probe_batch(lat))
    classes = shape_classes(rec, n)
    if rec.get("as0d") or jit:
        classes.append("scalars_as_0d_arrays")
    classes.append("exec_jit" if jit else "exec_eager")
    which, args = process_args(proc, rec, jit)
    out0, out1, L = affine_parts(batched(which, jit)(X, *args))
    compare_with_oracle(proc, orc, out0, out1, L, lat, classes)
    # documented: first entry is x0
    close_el(out1.reshape(n + 1, d)[0], np.atleast_1d(np.array(rec["x0"], dtype=np.float64)),
             f"{proc}_first_entry_is_x0", 0.0)

    # ---- generic generator fed the oracle's transition (A_k, chol Q_k): same law
    # (always through the shape-cached compiled entry points; exec mode applies to the specialised process)
    x0v = jnp.asarray(np.atleast_1d(np.array(rec["x0"], dtype=np.float64)))
    drift = np.stack(orc.As)
    amp = np.stack([np.linalg.cholesky(Q) for Q in orc.Qs])
    single = (rec.get("generic_single", False) and orc.constant
              and not (isinstance(rec["dt"], list) and len(set(rec["dt"])) > 1))
    classes.append("generic_single_matrix" if single else "generic_matrix_sequence")
    sel = (lambda a: jnp.asarray(a[0])) if single else jnp.asarray     # homogeneous chain: one matrix, no sequence
    Xg = X.reshape(X.shape[0], n, d)
    if d == 1:
        # 1x1 factor (unique up to sign): the scalar wrapper must reproduce the path of the specialised process
        if single:
            sd, sa = drift[0, 0, 0], amp[0, 0, 0]
            sd, sa = jnp.asarray(sd), jnp.asarray(sa)
        else:
            sd, sa = jnp.asarray(drift[:, 0, 0]), jnp.asarray(amp[:, 0, 0])
        use_wrapper = rec.get("wrapper", True)
        if use_wrapper:
            G = batched("scalar", True)(X, jarg(rec["x0"], True), sd, sa)
            classes.append("scalar_wrapper")
            G = np.asarray(G)[:, :, None]
        else:
            G = batched("generic", True)(Xg, x0v, sel(drift), sel(amp))
        g0, g1, Lg = affine_parts(G)
        pth = g1
    else:
        g0, g1, Lg = affine_parts(batched("generic", True)(Xg, x0v, sel(drift), sel(amp)))
        # the upper-triangular factor of the repository's own test reproduces the IWP path-wise
        up = np.zeros((n, 2, 2))
        for k in range(n):
            dk, sk, ak = orc.dt[k], orc.sigma[k], orc.asp[k]
            up[k] = sk * np.sqrt(dk) * np.array([[np.sqrt(dk * dk / 12.0 + ak), dk / 2.0], [0.0, 1.0]])
            assert np.allclose(up[k] @ up[k].T, orc.Qs[k], rtol=1e-12, atol=0)
        pth = np.asarray(batched("generic", True)(Xg, x0v, sel(drift), sel(up)))[1]
    require(g0.shape == (n + 1, d), "generic_output_shape", f"{g0.shape}")
    close_el(g0, orc.mean, "generic_fed_transition_mean", orc.mean_abs)
    close_el(g1.reshape(-1), g0.reshape(-1) + Lg @ lat.reshape(-1), "generic_not_affine_in_excitations",
             np.abs(g0.reshape(-1)) + np.abs(Lg) @ np.abs(lat.reshape(-1)))
    close_el(Lg @ Lg.T, orc.cov, "generic_fed_transition_cov_vs_recursion", orc.scale)
    close_el(Lg @ Lg.T, L @ L.T, f"generic_vs_{proc}_covariance", orc.scale)
    path_scale = np.abs(out0.reshape(-1)) + np.abs(L) @ np.abs(lat.reshape(-1))
    if proc == "ou":
        # the specialised function computes its step amplitude as sigma*sqrt(1 - e^{-2 gamma dt}) (cancellation for
        # gamma dt << 1, absolute error <= sigma*eps/(2 sqrt(2 gamma dt))), the generic one is fed the oracle's
        # expm1-based amplitude: admit that documented-formula round-off (gamma dt >= 2^-32 in the generated range)
        path_scale = path_scale + 4e-3 * float(np.max(np.abs(orc.sigma))) * float(np.sum(np.abs(lat)))
    close_el(pth.reshape(-1), out1.reshape(-1),
             f"scalar_generic_vs_{proc}_path" if d == 1 else "generic_vs_iwp_path_upper_factor", path_scale)
    return dict(nontrivial=varying(rec), classes=classes)


# ------------------------------------------------------------------ generic generator vs docstring recursion
NB = 3          # excitation vectors per generic case


def check_generic(rec):
    import jax.numpy as jnp
    n, d, m, jit = rec["n"], rec["d"], rec["m"], rec["jit"]
    classes = [f"dim_{d}", f"steps_{'1' if n == 1 else '2_4' if n <= 4 else '5_12'}",
               "exec_jit" if jit else "exec_eager"]
    if rec["mode"] == "scalar":
        # scalar wrapper: drift / diffamp scalars or per-step vectors
        dr, da = rec["drift"], rec["diffamp"]
        xi = dyvec(rec["seed"], (NB, n))
        x0 = rec["x0"]
        as0d = jit or rec["as0d"]
        res = np.asarray(batched("scalar", jit)(jnp.asarray(xi), jarg(x0, as0d), jarg(dr, as0d), jarg(da, as0d)))
        require(res.shape == (NB, n + 1), "scalar_generic_output_shape", f"{res.shape}")
        drl, dal = expand(dr, n), expand(da, n)
        for b in range(NB):
            ref, mag = [float(x0)], [abs(float(x0))]
            for i in range(n):
                ref.append(drl[i] * ref[i] + dal[i] * xi[b, i])
                mag.append(abs(drl[i]) * mag[i] + abs(dal[i] * xi[b, i]))
            close_el(res[b], np.array(ref), "scalar_generic_vs_docstring_recursion", np.array(mag))
        classes += ["scalar_wrapper", "drift_" + ("seq" if isinstance(dr, list) else "scalar"),
                    "diffamp_" + ("seq" if isinstance(da, list) else "scalar")]
        nt = n >= 2 and (isinstance(dr, list) or isinstance(da, list))
        return dict(nontrivial=nt, classes=classes)
    drs = dyvec(rec["seed"] + 1, (n, d, d), den=8, hi=10)
    das = dyvec(rec["seed"] + 2, (n, d, m), den=4, hi=6)
    xi = dyvec(rec["seed"], (NB, n, m))
    x0 = dyvec(rec["seed"] + 3, (d,))
    if rec["drift_single"]:
        drs[:] = drs[0]
    if rec["diffamp_single"]:
        das[:] = das[0]
    if rec["mode"] == "scalar_args":        # d == m == 1, scalars handed to the generic function
        sc = (lambda v: jnp.asarray(float(v))) if jit else float
        jd = sc(drs[0, 0, 0]) if rec["drift_single"] else jnp.asarray(drs)
        ja = sc(das[0, 0, 0]) if rec["diffamp_single"] else jnp.asarray(das)
        classes.append("scalar_args")
    else:
        jd = jnp.asarray(drs[0]) if rec["drift_single"] else jnp.asarray(drs)
        ja = jnp.asarray(das[0]) if rec["diffamp_single"] else jnp.asarray(das)
    res = np.asarray(batched("generic", jit)(jnp.asarray(xi), jnp.asarray(x0), jd, ja))
    require(res.shape == (NB, n + 1, d), "generic_output_shape", f"{res.shape}")
    for b in range(NB):
        ref, mag = [x0], [np.abs(x0)]
        for i in range(n):
            ref.append(drs[i] @ ref[i] + das[i] @ xi[b, i])
            mag.append(np.abs(drs[i]) @ mag[i] + np.abs(das[i]) @ np.abs(xi[b, i]))
        close_el(res[b], np.array(ref), "generic_vs_docstring_recursion", np.array(mag))
    classes += ["drift_" + ("single" if rec["drift_single"] else "seq"),
                "diffamp_" + ("single" if rec["diffamp_single"] else "seq")]
    if m != d:
        classes.append("rectangular_diffamp")
    nt = n >= 2 and d >= 2 and not (rec["drift_single"] and rec["diffamp_single"])
    return dict(nontrivial=nt, classes=classes)


# ------------------------------------------------------------------ model classes
def lognormal_value(mean, std, lat):
    """log-normal with the given mean and standard deviation as a function of a standard normal"""
    s2 = np.log1p((std / mean) ** 2)
    return np.exp(np.log(mean) - 0.5 * s2 + np.sqrt(s2) * lat)


def hyper(spec, key, n, pos, used):
    """(constructor argument, numeric per-call value) of a sigma / gamma / asperity specification"""
    import jax.numpy as jnp
    import nifty.re as jft
    k = spec["k"]
    if k == "none":
        return None, None
    if k == "fix":
        v = spec["v"]
        return jarg(v, kind=spec.get("arr", "np")), v
    if k == "tuple":
        used.add(key)
        return (spec["m"], spec["s"]), float(lognormal_value(spec["m"], spec["s"], float(pos[key])))
    # user model: base * exp(w * latent), latent of the shape of base
    base = spec["v"]
    w = spec["w"]
    ukey = "u_" + key
    shp = (n,) if isinstance(base, list) else ()
    jb = jnp.asarray(base, dtype=jnp.float64)
    mdl = jft.Model(lambda x: jb * jnp.exp(w * x[ukey]), domain={ukey: jft.ShapeWithDtype(shp)}, white_init=True)
    used.add(ukey)
    val = np.asarray(base, dtype=np.float64) * np.exp(w * np.asarray(pos[ukey], dtype=np.float64))
    return mdl, (val.tolist() if isinstance(base, list) else float(val))


def check_models(rec):
    import jax
    import jax.numpy as jnp
    import nifty.re as jft
    from nifty.re import gauss_markov as gm
    proc, n, name = rec["proc"], rec["n"], rec["name"]
    d = 2 if proc == "iwp" else 1
    classes = shape_classes(rec, n)
    # ---- time grid
    if isinstance(rec["dt"], list):
        dt_arg, nsteps = np.asarray(rec["dt"], dtype=np.float64), (n if rec.get("nsteps_too") else None)
    else:
        dt_arg, nsteps = float(rec["dt"]), n
    # ---- latent values (dyadic), one generator per key in sorted order => independent of dict order
    xshape = (n, 2) if d == 2 else (n,)
    pos = {name: dyvec(rec["seed"], xshape)}
    ukey_of = {"u_sigma": "sigma", "u_gamma": "gamma", "u_asperity": "asp"}
    for i, key in enumerate(sorted({name + "_x0", name + "_sigma", name + "_gamma", name + "_asperity",
                                    "u_x0", "u_sigma", "u_gamma", "u_asperity"})):
        if key in (name + "_x0", "u_x0"):
            shp = (2,) if d == 2 else ()
        elif key in ukey_of and isinstance(rec.get(ukey_of[key], {}).get("v"), list):
            shp = (n,)
        else:
            shp = ()
        pos[key] = dyvec(rec["seed"] + 11 + i, shp, den=4, hi=6)
    used = {name}
    # ---- hyper parameters
    sig_arg, sig_val = hyper(rec["sigma"], name + "_sigma" if rec["sigma"]["k"] == "tuple" else "sigma", n, pos, used)
    kw_vals = {"sigma": sig_val}
    gam_arg = asp_arg = None
    if proc == "ou":
        gam_arg, kw_vals["gamma"] = hyper(rec["gamma"], name + "_gamma" if rec["gamma"]["k"] == "tuple" else "gamma",
                                          n, pos, used)
    if proc == "iwp":
        asp_arg, kw_vals["asp"] = hyper(rec["asp"], name + "_asperity" if rec["asp"]["k"] == "tuple" else "asperity",
                                        n, pos, used)
    # ---- x0
    x0s = rec["x0"]
    gauss_keys = [name]
    if x0s["k"] == "fix":
        x0_arg = jnp.asarray(x0s["v"], dtype=jnp.float64) if d == 2 else float(x0s["v"])
        m0, P0, x0_val = x0s["v"], np.zeros((d, d)), x0s["v"]
    elif x0s["k"] == "tuple":
        if d == 2:
            x0_arg = (np.asarray(x0s["m"], dtype=np.float64), np.asarray(x0s["s"], dtype=np.float64))
        else:
            x0_arg = (float(x0s["m"]), float(x0s["s"]))
        key = name + "_x0"
        used.add(key)
        gauss_keys.append(key)
        m0 = x0s["m"]
        P0 = np.diag(np.atleast_1d(np.asarray(x0s["s"], dtype=np.float64)) ** 2)
        x0_val = (np.asarray(x0s["m"]) + np.asarray(x0s["s"]) * pos[key]).tolist()
    elif x0s["k"] == "model":
        key = "u_x0"
        shp = (2,) if d == 2 else ()
        jm = jnp.asarray(x0s["m"], dtype=jnp.float64)
        js = jnp.asarray(x0s["s"], dtype=jnp.float64)
        x0_arg = jft.Model(lambda x: jm + js * x[key], domain={key: jft.ShapeWithDtype(shp)}, white_init=True)
        used.add(key)
        gauss_keys.append(key)
        m0 = x0s["m"]
        P0 = np.diag(np.atleast_1d(np.asarray(x0s["s"], dtype=np.float64)) ** 2)
        x0_val = (np.asarray(x0s["m"]) + np.asarray(x0s["s"]) * pos[key]).tolist()
    else:                            # OU only: default = steady state of the first bin
        assert proc == "ou"
        x0_arg = None
        key = name + "_x0"
        used.add(key)
        gauss_keys.append(key)
        s0 = expand(sig_val, n)[0]
        m0, P0, x0_val = 0.0, np.array([[s0 * s0]]), float(s0 * pos[key])
    classes.append("x0_" + x0s["k"])
    classes.append("proc_" + proc)
    # ---- build
    if proc == "wiener":
        mdl = jft.WienerProcess(x0_arg, sig_arg, dt_arg, name=name, N_steps=nsteps)
        bare = lambda xi: gm.wiener_process(xi, jarg(x0_val), jarg(sig_val), jnp.asarray(expand(rec["dt"], n)))
    elif proc == "ou":
        mdl = jft.OrnsteinUhlenbeckProcess(sig_arg, gam_arg, dt_arg, name=name, x0=x0_arg, N_steps=nsteps)
        bare = lambda xi: gm.ornstein_uhlenbeck_process(xi, jarg(x0_val), jarg(sig_val), jarg(kw_vals["gamma"]),
                                                        jnp.asarray(expand(rec["dt"], n)))
    else:
        mdl = jft.IntegratedWienerProcess(x0_arg, sig_arg, dt_arg, name=name, asperity=asp_arg, N_steps=nsteps)
        bare = lambda xi: gm.integrated_wiener_process(xi, jnp.asarray(x0_val, dtype=jnp.float64), jarg(sig_val),
                                                       jnp.asarray(expand(rec["dt"], n)), jarg(kw_vals["asp"]))
    # ---- documented domain
    dom = mdl.domain
    require(isinstance(dom, dict) and set(dom.keys()) == used, "model_domain_keys", f"{sorted(dom.keys())} vs {sorted(used)}")
    for k in used:
        require(tuple(dom[k].shape) == tuple(np.shape(pos[k])), "model_domain_shape",
                f"{k}: {dom[k].shape} vs {np.shape(pos[k])}")
    x = {k: jnp.asarray(pos[k]) for k in used}
    classes.append("exec_jit" if rec["jit"] else "exec_eager")
    orc = Oracle(proc, n, rec["dt"], sig_val, kw_vals.get("gamma"), kw_vals.get("asp"), m0, P0)
    sizes = [int(np.prod(np.shape(pos[k]), dtype=np.int64)) for k in gauss_keys]
    lat = np.concatenate([np.asarray(pos[k], dtype=np.float64).reshape(-1) for k in gauss_keys])

    def f(flat):                     # the model as a function of its standard-normal (non-hyper) latents
        y = dict(x)
        o = 0
        for k, s in zip(gauss_keys, sizes):
            y[k] = flat[o:o + s].reshape(np.shape(pos[k]))
            o += s
        return mdl(y)

    def everything(xx, B):
        return mdl(xx), bare(xx[name]), jax.vmap(f)(B)

    out, ref, F = (jax.jit(everything) if rec["jit"] else everything)(x, jnp.asarray(probe_batch(lat)))
    out, ref = np.asarray(out), np.asarray(ref)
    out0, out1, L = affine_parts(F)
    want_shape = (n + 1, 2) if d == 2 else (n + 1,)
    require(out.shape == want_shape, "model_output_shape", f"{out.shape} vs {want_shape}")
    # ---- model == bare function for the same latent input
    close_el(out, ref, f"{proc}_model_vs_bare_function", np.abs(ref) + 1.0, tol=1e-10)
    # ---- exact covariance of the model conditional on the hyper-parameter latents
    close_el(out1.reshape(-1), out.reshape(-1), "model_flat_vs_dict_evaluation",
             np.abs(out0.reshape(-1)) + np.abs(L) @ np.abs(lat), tol=1e-12)
    compare_with_oracle(proc + "_model", orc, out0, out1, L, lat, classes)
    if x0s["k"] == "none" and orc.constant:
        classes.append("ou_stationary")
        dif = np.abs(np.subtract.outer(orc.t, orc.t))
        close_el(L @ L.T, orc.sigma[0] ** 2 * np.exp(-orc.gamma[0] * dif), "ou_default_x0_not_steady_state", orc.scale)
    nt = len(used) >= 2 and n >= 2
    return dict(nontrivial=nt, classes=classes)


# ------------------------------------------------------------------ strategies
DT = S.dyadic_nz(1 / 8, 2.0, 8, signed=False)
SIG = S.dyadic_nz(1 / 4, 3.0, 4, signed=False)
GAM = S.dyadic_nz(1 / 8, 2.0, 8, signed=False)
ASP = S.dyadic(0.0, 2.0, 8)
X0 = S.dyadic(-4.0, 4.0, 8)
SEED = st.integers(0, 2 ** 31 - 1)


def _steps(draw, tier):
    return draw(st.sampled_from([1, 2, 4, 4, 7, 7, 12] if tier == "quick" else list(range(1, 13))))


def _param(draw, elem, n, p_list=0.7):
    if draw(st.floats(0, 1)) < p_list:
        return draw(S.vec(n, elem))
    return draw(elem)


def _dt(draw, n, allow_scalar=True):
    how = draw(st.sampled_from(["list", "list", "list", "uniform", "scalar" if allow_scalar else "list"]))
    if how == "list":
        return draw(S.vec(n, DT))
    v = draw(DT)
    return [v] * n if how == "uniform" else v


def process_recipes(proc):
    def strategy(tier):
        @st.composite
        def rec(draw):
            jit = draw(st.integers(0, 7)) != 0
            # op-by-op execution compiles every primitive once per array shape: keep to two lengths in the quick tier
            n = _steps(draw, tier) if jit or tier != "quick" else draw(st.sampled_from([2, 5]))
            # homogeneous chain (all parameters constant, uniform grid): closed-form kernel, single-matrix generic call
            homog = draw(st.integers(0, 4)) == 0
            pl = 0.0 if homog else 0.7
            dt = draw(st.sampled_from([draw(DT), [draw(DT)] * n])) if homog else _dt(draw, n)
            r = {"proc": proc, "n": n, "dt": dt, "sigma": _param(draw, SIG, n, pl),
                 "seed": draw(SEED), "as0d": draw(st.booleans()), "generic_single": homog or draw(st.booleans()),
                 "jit": jit, "wrapper": draw(st.booleans())}
            if proc == "ou":
                r["gamma"] = _param(draw, GAM, n, pl)
                # slow damping relative to the step (gamma dt down to ~1e-8): the regime of long correlation lengths
                k = draw(st.sampled_from([0, 0, 0, 8, 16, 22, 26]))
                if k:
                    r["gamma"] = [g * 2.0 ** -k for g in r["gamma"]] if isinstance(r["gamma"], list) \
                        else r["gamma"] * 2.0 ** -k
            if proc == "iwp":
                r["x0"] = [draw(X0), draw(X0)]
                how = draw(st.sampled_from(["none", "omit", "zero", "val", "val", "val", "val", "val"]))
                if how in ("none", "omit"):
                    r["asp"] = None
                    r["asp_omit"] = how == "omit"
                elif how == "zero":
                    r["asp"] = 0.0
                else:
                    r["asp"] = _param(draw, ASP, n, pl)
            else:
                r["x0"] = draw(X0)
            return r
        return rec()
    return strategy


def generic_recipes(tier):
    @st.composite
    def rec(draw):
        n = draw(st.sampled_from([1, 2, 4, 7, 12] if tier == "quick" else list(range(1, 13))))
        mode = draw(st.sampled_from(["matrix", "matrix", "matrix", "matrix", "scalar", "scalar_args"]))
        if mode == "scalar":
            E = S.dyadic(-2.0, 2.0, 8)
            return {"mode": mode, "n": n, "d": 1, "m": 1, "drift": _param(draw, E, n, 0.5),
                    "diffamp": _param(draw, E, n, 0.5), "x0": draw(X0), "seed": draw(SEED), "as0d": draw(st.booleans()),
                    "jit": draw(st.integers(0, 3)) != 0}
        d = 1 if mode == "scalar_args" else draw(st.sampled_from([1, 2, 2, 3, 3]))
        m = d if mode == "scalar_args" or draw(st.integers(0, 3)) else draw(st.sampled_from([1, 2, 3]))
        ds, as_ = draw(st.sampled_from([False, False, True])), draw(st.sampled_from([False, False, True]))
        return {"mode": mode, "n": n, "d": d, "m": m, "drift_single": ds, "diffamp_single": as_, "seed": draw(SEED),
                "jit": draw(st.integers(0, 3)) != 0}
    return rec()


def _hyper(draw, elem, n, allow_none=False, pl=None):
    kinds = ["fix", "fix", "tuple", "model"] + (["none"] if allow_none else [])
    k = draw(st.sampled_from(kinds))
    if k == "none":
        return {"k": "none"}
    if k == "fix":
        return {"k": "fix", "v": _param(draw, elem, n, 0.7 if pl is None else pl), "arr": draw(st.sampled_from(["np", "jnp"]))}
    if k == "tuple":
        return {"k": "tuple", "m": draw(S.dyadic_nz(0.5, 2.0, 4, signed=False)), "s": draw(S.dyadic_nz(0.25, 1.0, 4, signed=False))}
    base = _param(draw, elem if elem is not ASP else S.dyadic_nz(1 / 8, 2.0, 8, signed=False), n,
                  0.5 if pl is None else pl)
    return {"k": "model", "v": base, "w": draw(st.sampled_from([0.25, 0.5]))}


def model_recipes(tier):
    @st.composite
    def rec(draw):
        proc = draw(st.sampled_from(["wiener", "iwp", "ou"]))
        n = draw(st.sampled_from([1, 3, 3, 6, 6] if tier == "quick" else list(range(1, 13))))
        homog = draw(st.integers(0, 4)) == 0        # constant parameters: closed-form kernel, stationary OU
        pl = 0.0 if homog else None
        r = {"proc": proc, "n": n, "dt": _dt(draw, n), "name": draw(st.sampled_from(["wp", "iwp", "oup", "gm", "xi"])),
             "seed": draw(SEED), "jit": draw(st.integers(0, 5)) == 0, "nsteps_too": draw(st.booleans()),
             "sigma": _hyper(draw, SIG, n, pl=pl)}
        if proc == "ou":
            r["gamma"] = _hyper(draw, GAM, n, pl=pl)
        if proc == "iwp":
            r["asp"] = _hyper(draw, ASP, n, allow_none=True, pl=pl)
        xk = draw(st.sampled_from(["fix", "tuple", "model"] + (["none", "none", "none"] if proc == "ou" else [])))
        P = S.dyadic_nz(0.25, 2.0, 4, signed=False)
        if xk == "none":
            r["x0"] = {"k": "none"}
        elif xk == "fix":
            r["x0"] = {"k": "fix", "v": [draw(X0), draw(X0)] if proc == "iwp" else draw(X0)}
        else:
            r["x0"] = {"k": xk, "m": [draw(X0), draw(X0)] if proc == "iwp" else draw(X0),
                       "s": [draw(P), draw(P)] if proc == "iwp" else draw(P)}
        return r
    return rec()


NT = "non-trivial = >= 2 steps and (non-uniform dt or a per-step parameter that actually varies)"
SUBS = [
    Sub(name="wiener", check=check_process, strategy=process_recipes("wiener"), quick=72, thorough=2400, shards=3,
        jax=True, budget_quick=120.0,
        rule="wiener_process: mean == x0, L L^T == recursion (Q = sigma^2 dt) == kernel int_0^min sigma(t)^2 dt; "
             "generic / scalar generator fed (1, sigma sqrt(dt)) agrees; " + NT),
    Sub(name="integrated_wiener", check=check_process, strategy=process_recipes("iwp"), quick=96, thorough=3200,
        shards=4, jax=True, budget_quick=120.0,
        rule="integrated_wiener_process with asperity None / 0 / scalar / per-step: mean == x0 + v0 t, full 2(N+1) "
             "covariance == recursion (A=[[1,dt],[0,1]], Q=sigma^2[[dt^3/3+a dt, dt^2/2],[dt^2/2, dt]]) == kernel "
             "(closed form / Van Loan); generic generator fed (A_k, chol Q_k) has the same law; " + NT),
    Sub(name="ornstein_uhlenbeck", check=check_process, strategy=process_recipes("ou"), quick=72, thorough=2400,
        shards=3, jax=True, budget_quick=120.0,
        rule="ornstein_uhlenbeck_process: mean == x0 exp(-int gamma), covariance == recursion (A=e^{-gamma dt}, "
             "Q=sigma^2(1-e^{-2 gamma dt})) == kernel sigma^2(e^{-gamma|t-s|}-e^{-gamma(t+s)}) / Van Loan; "
             "scalar generator agrees path-wise; " + NT),
    Sub(name="generic", check=check_generic, strategy=generic_recipes, quick=96, thorough=3200, shards=2, jax=True,
        budget_quick=120.0,
        rule="discrete_gauss_markov_process / scalar_gauss_markov_process with generated drift and diffamp (single "
             "matrix or sequence, scalars, rectangular diffamp) == NumPy evaluation of the docstring recursion; "
             "non-trivial = >= 2 steps, a per-step sequence, and (matrix mode) state dimension >= 2"),
    Sub(name="models", check=check_models, strategy=model_recipes, quick=96, thorough=1600, shards=4, jax=True,
        budget_quick=120.0,
        rule="WienerProcess / IntegratedWienerProcess / OrnsteinUhlenbeckProcess with fixed, tuple-prior, user-model "
             "and default (OU steady state) parameters, scalar dt + N_steps or array dt, eager and jit: domain keys "
             "and shapes, model(x) == bare function at the same latent input, covariance w.r.t. all standard-normal "
             "latents (xi and x0) conditional on hyper-latents == oracle with P0 = prior variance of x0; "
             "non-trivial = >= 2 steps and >= 2 latent keys"),
]
