"""C35 - response operators compute their documented quantity (DESIGN 2/C35).

Every sub-check compares the operator with a quantity written down here from the documentation (class docstrings,
the conventions fixed by the repository's own tests test_nft.py / test_sampling_los.py and the ducc0 docstrings the
operators delegate to); none of the references calls NIFTy.

Conventions the oracles are built from
* RGSpace: pixel i of an axis sits at position i*distance (pixel centre); LOSResponse treats the field as piecewise
  constant on the boxes [(i-1/2) d, (i+1/2) d] (the `+0.5` of the implementation; the same convention as the FFT
  origin at pixel 0 and as LinearInterpolator/RegriddingOperator, where pixel i is the sample at i*d).
* LOSResponse(sigmas=None): result_l = integral of the field along the straight segment starts[:, l] -> ends[:, l];
  parts of the segment outside the grid volume contribute nothing.  Weights are stored as float32 and the traversal
  is shortened by 1e-7 (in units of the segment) at both ends: tolerance 1e-6 * segment length * max|field|.
* nifty.re.SamplingCartesianGridLOS: mid-point rule with n_sampling_points samples of the multilinear interpolant;
  the input array holds the values at the nodes x_i = i * (n*d)/(n-1), i.e. the first/last node sit on the faces 0
  and n*d of the volume (this is what test_sampling_los.py demands: position 0 <-> index 0, n*d <-> index n-1).
* Nufft / Gridder (test_nft.py, ducc0.nufft `fft_order=False`, `forward=False` = exponent +1):
      times(x)[j]         = Re sum_k x_k exp(+2 pi i sum_a pos[k,a] d_a (j_a - n_a//2))
      adjoint_times(g)[k] =    sum_j g_j exp(-2 pi i sum_a pos[k,a] d_a (j_a - n_a//2))
  accuracy parameter eps: l2 error <= 10 eps sqrt(#outputs) ||input||_1 (the repository test uses 10 eps relative l2).
* VariablePositionNufft (type 2): val[(b,) k] = sum_j grid[(b,) j] exp(-2 pi i sum_a coord[k,a] d_a (j_a - n_a//2)).
* ShiftedPositionFFT: dvol * sum_{j'} x[j' mod n] exp(-2 pi i sum_a (k_a(m) + delta_a(m)/(n_a d_a)) d_a j'_a) with
  the centred index j'_a = -(n_a//2) .. n_a - n_a//2 - 1 and k(m) the FFT frequency of harmonic pixel m;
  delta = 0 is the FFT, integer delta the neighbouring FFT frequency (docstring).
* LinearInterpolator: multilinear interpolation between the samples at i*d, periodic (sample n == sample 0).
* RegriddingOperator: new pixel j sits at j * (n d / m); linear interpolation between the old samples.
* FieldZeroPadder: end padding keeps index i; central padding keeps the first n//2+1 entries at the start and the
  last n//2 entries at the end (for even n the Nyquist entry appears twice: "currently not split up").
* MaskOperator: the unflagged pixels (flag converts to False) in C order.

Genuine defects found with this module (fix diffs in /verif/fixes/C35_*.diff, regression recipes in corpus/C35):
  - SamplingCartesianGridLOS with start and end both of the documented shape (n_dim,) returns n_dim meaningless
    numbers (vmap over the coordinate axis) instead of the one line integral;
  - SamplingCartesianGridLOS declares target shape end.shape = (n_points, n_dim) but returns (n_points,);
  - Nufft.times, Gridder.times, VariablePositionNufft and ShiftedPositionFFT crash inside ducc ("data type mismatch" /
    "not yet supported") for real-valued (float64) input fields.
"""
from fractions import Fraction

import numpy as np
from hypothesis import strategies as st

import nifty.cl as ift
from vlib import Sub, Violation, close, require

PROPERTY = "C35"
LEVEL = "exploration"
RULE = ("Generated RG grids (1-3 axes, <= 8 pixels per axis, generated distances), line segments (inside the volume, "
        "crossing it, missing it, axis-parallel, through pixel corners), NUFFT positions (off-grid, on FFT grid points, "
        "far outside the first period) with eps in {default, 1e-4, 1e-8, 2e-10}, interpolation points up to two "
        "periods outside the box, regridding / padding shapes, masks of every density; every operator is compared "
        "with its documented quantity evaluated independently in NumPy: exact segment/pixel-box intersection "
        "lengths, closed-form line integrals of multilinear functions, explicit Fourier sums, closed-form "
        "multilinear functions, explicit index loops.")
LEVEL_TEXT = ("Search over generated geometries; each case compares complete outputs (every line of sight, every "
              "pixel weight via the adjoint, every Fourier sum) with an independently written reference, so a "
              "shifted pixel-centre convention, a flipped exponent sign, a dropped periodic wrap or an off-by-one in "
              "an index map is seen on the first non-degenerate case. Exploration, not exhaustive: grids of at most "
              "8 pixels per axis, at most 3 axes, float64 on the host CPU.")
LEVEL_NOTE = ("Trusted: numpy, numpy.fft, the polynomial arithmetic of numpy.polynomial. Conventions that the "
              "docstrings leave implicit (pixel centres at i*d for LOSResponse; node positions of "
              "SamplingCartesianGridLOS; centred Fourier index j - n//2 and exponent signs of Nufft/Gridder) are "
              "taken from the repository's own tests and the ducc0 docstrings, see module docstring. The nufft-vs-FFT "
              "sub-check compares two NIFTy operators because that equality is part of the property; both sides are "
              "also compared with numpy.fft.")
TECHNIQUE = "PBT: brute-force geometric / explicit-sum / closed-form reference models + metamorphic relations"
ASSUMPTIONS = [
    "LOSResponse only with sigmas=None (the parallax model is covered by C02's definition check)",
    "segments that run exactly inside a pixel face (axis-parallel on a cell boundary) are not generated: the line "
    "integral of a piecewise constant field is ambiguous there; zero-length segments are not generated",
    "LOSResponse tolerance 1e-6 * |segment| * max|field| (float32 weights, 1e-7 end shortening in the implementation)",
    "SamplingCartesianGridLOS: segments inside the volume [0, n d]; axes of length >= 2; interpolation order 1; error "
    "bound |result - integral| <= |segment| max|g''| / (24 n_sampling_points^2) for g(t) = f(start + t (end-start))",
    "NUFFT accuracy: l2 error <= 10 eps sqrt(#outputs) ||input||_1 (value), with the analogous first-order bound for "
    "the Jacobian of VariablePositionNufft",
    "Gridder only on 2-D grids with even pixel numbers (constructor requirement)",
    "point data of Nufft/Gridder and grids of VariablePositionNufft/ShiftedPositionFFT are complex in 4 of 5 cases and "
    "real-valued (float64 fields, a subset of the complex numbers; the docstrings do not restrict the dtype and "
    "Nufft.adjoint_times converts explicitly) in 1 of 5; the Jacobian adjoint is compared for complex grids only",
    "SamplingCartesianGridLOS: start and end each of shape (n_points, n_dim) or (n_dim,) as documented, including both "
    "(n_dim,) = one line of sight (result must then have exactly one entry); the declared Model.target shape must "
    "equal the shape of the returned array",
    "RegriddingOperator: no axis of length 1 in the domain (recorded finding C02 regrid_len1)",
    "MatrixProductOperator is not part of this property",
    "test fields are dyadic numbers derived deterministically from an integer seed stored in the recipe",
]

SEED = st.integers(0, 2**31 - 1)
DIST = st.sampled_from([0.25, 0.5, 0.75, 1.0, 1.5, 2.0])


def dy(rng, shape, cplx=False, lim=16, den=8.0):
    """dyadic test values k/den, |k| <= lim"""
    v = rng.integers(-lim, lim + 1, size=shape) / den
    if cplx:
        v = v + 1j * rng.integers(-lim, lim + 1, size=shape) / den
    return v


def field_of(dom, arr):
    return ift.makeField(dom, np.array(arr))


def out_array(f, dom, kind):
    """result field -> ndarray; the result must live on the declared domain"""
    require(isinstance(f, ift.Field), kind + ":type", f"{type(f)}")
    require(f.domain == dom, kind + ":domain", f"{f.domain} vs declared {dom}")
    return np.asarray(f.asnumpy())


# ====================================================================== LOSResponse
def _clip_lengths(lo, hi, s, e):
    """exact length of the part of the segment s->e inside each axis-aligned box prod_a [lo_a[i_a], hi_a[i_a]]
    (lo, hi: one 1-D array per axis); returns an array over the boxes"""
    nd = len(lo)
    v = e - s
    L = float(np.sqrt(np.sum(v * v)))
    shape = tuple(len(l) for l in lo)
    tlo = np.full(shape, 0.0)
    thi = np.full(shape, 1.0)
    for a in range(nd):
        if v[a] == 0.0:
            ok = (lo[a] < s[a]) & (s[a] < hi[a])
            t0 = np.where(ok, -np.inf, np.inf)
            t1 = np.where(ok, np.inf, -np.inf)
        else:
            ta, tb = (lo[a] - s[a]) / v[a], (hi[a] - s[a]) / v[a]
            t0, t1 = np.minimum(ta, tb), np.maximum(ta, tb)
        bs = [1] * nd
        bs[a] = shape[a]
        tlo = np.maximum(tlo, t0.reshape(bs))
        thi = np.minimum(thi, t1.reshape(bs))
    with np.errstate(invalid="ignore"):
        d = thi - tlo
    d = np.where(np.isfinite(d), d, 0.0)
    return np.maximum(d, 0.0) * L


def los_weights(shape, dist, s, e):
    lo = [(np.arange(n) - 0.5) * d for n, d in zip(shape, dist)]
    hi = [l + d for l, d in zip(lo, dist)]
    return _clip_lengths(lo, hi, s, e)


def los_inside_length(shape, dist, s, e):
    lo = [np.array([-0.5 * d]) for d in dist]
    hi = [np.array([(n - 0.5) * d]) for n, d in zip(shape, dist)]
    return float(_clip_lengths(lo, hi, s, e).reshape(-1)[0])


def _los_points(draw, shape, nlos):
    """integer coordinates in units of dist/16; pixel i covers [16 i - 8, 16 i + 8]"""
    S_, E_, kinds = [], [], []
    for _ in range(nlos):
        kind = draw(st.sampled_from(["inside", "inside", "cross", "cross", "long", "fine"] +
                                    (["corner"] if len(shape) > 1 else [])))
        pad = {"inside": 0, "cross": 40, "long": 200, "corner": 24, "fine": 8}[kind]
        s = [draw(st.integers(-8 - pad, 16 * n - 8 + pad)) for n in shape]
        e = [draw(st.integers(-8 - pad, 16 * n - 8 + pad)) for n in shape]
        if kind == "fine":
            # generic positions: resolution 2**-12 pixel instead of 1/16 pixel
            s = [v + draw(st.integers(0, 255)) / 256.0 for v in s]
            e = [v + draw(st.integers(0, 255)) / 256.0 for v in e]
        if kind == "corner":
            # the mid point of the segment is a vertex of the pixel lattice (all cell boundaries meet there)
            c = [16 * draw(st.integers(0, n)) - 8 for n in shape]
            e = [2 * cc - ss for cc, ss in zip(c, s)]
        if len(shape) > 1 and draw(st.integers(0, 5)) == 0:
            a = draw(st.integers(0, len(shape) - 1))     # axis-parallel in at least one axis
            e[a] = s[a]
        for a, n in enumerate(shape):
            if s[a] == e[a] and s[a] % 16 == 8:
                # would run inside a cell face: ambiguous for a piecewise constant field
                s[a] = e[a] = s[a] + (1 if s[a] < 16 * n - 8 else -1)
        if s == e:
            e[0] += 6 if e[0] % 16 != 2 else 7
        S_.append(s)
        E_.append(e)
        kinds.append(kind)
    return S_, E_, kinds


@st.composite
def los_recipes(draw, tier):
    ndim = draw(st.integers(1, 3))
    shape = [draw(st.integers(1, 8)) for _ in range(ndim)]
    dist = [draw(DIST) for _ in range(ndim)]
    nlos = draw(st.integers(1, 4))
    s, e, kinds = _los_points(draw, shape, nlos)
    return {"shape": shape, "dist": dist, "s": s, "e": e, "kinds": kinds, "as_tuple": draw(st.booleans()),
            "cplx": draw(st.integers(0, 3)) == 0, "seed": draw(SEED)}


def _los_setup(rec):
    shape, dist = rec["shape"], np.array(rec["dist"], dtype=np.float64)
    space = ift.RGSpace(tuple(shape), distances=tuple(rec["dist"]))
    s = np.array(rec["s"], dtype=np.float64) * dist[None, :] / 16.0       # (nlos, ndim)
    e = np.array(rec["e"], dtype=np.float64) * dist[None, :] / 16.0
    return shape, dist, space, s, e


def los_check(rec):
    shape, dist, space, s, e = _los_setup(rec)
    nlos = s.shape[0]
    arg = ift.DomainTuple.make(space) if rec["as_tuple"] else space
    op = ift.LOSResponse(arg, s.T.copy(), e.T.copy())
    dom = ift.DomainTuple.make(space)
    tgt = ift.DomainTuple.make(ift.UnstructuredDomain(nlos))
    require(op.domain == dom, "los_declared_domain", str(op.domain))
    require(op.target == tgt, "los_declared_target", f"{op.target} for {nlos} lines of sight")
    W = np.stack([los_weights(shape, dist, s[i], e[i]) for i in range(nlos)])
    L = np.sqrt(np.sum((e - s) ** 2, axis=1))
    Lin = np.array([los_inside_length(shape, dist, s[i], e[i]) for i in range(nlos)])
    # oracle self-test (two independent clippings): a failure here is a harness error, not a violation
    assert np.all(np.abs(W.reshape(nlos, -1).sum(axis=1) - Lin) <= 1e-12 * np.maximum(L, 1.0)), "oracle self-test"
    rng = np.random.default_rng(rec["seed"])
    x = dy(rng, tuple(shape), cplx=rec["cplx"])
    xmax = max(1.0, float(np.max(np.abs(x))))
    r = out_array(op(field_of(dom, x)), tgt, "los_times")
    ref = np.tensordot(W, x, axes=(list(range(1, W.ndim)), list(range(x.ndim))))
    require(r.shape == ref.shape, "los_times:shape", f"{r.shape}")
    for i in range(nlos):
        close(r[i], ref[i], "los_line_integral", tol=1e-6, scale=L[i] * xmax,
              detail=f"los {i} start={s[i].tolist()} end={e[i].tolist()}")
    # constant field: length of the part of the segment inside the volume (closed form, second clipping routine)
    one = out_array(op(field_of(dom, np.ones(tuple(shape)))), tgt, "los_times")
    for i in range(nlos):
        close(one[i], Lin[i], "los_constant_field_length", tol=1e-6, scale=L[i], detail=f"los {i}")
    # adjoint = back projection: row i of the response is the weight image of segment i
    for i in range(nlos):
        y = np.zeros(nlos)
        y[i] = 1.0
        w = out_array(op.adjoint_times(field_of(tgt, y)), dom, "los_adjoint")
        close(w, W[i], "los_pixel_weights", tol=1e-6, scale=L[i], detail=f"los {i}")
    classes = [f"ndim_{len(shape)}"]
    npix = (W.reshape(nlos, -1) > 0).sum(axis=1)
    for i in range(nlos):
        classes.append("kind_" + rec["kinds"][i])
        classes.append("pixels_0" if npix[i] == 0 else "pixels_1-2" if npix[i] < 3 else
                       "pixels_3-7" if npix[i] < 8 else "pixels_8+")
        if Lin[i] < L[i] * (1 - 1e-12) and Lin[i] > 0:
            classes.append("partly_outside")
        if len(shape) > 1 and np.any(s[i] == e[i]):
            classes.append("axis_parallel")
        if _hits_corner(rec["s"][i], rec["e"][i], shape):
            classes.append("through_pixel_corner")
    return dict(nontrivial=bool(np.any(npix >= 3)), classes=sorted(set(classes)))


def _hits_corner(s, e, shape):
    """does the open segment pass through a point where >= 2 cell boundaries meet (inside the volume)?"""
    nd = len(shape)
    if nd < 2:
        return False
    ts = {}
    for a in range(nd):
        if s[a] == e[a]:
            continue
        for b in range(0, shape[a] + 1):
            t = (Fraction(16 * b - 8) - Fraction(s[a])) / (Fraction(e[a]) - Fraction(s[a]))
            if 0 < t < 1:
                ts.setdefault(t, set()).add(a)
    for t, axes in ts.items():
        if len(axes) >= 2:
            p = [Fraction(s[a]) + t * (Fraction(e[a]) - Fraction(s[a])) for a in range(nd)]
            if all(-8 <= p[a] <= 16 * shape[a] - 8 for a in range(nd)):
                return True
    return False


@st.composite
def los_split_recipes(draw, tier):
    rec = draw(los_recipes(tier))
    rec["lam"] = [draw(st.integers(1, 31)) for _ in rec["s"]]
    return rec


def los_split_check(rec):
    """metamorphic: integral over s->e = integral over s->m + integral over m->e; orientation does not matter"""
    shape, dist, space, s, e = _los_setup(rec)
    nlos = s.shape[0]
    lam = np.array(rec["lam"], dtype=np.float64)[:, None] / 32.0
    m = s + lam * (e - s)
    dom = ift.DomainTuple.make(space)
    rng = np.random.default_rng(rec["seed"])
    x = field_of(dom, dy(rng, tuple(shape), cplx=rec["cplx"]))
    xmax = max(1.0, float(np.max(np.abs(x.asnumpy()))))
    L = np.sqrt(np.sum((e - s) ** 2, axis=1))

    def resp(a, b):
        op = ift.LOSResponse(space, a.T.copy(), b.T.copy())
        return out_array(op(x), ift.DomainTuple.make(ift.UnstructuredDomain(nlos)), "los_times")

    full, first, second, rev = resp(s, e), resp(s, m), resp(m, e), resp(e, s)
    for i in range(nlos):
        close(first[i] + second[i], full[i], "los_split_adds", tol=2e-6, scale=L[i] * xmax,
              detail=f"los {i} start={s[i].tolist()} mid={m[i].tolist()} end={e[i].tolist()}")
        close(rev[i], full[i], "los_orientation", tol=2e-6, scale=L[i] * xmax, detail=f"los {i}")
    Lin = np.array([los_inside_length(shape, dist, s[i], e[i]) for i in range(nlos)])
    mid_in = [los_inside_length(shape, dist, s[i], m[i]) > 0 and los_inside_length(shape, dist, m[i], e[i]) > 0
              for i in range(nlos)]
    classes = [f"ndim_{len(shape)}"] + ["kind_" + k for k in rec["kinds"]]
    if any(mid_in):
        classes.append("both_parts_inside_volume")
    if np.any(Lin == 0):
        classes.append("misses_volume")
    return dict(nontrivial=any(mid_in), classes=sorted(set(classes)))


# ====================================================================== nifty.re SamplingCartesianGridLOS
SLOS_SHAPES = {1: [[2], [5], [8]], 2: [[2, 3], [5, 4], [8, 8]], 3: [[2, 2, 2], [3, 4, 2], [5, 4, 6]]}
# quick tier: a fixed set of (shape, n_sampling_points, form, number of LOS) so that XLA compiles rarely
SLOS_CONFIGS = [
    ([2], 1, "2d", 3), ([5], 3, "both1d", 1), ([8], 8, "end1d", 2),
    ([2, 3], 3, "start1d", 2), ([5, 4], 8, "2d", 3), ([8, 8], 32, "both1d", 1),
    ([2, 2, 2], 1, "end1d", 2), ([3, 4, 2], 8, "2d", 3), ([3, 4, 2], 3, "both1d", 1), ([5, 4, 6], 32, "start1d", 2),
]


@st.composite
def slos_recipes(draw, tier):
    if tier == "quick":
        shape, n, form, npts = draw(st.sampled_from(SLOS_CONFIGS))
        shape = list(shape)
    else:
        ndim = draw(st.integers(1, 3))
        shape = draw(st.sampled_from(SLOS_SHAPES[ndim]))
        form = draw(st.sampled_from(["2d", "2d", "start1d", "end1d", "both1d"]))
        npts = 1 if form == "both1d" else draw(st.sampled_from([1, 2, 3]))
        n = draw(st.sampled_from([1, 2, 3, 5, 8, 32, 100, 500]))
    dist = [draw(DIST) for _ in shape]
    # positions as k/32 of the extent n*d of every axis (0 is the lower face of the volume; the upper face, 32, is
    # left out: there the index coordinate shape-1 is hit only up to round-off, and one ulp beyond it the model's
    # out-of-volume value (nan) applies - segments leaving the volume are not part of this sub-check)
    s = [[draw(st.integers(0, 31)) for _ in shape] for _ in range(npts)]
    e = [[draw(st.integers(0, 31)) for _ in shape] for _ in range(npts)]
    if form == "start1d":
        s = [s[0]] * npts
    if form == "end1d":
        e = [e[0]] * npts
    for i in range(npts):
        if s[i] == e[i]:          # no zero-length segments (the rows of the non-shared end are independent lists)
            if form == "end1d":
                s[i] = [(s[i][0] + 7) % 32] + list(s[i][1:])
            else:
                e[i] = [(e[i][0] + 7) % 32] + list(e[i][1:])
    coef = [[draw(st.integers(-8, 8)) / 4.0, draw(st.integers(-8, 8)) / 4.0] for _ in shape]
    return {"shape": shape, "dist": dist, "form": form, "s": s, "e": e, "coef": coef, "n": n,
            "order_kw": draw(st.booleans())}


def slos_check(rec):
    import jax
    import nifty.re as jft
    assert jax.config.jax_enable_x64, "jax sub-check needs float64 (worker must be started with jax=True)"
    P = np.polynomial.polynomial
    shape, dist = rec["shape"], np.array(rec["dist"], dtype=np.float64)
    nd = len(shape)
    ext = np.array(shape) * dist
    s = np.array(rec["s"], dtype=np.float64) * ext[None, :] / 32.0
    e = np.array(rec["e"], dtype=np.float64) * ext[None, :] / 32.0
    npts = s.shape[0]
    coef = rec["coef"]
    # the array holds the multilinear function at the nodes i * ext/(n-1)
    F = np.ones(tuple(shape))
    for a in range(nd):
        nodes = np.arange(shape[a]) * ext[a] / (shape[a] - 1)
        bs = [1] * nd
        bs[a] = shape[a]
        F = F * (coef[a][0] + coef[a][1] * nodes).reshape(bs)
    form = rec["form"]
    a_s = s[0] if form in ("start1d", "both1d") else s
    a_e = e[0] if form in ("end1d", "both1d") else e
    kw = {"interpolation_order": 1} if rec["order_kw"] else {}
    los = jft.SamplingCartesianGridLOS(a_s, a_e, shape=tuple(shape), distances=tuple(rec["dist"]),
                                       n_sampling_points=rec["n"], **kw)
    res = raw = np.asarray(los(F))
    if form == "both1d":
        require(res.size == 1, "slos_output_shape", f"one line of sight (start and end of shape (n_dim,)): result "
                f"has shape {res.shape}: {res!r}")
    else:
        require(res.shape == (npts,), "slos_output_shape", f"{res.shape} for {npts} lines of sight ({form})")
    res = res.reshape(-1)
    classes = [f"ndim_{nd}", "form_" + form, f"n_{rec['n']}"]
    nontrivial = False
    for i in range(npts):
        v = e[i] - s[i]
        L = float(np.sqrt(np.sum(v * v)))
        g = np.array([1.0])
        gabs = 1.0
        for a in range(nd):
            A, B = coef[a][0] + coef[a][1] * s[i, a], coef[a][1] * v[a]
            g = P.polymul(g, np.array([A, B]))
            gabs *= abs(A) + abs(B)
        G = P.polyint(g)
        exact = L * (P.polyval(1.0, G) - P.polyval(0.0, G))
        g2 = P.polyder(g, 2) if len(g) > 2 else np.array([0.0])
        # g'' has degree <= 1 for <= 3 axes: its maximum modulus on [0, 1] is attained at an end
        assert len(g2) <= 2
        m2 = max(abs(P.polyval(0.0, g2)), abs(P.polyval(1.0, g2)))
        bound = L * m2 / (24.0 * rec["n"] ** 2)
        err = abs(float(res[i]) - exact)
        if not np.isfinite(res[i]) or err > bound * (1 + 1e-9) + 1e-11 * L * max(gabs, 1.0):
            raise Violation("slos_line_integral",
                            f"los {i}: result {res[i]!r}, exact integral {exact!r}, |diff|={err:.3e}, mid-point-rule "
                            f"bound {bound:.3e} (n_sampling_points={rec['n']}) start={s[i].tolist()} end={e[i].tolist()}")
        if m2 > 0:
            classes.append("curved_integrand")
            nontrivial = True
        else:
            classes.append("linear_integrand_exact")
        if nd >= 2:
            nontrivial = True
    # declared output structure of the model
    tshape = tuple(getattr(los.target, "shape", ()))
    require(tshape == tuple(raw.shape), "slos_declared_target",
            f"model.target.shape={tshape} but the model returns an array of shape {raw.shape}")
    return dict(nontrivial=nontrivial, classes=sorted(set(classes)))


# ====================================================================== Nufft / Gridder
def _phase_tensor(shape, dist, pos, sign):
    """E[k, j] = exp(sign * 2 pi i sum_a pos[k,a] d_a (j_a - n_a//2))"""
    grids = np.meshgrid(*[np.arange(n) - n // 2 for n in shape], indexing="ij")
    E = np.zeros((pos.shape[0],) + tuple(shape), dtype=np.complex128)
    for k in range(pos.shape[0]):
        ph = sum(pos[k, a] * dist[a] * grids[a] for a in range(len(shape)))
        E[k] = np.exp(sign * 2j * np.pi * ph)
    return E, grids


EPS = st.sampled_from([None, 1e-4, 1e-8, 2e-10])


def _nufft_grid(draw, which):
    if which == "Gridder":
        shape = [draw(st.sampled_from([2, 4, 6, 8])), draw(st.sampled_from([2, 4, 6, 8]))]
    else:
        ndim = draw(st.integers(1, 3))
        shape = [draw(st.integers(1, 8)) for _ in range(ndim)]
    return shape, [draw(DIST) for _ in shape]


@st.composite
def nufft_recipes(draw, tier):
    which = draw(st.sampled_from(["Nufft", "Nufft", "Gridder"]))
    shape, dist = _nufft_grid(draw, which)
    npts = draw(st.integers(1, 6))
    pos = []
    for _ in range(npts):
        kind = draw(st.sampled_from(["off", "off", "grid", "far"]))
        if kind == "off":       # physical frequency, multiples of 1/16
            pos.append(["off"] + [draw(st.integers(-64, 64)) for _ in shape])
        elif kind == "far":     # many periods away
            pos.append(["off"] + [draw(st.integers(-2000, 2000)) for _ in shape])
        else:                   # FFT grid point m/(n d), m may lie outside the first period
            pos.append(["grid"] + [draw(st.integers(-n, 2 * n)) for n in shape])
    return {"which": which, "shape": shape, "dist": dist, "pos": pos, "eps": draw(EPS),
            "harmonic": draw(st.booleans()), "real_points": draw(st.integers(0, 4)) == 0, "seed": draw(SEED)}


def _positions(rec):
    shape, dist = rec["shape"], rec["dist"]
    out = []
    for p in rec["pos"]:
        if p[0] == "off":
            out.append([k / 16.0 for k in p[1:]])
        else:
            out.append([m / (n * d) for m, n, d in zip(p[1:], shape, dist)])
    return np.array(out, dtype=np.float64).reshape(len(rec["pos"]), len(shape))


def _mk_nufft(rec, pos):
    space = ift.RGSpace(tuple(rec["shape"]), distances=tuple(rec["dist"]),
                        harmonic=bool(rec.get("harmonic", False)) and rec["which"] == "Nufft")
    kw = {} if rec["eps"] is None else {"eps": rec["eps"]}
    cls = getattr(ift, rec["which"])
    op = cls(space, pos, **kw) if rec["which"] == "Nufft" else cls(space, uv=pos, **kw)
    return space, op, (2e-10 if rec["eps"] is None else rec["eps"])


def l2close(a, b, kind, bound, detail=""):
    a, b = np.asarray(a), np.asarray(b)
    if a.shape != b.shape:
        raise Violation(kind + ":shape", f"{a.shape} vs {b.shape} {detail}")
    if not np.all(np.isfinite(a)):
        raise Violation(kind + ":nonfinite", f"{a!r} {detail}")
    err = float(np.sqrt(np.sum(np.abs(a - b) ** 2)))
    if err > bound:
        raise Violation(kind, f"l2 error {err:.3e} > bound {bound:.3e} {detail}")


def nufft_check(rec):
    pos = _positions(rec)
    space, op, eps = _mk_nufft(rec, pos)
    shape, dist = rec["shape"], rec["dist"]
    K, N = pos.shape[0], int(np.prod(shape))
    dom = ift.DomainTuple.make(ift.UnstructuredDomain(K))
    tgt = ift.DomainTuple.make(space)
    require(op.domain == dom, "nufft_declared_domain", str(op.domain))
    require(op.target == tgt, "nufft_declared_target", str(op.target))
    E, _ = _phase_tensor(shape, dist, pos, +1)
    rng = np.random.default_rng(rec["seed"])
    x = dy(rng, K, cplx=not rec.get("real_points", False))      # real-valued point data are complex data too
    r = out_array(op(field_of(dom, x)), tgt, "nufft_times")
    require(not np.iscomplexobj(r), "nufft_times_real", f"dtype {r.dtype}")
    ref = np.real(np.tensordot(x, E, axes=(0, 0)))
    info = f"{rec['which']} shape={shape} dist={dist} eps={eps}"
    l2close(r, ref, "nufft_sum_times", 10 * eps * np.sqrt(N) * max(np.sum(np.abs(x)), 1e-300), info)
    g = dy(rng, tuple(shape))
    ra = out_array(op.adjoint_times(field_of(tgt, g)), dom, "nufft_adjoint")
    refa = np.tensordot(np.conj(E), g, axes=(list(range(1, E.ndim)), list(range(g.ndim))))
    l2close(ra, refa, "nufft_sum_adjoint", 10 * eps * np.sqrt(K) * max(np.sum(np.abs(g)), 1e-300), info)
    kinds = {p[0] for p in rec["pos"]}
    classes = [rec["which"], f"ndim_{len(shape)}", "eps_default" if rec["eps"] is None else f"eps_{rec['eps']:g}"]
    classes += ["pos_" + k for k in sorted(kinds)]
    if any(p[0] == "off" and max(abs(k) for k in p[1:]) > 64 for p in rec["pos"]):
        classes.append("pos_far")
    if any(n % 2 for n in shape):
        classes.append("odd_axis")
    classes.append("points_real_dtype" if rec.get("real_points", False) else "points_complex_dtype")
    return dict(nontrivial="off" in kinds and (len(shape) >= 2 or K >= 2), classes=classes)


@st.composite
def nufft_fft_recipes(draw, tier):
    which = draw(st.sampled_from(["Nufft", "Nufft", "Gridder"]))
    shape, dist = _nufft_grid(draw, which)
    while int(np.prod(shape)) > 128:
        shape[int(np.argmax(shape))] //= 2
        shape = [max(n - n % 2, 2) if which == "Gridder" else n for n in shape]
    return {"which": which, "shape": shape, "dist": dist, "eps": draw(EPS), "shift": [draw(st.integers(-1, 1)) for _ in shape],
            "seed": draw(SEED)}


def nufft_fft_check(rec):
    """positions = all FFT grid points (optionally shifted by whole periods): the non-uniform transform is the FFT"""
    shape, dist = rec["shape"], rec["dist"]
    nd = len(shape)
    N = int(np.prod(shape))
    freqs = [np.fft.fftfreq(n, d) + sh / d for n, d, sh in zip(shape, dist, rec["shift"])]
    mesh = np.meshgrid(*freqs, indexing="ij")
    pos = np.stack([m.reshape(-1) for m in mesh], axis=1)          # C order over the harmonic pixels
    space, op, eps = _mk_nufft(rec, pos)
    hspace = space.get_default_codomain()
    fft = ift.FFTOperator(space, target=hspace)
    dvol = float(np.prod(dist))
    cen = tuple(n // 2 for n in shape)
    rng = np.random.default_rng(rec["seed"])
    # adjoint (type 2): y_m = sum_j g_j exp(-2 pi i k_m . x_(j - c))  =  DFT of roll(g, -c)
    g = dy(rng, tuple(shape))
    y = out_array(op.adjoint_times(field_of(op.target, g)), op.domain, "nufft_adjoint").reshape(shape)
    grolled = np.roll(g, tuple(-c for c in cen), axis=tuple(range(nd)))
    via_fft = out_array(fft(field_of(fft.domain, grolled)), fft.target, "fft_times") / dvol
    via_np = np.fft.fftn(grolled)
    bound = 10 * eps * np.sqrt(N) * max(np.sum(np.abs(g)), 1e-300)
    l2close(y, via_np, "nufft_on_grid_is_dft_adjoint", bound)
    l2close(y, via_fft, "nufft_on_grid_equals_FFTOperator_adjoint", bound)
    # times (type 1): out_j = Re sum_m x_m exp(+2 pi i k_m . x_(j - c)) = Re roll(N ifft(x), +c)
    x = dy(rng, tuple(shape), cplx=True)
    r = out_array(op(field_of(op.domain, x.reshape(-1))), op.target, "nufft_times")
    inv = out_array(fft.inverse_times(field_of(fft.target, x)), fft.domain, "fft_inverse") * (N * dvol)
    via_fft = np.real(np.roll(inv, cen, axis=tuple(range(nd))))
    via_np = np.real(np.roll(np.fft.ifftn(x) * N, cen, axis=tuple(range(nd))))
    bound = 10 * eps * np.sqrt(N) * max(np.sum(np.abs(x)), 1e-300)
    l2close(r, via_np, "nufft_on_grid_is_dft_times", bound)
    l2close(r, via_fft, "nufft_on_grid_equals_FFTOperator_times", bound)
    classes = [rec["which"], f"ndim_{nd}", "eps_default" if rec["eps"] is None else f"eps_{rec['eps']:g}"]
    if any(rec["shift"]):
        classes.append("shifted_by_periods")
    if any(n % 2 for n in shape):
        classes.append("odd_axis")
    return dict(nontrivial=N >= 4 and (nd >= 2 or any(rec["shift"])), classes=classes)


# ====================================================================== VariablePositionNufft / ShiftedPositionFFT
@st.composite
def varpos_recipes(draw, tier):
    what = draw(st.sampled_from(["varpos", "varpos", "shifted"]))
    ndim = draw(st.integers(1, 3))
    cap = [8, 6, 4][ndim - 1] if what == "varpos" else [8, 5, 3][ndim - 1]
    shape = [draw(st.integers(1, cap)) for _ in range(ndim)]
    dist = [draw(DIST) for _ in shape]
    batch = draw(st.sampled_from([None, None, 1, 2, 3]))
    rec = {"what": what, "shape": shape, "dist": dist, "batch": batch, "eps": draw(st.sampled_from([1e-4, 1e-8, 2e-10])),
           "real_grid": draw(st.integers(0, 4)) == 0, "seed": draw(SEED)}
    if what == "varpos":
        npts = draw(st.integers(1, 5))
        rec["coord"] = [[draw(st.integers(-64, 64)) / 16.0 for _ in shape] for _ in range(npts)]
    else:
        rec["delta"] = draw(st.sampled_from(["zero", "integer", "integer", "fractional", "fractional"]))
    return rec


def _bsum(E, g, nd):
    """sum_j E[k, j] g[j]"""
    return np.tensordot(E, g, axes=(list(range(1, nd + 1)), list(range(nd))))


def varpos_check(rec):
    if rec["what"] == "shifted":
        return shifted_check(rec)
    shape, dist, eps, b = rec["shape"], rec["dist"], rec["eps"], rec["batch"]
    nd = len(shape)
    coord = np.array(rec["coord"], dtype=np.float64).reshape(-1, nd)
    K = coord.shape[0]
    space = ift.RGSpace(tuple(shape), distances=tuple(dist))
    pre = None if b is None else ift.UnstructuredDomain(b)
    op = ift.VariablePositionNufft(space, K, eps, pre_domain=pre)
    gdom = ift.DomainTuple.make(space if b is None else (pre, space))
    cdom = ift.DomainTuple.make((ift.UnstructuredDomain(K), ift.UnstructuredDomain(nd)))
    tgt = ift.DomainTuple.make(ift.UnstructuredDomain(K) if b is None else (pre, ift.UnstructuredDomain(K)))
    require(isinstance(op.domain, ift.MultiDomain) and sorted(op.domain.keys()) == ["coord", "grid"],
            "varpos_declared_domain", str(op.domain))
    require(op.domain["grid"] == gdom and op.domain["coord"] == cdom, "varpos_declared_domain", str(op.domain))
    require(op.target == tgt, "varpos_declared_target", str(op.target))
    rng = np.random.default_rng(rec["seed"])
    real_grid = rec.get("real_grid", False)
    g = dy(rng, gdom.shape, cplx=not real_grid)
    inp = ift.MultiField.from_dict({"grid": field_of(gdom, g), "coord": field_of(cdom, coord)}, op.domain)
    E, grids = _phase_tensor(shape, dist, coord, -1)
    gb = g[None] if b is None else g
    nb = gb.shape[0]

    def unb(a):
        return a[0] if b is None else a

    ref = np.stack([_bsum(E, gg, nd) for gg in gb])
    g1 = max(float(np.max(np.sum(np.abs(gb.reshape(nb, -1)), axis=1))), 1e-300)
    val = out_array(op(inp), tgt, "varpos_value")
    l2close(val, unb(ref), "varpos_fourier_sum", 10 * eps * np.sqrt(K * nb) * g1, f"shape={shape} batch={b}")
    # linearisation: same value, Jacobian = derivative of the explicit sum w.r.t. grid values and positions
    lin = op(ift.Linearization.make_var(inp))
    l2close(out_array(lin.val, tgt, "varpos_value"), unb(ref), "varpos_fourier_sum_linearization",
            10 * eps * np.sqrt(K * nb) * g1)
    D = np.zeros((nb, K, nd), dtype=np.complex128)       # d val[b,k] / d coord[k,a]
    dscale = np.zeros(nd)
    for a in range(nd):
        fac = -2j * np.pi * dist[a] * grids[a]
        for i in range(nb):
            D[i, :, a] = _bsum(E, gb[i] * fac, nd)
        dscale[a] = float(np.max(np.sum(np.abs(gb * fac[None]).reshape(nb, -1), axis=1)))
    dg = dy(rng, gdom.shape, cplx=not real_grid)
    dc = dy(rng, (K, nd))
    tang = ift.MultiField.from_dict({"grid": field_of(gdom, dg), "coord": field_of(cdom, dc)}, op.domain)
    dgb = dg[None] if b is None else dg
    refj = np.stack([_bsum(E, gg, nd) for gg in dgb]) + np.einsum("ika,ka->ik", D, dc)
    jsc = float(np.max(np.sum(np.abs(dgb.reshape(nb, -1)), axis=1))) + float(np.sum(dscale * np.max(np.abs(dc), axis=0)))
    jt = out_array(lin.jac(tang), tgt, "varpos_jacobian")
    l2close(jt, unb(refj), "varpos_jacobian_times", 10 * eps * np.sqrt(K * nb) * max(jsc, 1e-300))
    classes = ["varpos", f"ndim_{nd}", "batch_none" if b is None else f"batch_{b}", f"eps_{eps:g}",
               "grid_real_dtype" if real_grid else "grid_complex_dtype"]
    if any(n % 2 for n in shape):
        classes.append("odd_axis")
    if real_grid:
        # (the adjoint Jacobian is compared for complex grids only: for a real-valued grid variable the
        # real-linear adjoint is the real part, which the documentation does not spell out)
        return dict(nontrivial=nd >= 2 or K >= 2, classes=classes)
    y = dy(rng, tgt.shape, cplx=True)
    yb = y[None] if b is None else y
    ja = lin.jac.adjoint_times(field_of(tgt, y))
    require(isinstance(ja, ift.MultiField) and ja.domain == op.domain, "varpos_jacobian_adjoint:domain", str(ja.domain))
    refg = np.stack([np.tensordot(yy, np.conj(E), axes=(0, 0)) for yy in yb])
    refc = np.real(np.einsum("ik,ika->ka", yb, np.conj(D)))
    y1 = max(float(np.sum(np.abs(y))), 1e-300)
    l2close(np.asarray(ja["grid"].asnumpy()), unb(refg), "varpos_jacobian_adjoint_grid",
            10 * eps * np.sqrt(g.size) * y1)
    l2close(np.asarray(ja["coord"].asnumpy()), refc, "varpos_jacobian_adjoint_coord",
            10 * eps * np.sqrt(K * nd) * y1 * max(float(np.max(dscale)), 1e-300))
    return dict(nontrivial=nd >= 2 or K >= 2, classes=classes)


def shifted_check(rec):
    shape, dist, eps, b = rec["shape"], rec["dist"], rec["eps"], rec["batch"]
    nd = len(shape)
    N = int(np.prod(shape))
    space = ift.RGSpace(tuple(shape), distances=tuple(dist))
    hspace = space.get_default_codomain()
    pre = None if b is None else ift.UnstructuredDomain(b)
    op = ift.ShiftedPositionFFT(space, eps, pre_domain=pre)
    gdom = ift.DomainTuple.make(space if b is None else (pre, space))
    ddom = ift.DomainTuple.make((hspace, ift.UnstructuredDomain(nd)))
    tgt = ift.DomainTuple.make(hspace if b is None else (pre, hspace))
    require(op.domain["grid"] == gdom and op.domain["delta_coord"] == ddom, "shifted_declared_domain", str(op.domain))
    require(op.target == tgt, "shifted_declared_target", str(op.target))
    rng = np.random.default_rng(rec["seed"])
    real_grid = rec.get("real_grid", False)
    g = dy(rng, gdom.shape, cplx=not real_grid)
    how = rec["delta"]
    if how == "zero":
        delta = np.zeros(ddom.shape)
    elif how == "integer":
        delta = rng.integers(-3, 4, size=ddom.shape).astype(np.float64)
    else:
        delta = dy(rng, ddom.shape, lim=24)
    inp = ift.MultiField.from_dict({"grid": field_of(gdom, g), "delta_coord": field_of(ddom, delta)}, op.domain)
    res = out_array(op(inp), tgt, "shifted_value")
    gb = g[None] if b is None else g
    nb = gb.shape[0]
    dvol = float(np.prod(dist))
    narr, darr = np.array(shape), np.array(dist)
    cen = narr // 2
    jc = np.stack(np.meshgrid(*[np.arange(n) - n // 2 for n in shape], indexing="ij"), axis=-1)   # centred index j'
    src = tuple(np.moveaxis((jc % narr), -1, 0))                                                   # j' mod n
    ref = np.zeros((nb,) + tuple(shape), dtype=np.complex128)
    for m in np.ndindex(*shape):
        k = np.array([np.fft.fftfreq(n, d)[mm] for n, d, mm in zip(shape, dist, m)]) + delta[m] / (narr * darr)
        ph = np.exp(-2j * np.pi * np.tensordot(jc, k * darr, axes=(-1, 0)))
        for i in range(nb):
            ref[(i,) + m] = dvol * np.sum(gb[i][src] * ph)
    g1 = max(float(np.max(np.sum(np.abs(gb.reshape(nb, -1)), axis=1))), 1e-300)
    bound = 10 * eps * np.sqrt(N * nb) * g1 * dvol
    l2close(res, ref[0] if b is None else ref, "shifted_fourier_sum", bound, f"delta={how} shape={shape}")
    if how in ("zero", "integer"):
        # documented: delta 0 = the FFT; delta 1 = the neighbouring FFT frequency (periodic)
        full = dvol * np.fft.fftn(gb, axes=tuple(range(1, nd + 1)))
        exp = np.zeros_like(full)
        for m in np.ndindex(*shape):
            mm = tuple(int(v) for v in (np.array(m) + delta[m].astype(int)) % narr)
            exp[(slice(None),) + m] = full[(slice(None),) + mm]
        l2close(res, exp[0] if b is None else exp, "shifted_integer_delta_is_fft_neighbour", bound)
    classes = ["shifted", "delta_" + how, f"ndim_{nd}", "batch_none" if b is None else f"batch_{b}", f"eps_{eps:g}",
               "grid_real_dtype" if real_grid else "grid_complex_dtype"]
    return dict(nontrivial=N >= 3 and how != "zero", classes=classes)


# ====================================================================== LinearInterpolator
@st.composite
def interp_recipes(draw, tier):
    ndim = draw(st.integers(1, 3))
    shape = [draw(st.integers(1, 8)) for _ in range(ndim)]
    dist = [draw(DIST) for _ in shape]
    npts = draw(st.integers(1, 6))
    pts = []
    for _ in range(npts):
        kind = draw(st.sampled_from(["in", "in", "out", "node"]))
        if kind == "in":       # inside the box [0, (n-1) d] (units of d/8)
            p = [draw(st.integers(0, 8 * (n - 1))) for n in shape]
        elif kind == "node":
            p = [8 * draw(st.integers(-n, 2 * n)) for n in shape]
        else:                  # anywhere from one period below to two periods above
            p = [draw(st.integers(-8 * n, 16 * n)) for n in shape]
        pts.append(p)
    coef = [[draw(st.integers(-8, 8)) / 4.0, draw(st.integers(-8, 8)) / 4.0] for _ in shape]
    return {"shape": shape, "dist": dist, "pts": pts, "coef": coef, "shift": [draw(st.integers(-2, 2)) for _ in shape],
            "seed": draw(SEED)}


def _interp_factor(q, n, d, al, be):
    """1-D periodic piecewise-linear interpolant of x -> al + be x sampled at i*d (i < n), at pixel coordinate q"""
    q = q % n
    if q <= n - 1:
        return al + be * q * d
    t = q - (n - 1)
    return (1 - t) * (al + be * (n - 1) * d) + t * al


def interp_check(rec):
    shape, dist = rec["shape"], np.array(rec["dist"], dtype=np.float64)
    nd = len(shape)
    space = ift.RGSpace(tuple(shape), distances=tuple(rec["dist"]))
    pix = np.array(rec["pts"], dtype=np.float64).reshape(-1, nd) / 8.0          # pixel coordinates
    pts = (pix * dist[None, :]).T.copy()                                         # (ndim, npts) physical
    npts = pix.shape[0]
    op = ift.LinearInterpolator(space, pts)
    dom = ift.DomainTuple.make(space)
    tgt = ift.DomainTuple.make(ift.UnstructuredDomain(npts))
    require(op.domain == dom, "interp_declared_domain", str(op.domain))
    require(op.target == tgt, "interp_declared_target", str(op.target))
    coef = rec["coef"]
    F = np.ones(tuple(shape))
    scale = 1.0
    for a in range(nd):
        bs = [1] * nd
        bs[a] = shape[a]
        F = F * (coef[a][0] + coef[a][1] * np.arange(shape[a]) * dist[a]).reshape(bs)
        scale *= abs(coef[a][0]) + abs(coef[a][1]) * shape[a] * dist[a]
    r = out_array(op(field_of(dom, F)), tgt, "interp_times")
    inbox = np.array([all(0 <= pix[p, a] <= shape[a] - 1 for a in range(nd)) for p in range(npts)])
    for p in range(npts):
        exp = 1.0
        for a in range(nd):
            exp *= _interp_factor(pix[p, a], shape[a], dist[a], coef[a][0], coef[a][1])
        if inbox[p]:
            plain = float(np.prod([coef[a][0] + coef[a][1] * pix[p, a] * dist[a] for a in range(nd)]))
            close(r[p], plain, "interp_exact_on_multilinear", tol=1e-12, scale=max(scale, 1.0),
                  detail=f"point {pts[:, p].tolist()} (pixel coordinates {pix[p].tolist()})")
        close(r[p], exp, "interp_multilinear_periodic", tol=1e-12, scale=max(scale, 1.0),
              detail=f"point {pts[:, p].tolist()} (pixel coordinates {pix[p].tolist()}) shape={shape}")
    # arbitrary field: values at nodes are reproduced; whole periods do not matter
    rng = np.random.default_rng(rec["seed"])
    X = dy(rng, tuple(shape), cplx=True)
    rx = out_array(op(field_of(dom, X)), tgt, "interp_times")
    for p in range(npts):
        if np.all(pix[p] == np.floor(pix[p])):
            idx = tuple(int(v) % n for v, n in zip(pix[p], shape))
            close(rx[p], X[idx], "interp_node_value", tol=1e-12, scale=4.0, detail=f"pixel coordinates {pix[p].tolist()}")
    shift = np.array(rec["shift"], dtype=np.float64) * np.array(shape) * dist
    op2 = ift.LinearInterpolator(space, pts + shift[:, None])
    rx2 = out_array(op2(field_of(dom, X)), tgt, "interp_times")
    close(rx2, rx, "interp_periodicity", tol=1e-11, scale=4.0, detail=f"shift by {rec['shift']} periods")
    outside = bool(np.any(~inbox))
    classes = [f"ndim_{nd}", "points_outside_box" if outside else "points_inside_box"]
    wrapcell = any(any((pix[p, a] % shape[a]) > shape[a] - 1 for a in range(nd)) for p in range(npts))
    if wrapcell:
        classes.append("point_in_wrap_cell")
    if any(rec["shift"]):
        classes.append("period_shift")
    if np.any(pix < 0):
        classes.append("negative_coordinate")
    return dict(nontrivial=nd >= 2 or outside, classes=classes)


# ====================================================================== Regridding / zero padding / mask
def _wrap_spaces(draw, core, max_other):
    """put the RG space `core` into a domain with 0-1 passenger spaces; returns (list of space recipes, index)"""
    how = draw(st.sampled_from(["alone", "alone", "before", "after"]))
    if how == "alone" or max_other < 2:
        return [core], 0
    other = ["U", [draw(st.integers(1, min(3, max_other)))]]
    return ([other, core], 1) if how == "before" else ([core, other], 0)


def _mk_space(r):
    if r[0] == "U":
        return ift.UnstructuredDomain(tuple(r[1]))
    return ift.RGSpace(tuple(r[1]), distances=tuple(r[2]), harmonic=bool(r[3]))


def _axes(rs, sp):
    a0 = sum(len(r[1]) for r in rs[:sp])
    return list(range(a0, a0 + len(rs[sp][1])))


def _full_shape(rs):
    return tuple(n for r in rs for n in r[1])


def _apply_axis_maps(x, axes, maps, new_lens):
    """explicit loops: out[.., j, ..] += w * x[.., i, ..] for (i, j, w) in the map of every listed axis"""
    for a, mp, m in zip(axes, maps, new_lens):
        shp = list(x.shape)
        shp[a] = m
        out = np.zeros(shp, dtype=np.complex128)
        for i, j, w in mp:
            src = [slice(None)] * x.ndim
            dst = [slice(None)] * x.ndim
            src[a], dst[a] = i, j
            out[tuple(dst)] += w * x[tuple(src)]
        x = out
    return x


def _apply_axis_maps_T(y, axes, maps, old_lens):
    for a, mp, n in zip(axes, maps, old_lens):
        shp = list(y.shape)
        shp[a] = n
        out = np.zeros(shp, dtype=np.complex128)
        for i, j, w in mp:
            src = [slice(None)] * y.ndim
            dst = [slice(None)] * y.ndim
            src[a], dst[a] = j, i
            out[tuple(dst)] += w * y[tuple(src)]
        y = out
    return y


def _index_op_compare(op, rs, sp, maps, new_lens, seed, name, tol=1e-12):
    """times / adjoint_times of `op` against the explicit axis maps"""
    ax = _axes(rs, sp)
    old = list(rs[sp][1])
    rng = np.random.default_rng(seed)
    x = dy(rng, _full_shape(rs), cplx=True)
    r = out_array(op(field_of(op.domain, x)), op.target, name + "_times")
    ref = _apply_axis_maps(x, ax, maps, new_lens)
    close(r, ref, name + "_definition", tol=tol, scale=4.0)
    xr = dy(rng, _full_shape(rs))
    rr = out_array(op(field_of(op.domain, xr)), op.target, name + "_times")
    close(rr, _apply_axis_maps(xr, ax, maps, new_lens), name + "_definition_real_field", tol=tol, scale=4.0)
    y = dy(rng, tuple(op.target.shape), cplx=True)
    ra = out_array(op.adjoint_times(field_of(op.target, y)), op.domain, name + "_adjoint")
    close(ra, _apply_axis_maps_T(y, ax, maps, old), name + "_adjoint_definition", tol=tol, scale=16.0)


@st.composite
def regrid_recipes(draw, tier):
    ndim = draw(st.integers(1, 3))
    cap = [8, 8, 5][ndim - 1]
    shape = [draw(st.integers(2, cap)) for _ in range(ndim)]        # no axis of length 1 (recorded finding)
    core = ["RG", shape, [draw(DIST) for _ in shape], False]
    new = [draw(st.integers(1, n)) for n in shape]
    rs, sp = _wrap_spaces(draw, core, 256 // int(np.prod(shape)))
    coef = [[draw(st.integers(-8, 8)) / 4.0, draw(st.integers(-8, 8)) / 4.0] for _ in shape]
    return {"dom": rs, "space": sp, "omit_space": sp == 0 and draw(st.booleans()), "new": new, "coef": coef,
            "seed": draw(SEED)}


def regrid_check(rec):
    rs, sp = rec["dom"], rec["space"]
    core = rs[sp]
    old, dist, new = core[1], core[2], rec["new"]
    dom = ift.DomainTuple.make(tuple(_mk_space(r) for r in rs))
    kw = {} if rec["omit_space"] else {"space": sp}
    op = ift.RegriddingOperator(dom, tuple(new), **kw)
    require(op.domain == dom, "regrid_declared_domain", str(op.domain))
    require(len(op.target) == len(rs), "regrid_declared_target", str(op.target))
    t = op.target[sp]
    require(isinstance(t, ift.RGSpace) and tuple(t.shape) == tuple(new) and not t.harmonic,
            "regrid_declared_target", repr(t))
    ndist = [d * n / m for d, n, m in zip(dist, old, new)]       # same total extent
    close(np.array(t.distances), np.array(ndist), "regrid_declared_target_distances", tol=1e-14)
    for i, r in enumerate(rs):
        if i != sp:
            require(op.target[i] == _mk_space(r), "regrid_declared_target", f"passenger space {i} changed")
    maps = []
    for n, m in zip(old, new):
        mp = []
        for j in range(m):
            # new pixel j sits at old-pixel coordinate j*n/m (exact rational arithmetic)
            pos = Fraction(j * n, m)
            i0 = min(int(pos), n - 2)
            w = float(pos - i0)
            mp.append((i0, j, 1.0 - w))
            mp.append((i0 + 1, j, w))
        maps.append(mp)
    _index_op_compare(op, rs, sp, maps, new, rec["seed"], "regrid", tol=1e-11)
    # linear interpolation is exact on multilinear functions of the position
    ax = _axes(rs, sp)
    F = np.ones(_full_shape(rs))
    G = np.ones(tuple(op.target.shape))
    scale = 1.0
    for k, a in enumerate(ax):
        al, be = rec["coef"][k]
        bs = [1] * F.ndim
        bs[a] = old[k]
        F = F * (al + be * np.arange(old[k]) * dist[k]).reshape(bs)
        bs[a] = new[k]
        G = G * (al + be * np.arange(new[k]) * ndist[k]).reshape(bs)
        scale *= abs(al) + abs(be) * old[k] * dist[k]
    r = out_array(op(field_of(dom, F)), op.target, "regrid_times")
    close(r, G, "regrid_exact_on_multilinear", tol=1e-11, scale=max(scale, 1.0))
    shrunk = sum(m < n for n, m in zip(old, new))
    classes = [f"ndim_{len(old)}", f"shrunk_axes_{shrunk}", f"{len(rs)}_spaces"]
    if any(m < n and (n % m) for n, m in zip(old, new)):
        classes.append("non_integer_ratio")
    if any(m == 1 for m in new):
        classes.append("new_length_1")
    return dict(nontrivial=shrunk > 0, classes=classes)


@st.composite
def pad_recipes(draw, tier):
    ndim = draw(st.integers(1, 3))
    cap = [8, 6, 4][ndim - 1]
    shape = [draw(st.integers(1, cap)) for _ in range(ndim)]
    core = ["RG", shape, [draw(DIST) for _ in shape], draw(st.booleans())]
    new = [n + draw(st.sampled_from([0, 0, 1, 2, 3, 5])) for n in shape]
    rs, sp = _wrap_spaces(draw, core, 512 // int(np.prod(new)))
    return {"dom": rs, "space": sp, "omit_space": sp == 0 and draw(st.booleans()), "new": new,
            "central": draw(st.booleans()), "seed": draw(SEED)}


def pad_check(rec):
    rs, sp = rec["dom"], rec["space"]
    core = rs[sp]
    old, new, central = core[1], rec["new"], rec["central"]
    dom = ift.DomainTuple.make(tuple(_mk_space(r) for r in rs))
    kw = {} if rec["omit_space"] else {"space": sp}
    op = ift.FieldZeroPadder(dom, tuple(new), central=central, **kw)
    trs = [r if i != sp else ["RG", list(new), core[2], core[3]] for i, r in enumerate(rs)]
    tgt = ift.DomainTuple.make(tuple(_mk_space(r) for r in trs))
    require(op.domain == dom, "pad_declared_domain", str(op.domain))
    require(op.target == tgt, "pad_declared_target", f"{op.target} vs {tgt}")
    maps = []
    for n, N in zip(old, new):
        if N == n or not central:
            mp = [(i, i, 1.0) for i in range(n)]
        else:
            mp = [(i, i, 1.0) for i in range(n // 2 + 1)]
            mp += [(n - j, N - j, 1.0) for j in range(1, n // 2 + 1)]
        maps.append(mp)
    _index_op_compare(op, rs, sp, maps, new, rec["seed"], "pad")
    grown = [N > n for n, N in zip(old, new)]
    classes = [f"ndim_{len(old)}", "central" if central else "end", f"grown_axes_{sum(grown)}", f"{len(rs)}_spaces"]
    if central and any(g and n % 2 == 0 for g, n in zip(grown, old)):
        classes.append("central_even_axis")
    if central and any(g and n % 2 == 1 for g, n in zip(grown, old)):
        classes.append("central_odd_axis")
    if core[3]:
        classes.append("harmonic_space")
    return dict(nontrivial=any(grown), classes=classes)


@st.composite
def mask_recipes(draw, tier):
    nsp = draw(st.integers(1, 2))
    rs, rem = [], 128
    for _ in range(nsp):
        if draw(st.booleans()):
            nd = draw(st.integers(1, 2 if nsp == 2 else 3))
            shape = [draw(st.integers(1, max(1, min(8, int(rem ** (1.0 / nd)))))) for _ in range(nd)]
            rs.append(["RG", shape, [draw(DIST) for _ in shape], draw(st.booleans())])
        else:
            rs.append(["U", [draw(st.integers(1, max(1, min(8, rem))))]])
        rem = max(1, rem // int(np.prod(rs[-1][1])))
    n = int(np.prod(_full_shape(rs)))
    density = draw(st.sampled_from(["none", "sparse", "sparse", "half", "half", "dense", "dense", "all", "free"]))
    seed = draw(SEED)
    if density == "none":
        flags = [0] * n
    elif density == "all":
        flags = [1] * n
    elif density == "free":
        flags = [int(draw(st.booleans())) for _ in range(n)]
    else:
        # flag pattern derived from the seed in the recipe (hypothesis itself prefers all-zero lists)
        p = {"sparse": 0.15, "half": 0.5, "dense": 0.85}[density]
        flags = [int(v) for v in (np.random.default_rng(seed).random(n) < p)]
    return {"dom": rs, "flags": flags, "flag_dtype": draw(st.sampled_from(["bool", "bool", "int", "float"])),
            "seed": seed}


def mask_check(rec):
    rs = rec["dom"]
    dom = ift.DomainTuple.make(tuple(_mk_space(r) for r in rs))
    shape = _full_shape(rs)
    fl = np.array(rec["flags"], dtype=np.int64).reshape(shape)
    rng = np.random.default_rng(rec["seed"])
    if rec["flag_dtype"] == "bool":
        flags = fl.astype(bool)
    elif rec["flag_dtype"] == "int":
        flags = fl * rng.integers(1, 5, size=shape) * rng.choice([-1, 1], size=shape)   # any non-zero integer flags
    else:
        flags = fl * (rng.integers(1, 9, size=shape) / 4.0) * rng.choice([-1.0, 1.0], size=shape)
    op = ift.MaskOperator(field_of(dom, flags))
    keep = [idx for idx in np.ndindex(*shape) if not fl[idx]]                              # C order
    tgt = ift.DomainTuple.make(ift.UnstructuredDomain(len(keep)))
    require(op.domain == dom, "mask_declared_domain", str(op.domain))
    require(op.target == tgt, "mask_declared_target", f"{op.target}: {len(keep)} unflagged pixels")
    for cplx in (True, False):
        x = dy(rng, shape, cplx=cplx)
        r = out_array(op(field_of(dom, x)), tgt, "mask_times")
        ref = np.array([x[idx] for idx in keep], dtype=x.dtype).reshape(len(keep))
        close(r, ref, "mask_selects_unflagged", tol=0.0, scale=1.0)
        y = dy(rng, len(keep), cplx=cplx)
        ra = out_array(op.adjoint_times(field_of(tgt, y)), dom, "mask_adjoint")
        refa = np.zeros(shape, dtype=y.dtype)
        for v, idx in zip(y, keep):
            refa[idx] = v
        close(ra, refa, "mask_adjoint_zero_fills", tol=0.0, scale=1.0)
    frac = 1.0 - len(keep) / fl.size
    dens = "flagged_none" if frac == 0 else "flagged_all" if frac == 1 else \
        "flagged_<1/3" if frac < 1 / 3 else "flagged_1/3-2/3" if frac <= 2 / 3 else "flagged_>2/3"
    classes = [dens, "flags_" + rec["flag_dtype"], f"{len(rs)}_spaces", f"axes_{len(shape)}"]
    return dict(nontrivial=0 < len(keep) < fl.size, classes=classes)


SUBS = [
    Sub(name="los_boxclip", check=los_check, strategy=los_recipes, quick=480, thorough=20000, shards=8,
        rule="LOSResponse(sigmas=None) vs exact segment/pixel-box intersection lengths (forward on a generated field, "
             "every pixel weight through the adjoint, constant field = length inside the volume); non-trivial = some "
             "segment crosses >= 3 pixels"),
    Sub(name="los_split", check=los_split_check, strategy=los_split_recipes, quick=320, thorough=12000, shards=4,
        rule="LOSResponse metamorphic: splitting a segment at a generated interior point adds, reversing the "
             "orientation changes nothing; non-trivial = both parts of some split segment intersect the grid volume"),
    Sub(name="sampling_los", check=slos_check, strategy=slos_recipes, quick=72, thorough=2500, shards=4, jax=True,
        rule="nifty.re SamplingCartesianGridLOS on multilinear functions vs the closed-form line integral within the "
             "mid-point-rule bound |segment| max|g''|/(24 n^2), output shape for every documented start/end shape; "
             "non-trivial = >= 2 axes or curved integrand"),
    Sub(name="nufft_sums", check=nufft_check, strategy=nufft_recipes, quick=480, thorough=20000, shards=6,
        rule="Nufft / Gridder times and adjoint_times vs explicit Fourier sums; non-trivial = off-grid positions and "
             "(>= 2 axes or >= 2 points)"),
    Sub(name="nufft_vs_fft", check=nufft_fft_check, strategy=nufft_fft_recipes, quick=240, thorough=8000, shards=4,
        rule="Nufft / Gridder at all FFT grid points (optionally shifted by whole periods) vs numpy.fft and vs "
             "FFTOperator; non-trivial = >= 4 pixels and (>= 2 axes or shifted periods)"),
    Sub(name="varpos_nufft", check=varpos_check, strategy=varpos_recipes, quick=240, thorough=8000, shards=6,
        rule="VariablePositionNufft value and Jacobian (times/adjoint) vs the explicit type-2 sum and its derivative; "
             "ShiftedPositionFFT vs its explicit sum and the FFT at zero/integer shifts; non-trivial = >= 2 axes or "
             ">= 2 points (varpos), non-zero shifts on >= 3 pixels (shifted)"),
    Sub(name="interp_multilinear", check=interp_check, strategy=interp_recipes, quick=600, thorough=20000, shards=4,
        rule="LinearInterpolator on products of 1-D affine functions vs the closed form (incl. the periodic wrap "
             "cell), node values of arbitrary fields, invariance under whole periods; non-trivial = >= 2 axes or a "
             "point outside the box"),
    Sub(name="regrid_loops", check=regrid_check, strategy=regrid_recipes, quick=320, thorough=10000, shards=4,
        rule="RegriddingOperator vs explicit index loops (rational positions) and exactness on multilinear functions; "
             "non-trivial = at least one axis shrinks"),
    Sub(name="zeropad_loops", check=pad_check, strategy=pad_recipes, quick=320, thorough=10000, shards=4,
        rule="FieldZeroPadder (end / central) vs explicit index loops; non-trivial = at least one axis grows"),
    Sub(name="mask_loops", check=mask_check, strategy=mask_recipes, quick=320, thorough=10000, shards=4,
        rule="MaskOperator vs explicit C-order selection loop, adjoint zero-fills; non-trivial = some but not all "
             "pixels flagged"),
]
