"""C11 - classic likelihood energies are negative log-pdfs with Fisher metrics (DESIGN 2/C11).

Representation
--------------
Every input of an energy is handled in its *real representation*: keys of a MultiDomain in the
library's (sorted) order, per key the C-order flattened values, a complex key as [Re, Im].
Gradients, metrics (dense, by basis vectors) and Jacobians of `get_transformation()` are
compared in that representation with closed forms / scipy.stats written down in this file.

Recipes
-------
leaf sub-checks : {"leaf": leafspec, "x": params, "x2": params}
composite       : {"lat": {"single": bool, "keys": {key: {"dom": domspec, "cplx": bool}}},
                   "terms": [{"leaf": leafspec, "model": tree|None, "scale": None|[c, how, where],
                              "name": None|str}, ...],
                   "group": "flat"|"left"|"right", "ham": None|{"ic": bool, "psdt": ...},
                   "v": {key: [...]}, "v2": {key: [...]}}
domspec  : ["un", n] | ["rg", n, dist] | ["rg2", n0, n1] | ["unun", n0, n1]
leafspec : {"fam": "gauss"|"poisson"|"bernoulli"|"studentt"|"invgamma"|"categorical"|"vcg", "dom": domspec, ...}
model tree (value lives on the leaf's domain):
  ["id", key] | ["lin", key, M, b] | ["exp", t] | ["sig", t] | ["softmax", axis, t] | ["add", t, t] |
  ["mul", t, t] | ["cast", t] (real -> complex through Realizer.adjoint) | for vcg: {"r": t, "i": t}
"""
import numpy as np
from hypothesis import strategies as st
from scipy import integrate, stats

import nifty.cl as ift
from vlib import Discard, Sub, close, require
from vlib import nx
from vlib import strat as S

PROPERTY = "C11"
LEVEL = "exploration"
TECHNIQUE = "PBT: scipy.stats log-pdf differences, closed-form scores and Fisher matrices, dense metric / pull-back"
RULE = ("Per likelihood family a strategy draws data and parameters on the family's valid range (dyadic "
        "numbers, <= 6 pixels, 1-D/2-D/two-space domains, real and complex where supported); composite "
        "strategies draw sums, positive scalings, compositions with small nonlinear models over one or "
        "several input keys and StandardHamiltonian wrappers. Oracle: E(x1)-E(x2) against differences of "
        "scipy.stats log-pdfs; gradient against the closed-form score (itself cross-checked against a "
        "4th-order finite difference of the scipy log-pdf); dense metric against the closed-form Fisher "
        "matrix (J^T F J for compositions, c*F for scalings, sums for sums, +1 for the Hamiltonian); "
        "dense Jacobian J_f of get_transformation(): J_f^T J_f == metric, for "
        "VariableCovarianceGaussianEnergy in expectation over the residual by Gauss-Hermite quadrature.")
LEVEL_TEXT = ("Generated search over all eight classic likelihood energies, their scalings, sums, model "
              "compositions and the standard Hamiltonian with an oracle that never uses NIFTy: scipy.stats "
              "densities, closed-form scores and Fisher matrices (verified once per run against quadrature / "
              "exact summation of score^2 under the scipy pdf). Exploration, not proof: <= 6 pixels per field, "
              "<= 3 summands, model depth <= 3.")
LEVEL_NOTE = ("Trusted: scipy.stats log-pdfs, NumPy linear algebra, the harness' closed forms (cross-checked "
              "numerically in every case and in the oracle_selftest sub-check). Device (GPU) paths, sampling "
              "from the metric and normalized_residual are not covered.")
ASSUMPTIONS = [
    "'up to parameter-independent constants' is checked as E(x1;d)-E(x2;d) == -logpdf(d|x1)+logpdf(d|x2)",
    "complex Gaussians follow the library convention: real and imaginary part independent, each with the stated "
    "covariance (energy 0.5 r^H D^-1 r); complex parameters are compared in the real representation [Re, Im]",
    "InverseGammaEnergy: data beta ~ Gamma(shape alpha+1, scale x) (same x-dependence as the inverse-gamma "
    "density of x documented in the class); alpha > -1",
    "StudentTEnergy: data 0 with location parameter f, unit scale; CategoricalEnergy: input normalised along "
    "the category axis; its Fisher matrix is demanded on the tangent space of the simplex only (the ambient "
    "metric enters through the exact pull-back relation)",
    "VariableCovarianceGaussianEnergy: data = residual ~ N(0, 1/icov) (complex: per part); with "
    "use_full_fisher=True the metric is the Fisher matrix and the documented local transformation pulls the "
    "identity back to it in expectation over the residual; with use_full_fisher=False (documented: same "
    "approximation as get_transformation) the metric equals the pull-back exactly and the Fisher matrix in "
    "expectation",
    "scaling factors are positive; likelihood names in a sum are distinct (a collision raises by contract)",
    "tolerance 1e-9 * max(1, |reference|, magnitude bound of the reference's terms)",
    "sandwich inverse covariances use bun = generated matrix + 2n*identity (well conditioned by construction)",
]

TOL = 1e-9


# ====================================================================== domains and representations
def mkdom(spec):
    k = spec[0]
    if k == "un":
        return ift.DomainTuple.make(ift.UnstructuredDomain(spec[1]))
    if k == "rg":
        return ift.DomainTuple.make(ift.RGSpace(spec[1], distances=spec[2]))
    if k == "rg2":
        return ift.DomainTuple.make(ift.RGSpace((spec[1], spec[2])))
    if k == "unun":
        return ift.DomainTuple.make((ift.UnstructuredDomain(spec[1]), ift.UnstructuredDomain(spec[2])))
    if k == "multi":
        return ift.MultiDomain.make({kk: mkdom(v) for kk, v in spec[1].items()})
    raise ValueError(k)


def domsize(spec):
    if spec[0] == "multi":
        return sum(domsize(v) for v in spec[1].values())
    return spec[1] if spec[0] in ("un", "rg") else spec[1] * spec[2]


class Layout:
    """real representation of fields on `dom` (DomainTuple or MultiDomain)"""

    def __init__(self, dom, cplx):
        self.dom = dom
        self.multi = isinstance(dom, ift.MultiDomain)
        self.parts = []          # (key, subdomain, offset, size, cplx)
        ofs = 0
        for k in (list(dom.keys()) if self.multi else [None]):
            sub = dom[k] if self.multi else dom
            c = bool(cplx[k]) if isinstance(cplx, dict) else bool(cplx)
            self.parts.append((k, sub, ofs, sub.size, c))
            ofs += sub.size * (2 if c else 1)
        self.size = ofs

    def slice(self, key):
        for k, sub, ofs, sz, c in self.parts:
            if k == key:
                return ofs, sz, c
        raise KeyError(key)

    def field(self, v):
        v = np.asarray(v, dtype=np.float64)
        res = {}
        for k, sub, ofs, sz, c in self.parts:
            if c:
                a = (v[ofs:ofs + sz] + 1j * v[ofs + sz:ofs + 2 * sz]).reshape(sub.shape)
            else:
                a = np.array(v[ofs:ofs + sz]).reshape(sub.shape)
            res[k] = ift.makeField(sub, np.array(a))
        if not self.multi:
            return res[None]
        return ift.MultiField.from_dict(res, self.dom)

    def rep(self, f):
        """(real representation, max |imaginary part| found on real keys)"""
        out, leak = [], 0.0
        for k, sub, ofs, sz, c in self.parts:
            a = np.asarray((f[k] if self.multi else f).asnumpy()).reshape(-1)
            if c:
                a = a.astype(np.complex128)
                out += [a.real, a.imag]
            else:
                if np.iscomplexobj(a):
                    leak = max(leak, float(np.max(np.abs(a.imag))) if a.size else 0.0)
                    a = a.real
                out.append(a.astype(np.float64))
        return np.concatenate(out), leak


def out_rep(f):
    """generic real representation [Re, Im] per key of any field (targets of transformations)"""
    parts = [f[k] for k in f.domain.keys()] if isinstance(f, ift.MultiField) else [f]
    res = []
    for p in parts:
        a = np.asarray(p.asnumpy()).reshape(-1).astype(np.complex128)
        res += [a.real, a.imag]
    return np.concatenate(res) if res else np.zeros(0)


def dense_endo(op, lay, kind):
    require(op.domain == lay.dom and op.target == lay.dom, kind + ":domain",
            f"metric domain {op.domain} / target {op.target} vs input domain {lay.dom}")
    cols, leak = [], 0.0
    for j in range(lay.size):
        e = np.zeros(lay.size)
        e[j] = 1.0
        r, lk = lay.rep(op(lay.field(e)))
        leak = max(leak, lk)
        cols.append(r)
    return np.stack(cols, axis=1), leak


def dense_jac(J, lay):
    cols = []
    for j in range(lay.size):
        e = np.zeros(lay.size)
        e[j] = 1.0
        cols.append(out_rep(J(lay.field(e))))
    return np.stack(cols, axis=1)


def crep(z):
    z = np.asarray(z, dtype=np.complex128).reshape(-1)
    return np.concatenate([z.real, z.imag])


def cmat_rep(M):
    """real representation of the complex-linear map z -> M z"""
    M = np.asarray(M, dtype=np.complex128)
    return np.block([[M.real, -M.imag], [M.imag, M.real]])


class DenseLin(ift.LinearOperator):
    """harness-defined linear map with an explicit matrix between flattened fields"""

    def __init__(self, dom, tgt, M):
        self._domain = ift.DomainTuple.make(dom)
        self._target = ift.DomainTuple.make(tgt)
        self._M = np.asarray(M)
        self._capability = self.TIMES | self.ADJOINT_TIMES

    def apply(self, x, mode):
        self._check_input(x, mode)
        v = np.asarray(x.asnumpy()).reshape(-1)
        if mode == self.TIMES:
            return ift.makeField(self._target, np.array((self._M @ v).reshape(self._target.shape)))
        return ift.makeField(self._domain, np.array((self._M.conj().T @ v).reshape(self._domain.shape)))


# ====================================================================== leaf oracles (closed forms + scipy)
class Ora:
    fisher_exact = True     # metric is documented to be the Fisher matrix
    trafo_exact = True      # transformation pulls the identity back to the metric exactly
    tangent = None          # function y -> basis matrix of admissible directions (None: all)

    def hscale(self, y):
        return np.ones(len(y))


class GaussOra(Ora):
    def __init__(self, P, drep):
        self.P = P
        self.d = drep
        self.n = len(drep)
        self.C = np.linalg.inv(P)
        self.C = 0.5 * (self.C + self.C.T)
        self.dist = stats.multivariate_normal(mean=np.zeros(self.n), cov=self.C, allow_singular=False)

    def logp(self, y):
        return float(self.dist.logpdf(self.d - y))

    def score(self, y):
        return self.P @ (y - self.d)

    def fisher(self, y):
        return self.P


class PoissonOra(Ora):
    def __init__(self, d):
        self.d = np.asarray(d, dtype=np.int64).reshape(-1)
        self.n = self.d.size

    def logp(self, y):
        return float(np.sum(stats.poisson.logpmf(self.d, y)))

    def score(self, y):
        return 1.0 - self.d / y

    def fisher(self, y):
        return np.diag(1.0 / y)

    def hscale(self, y):
        return np.asarray(y)


class BernoulliOra(Ora):
    def __init__(self, d):
        self.d = np.asarray(d, dtype=np.int64).reshape(-1)
        self.n = self.d.size

    def logp(self, y):
        return float(np.sum(stats.bernoulli.logpmf(self.d, y)))

    def score(self, y):
        return -self.d / y + (1 - self.d) / (1.0 - y)

    def fisher(self, y):
        return np.diag(1.0 / (y * (1.0 - y)))

    def hscale(self, y):
        return np.minimum(y, 1.0 - y)


class StudentTOra(Ora):
    def __init__(self, theta, n):
        self.th = np.broadcast_to(np.asarray(theta, dtype=np.float64).reshape(-1), (n,)).copy()
        self.n = n

    def logp(self, y):
        return float(np.sum(stats.t.logpdf(0.0, df=self.th, loc=y)))

    def score(self, y):
        return (self.th + 1.0) * y / (self.th + y * y)

    def fisher(self, y):
        return np.diag((self.th + 1.0) / (self.th + 3.0))


class InvGammaOra(Ora):
    def __init__(self, beta, alpha):
        self.b = np.asarray(beta, dtype=np.float64).reshape(-1)
        self.n = self.b.size
        self.a = np.broadcast_to(np.asarray(alpha, dtype=np.float64).reshape(-1), (self.n,)).copy()

    def logp(self, y):
        return float(np.sum(stats.gamma.logpdf(self.b, a=self.a + 1.0, scale=y)))

    def logp_alt(self, y):
        """inverse-gamma density of the parameter (documented form), defined for alpha > 0"""
        if not np.all(self.a > 0):
            return None
        return float(np.sum(stats.invgamma.logpdf(y, a=self.a, scale=self.b)))

    def score(self, y):
        return (self.a + 1.0) / y - self.b / (y * y)

    def fisher(self, y):
        return np.diag((self.a + 1.0) / (y * y))

    def hscale(self, y):
        return np.asarray(y)


class CategoricalOra(Ora):
    def __init__(self, d, shape, axis):
        self.shape = tuple(shape)
        self.axis = axis
        self.d = np.asarray(d, dtype=np.int64).reshape(self.shape)
        self.n = self.d.size

    def _cols(self, a):
        """(ncat, nrest) view with categories first"""
        return np.moveaxis(np.asarray(a).reshape(self.shape), self.axis, 0).reshape(self.shape[self.axis], -1)

    def logp(self, y):
        p, d = self._cols(y), self._cols(self.d)
        return float(sum(stats.multinomial.logpmf(d[:, j], n=1, p=p[:, j]) for j in range(p.shape[1])))

    def score(self, y):
        return -self.d.reshape(-1) / y

    def fisher(self, y):
        return np.diag(1.0 / y)

    def tangent(self, y):
        """columns: e_(c,j) - e_(0,j) for every category c >= 1 and every other index j"""
        idx = np.arange(self.n).reshape(self.shape)
        ic = self._cols(idx)
        cols = []
        for j in range(ic.shape[1]):
            for c in range(1, ic.shape[0]):
                t = np.zeros(self.n)
                t[ic[c, j]] = 1.0
                t[ic[0, j]] = -1.0
                cols.append(t)
        return np.stack(cols, axis=1) if cols else np.zeros((self.n, 0))

    def hscale(self, y):
        return np.asarray(y)


class VCGOra(Ora):
    """parameter layout given by `lay` (keys kr, ki in the library's order)"""

    def __init__(self, lay, kr, ki, cplx, full_fisher):
        self.lay, self.kr, self.ki, self.cplx = lay, kr, ki, cplx
        self.n = lay.size
        self.fisher_exact = bool(full_fisher)
        self.trafo_exact = not full_fisher
        self.c = 1.0 if cplx else 0.5

    def split(self, y):
        o, s, c = self.lay.slice(self.kr)
        parts = [y[o:o + s], y[o + s:o + 2 * s]] if c else [y[o:o + s]]
        oi, si, _ = self.lay.slice(self.ki)
        return parts, y[oi:oi + si]

    def logp(self, y):
        parts, iv = self.split(y)
        return float(sum(np.sum(stats.norm.logpdf(p, loc=0.0, scale=iv ** -0.5)) for p in parts))

    def score(self, y):
        parts, iv = self.split(y)
        g = np.zeros(self.n)
        o, s, c = self.lay.slice(self.kr)
        sq = np.zeros(s)
        for a, p in enumerate(parts):
            g[o + a * s:o + (a + 1) * s] = iv * p
            sq = sq + p * p
        oi, si, _ = self.lay.slice(self.ki)
        g[oi:oi + si] = 0.5 * sq - self.c / iv
        return g

    def fisher(self, y):
        parts, iv = self.split(y)
        f = np.zeros(self.n)
        o, s, c = self.lay.slice(self.kr)
        for a in range(len(parts)):
            f[o + a * s:o + (a + 1) * s] = iv
        oi, si, _ = self.lay.slice(self.ki)
        f[oi:oi + si] = self.c / (iv * iv)
        return np.diag(f)

    def hscale(self, y):
        h = np.ones(self.n)
        oi, si, _ = self.lay.slice(self.ki)
        h[oi:oi + si] = y[oi:oi + si]
        return h


# ---------------------------------------------------------------------- composite oracles
class ScaledOra(Ora):
    def __init__(self, o, c):
        self.o, self.c, self.n = o, float(c), o.n
        self.fisher_exact, self.trafo_exact = o.fisher_exact, o.trafo_exact
        self.tangent = o.tangent

    def logp(self, y):
        return self.c * self.o.logp(y)

    def score(self, y):
        return self.c * self.o.score(y)

    def fisher(self, y):
        return self.c * self.o.fisher(y)

    def hscale(self, y):
        return self.o.hscale(y)


class SumOra(Ora):
    def __init__(self, os_):
        self.os = list(os_)
        self.n = self.os[0].n
        self.fisher_exact = all(o.fisher_exact for o in self.os)
        self.trafo_exact = all(o.trafo_exact for o in self.os)
        tg = [o.tangent for o in self.os if o.tangent is not None]
        self.tangent = tg[0] if tg else None
        if len(tg) > 1:
            raise RuntimeError("sum of two constrained leaves on one domain is not generated")

    def logp(self, y):
        return sum(o.logp(y) for o in self.os)

    def score(self, y):
        return sum(o.score(y) for o in self.os)

    def fisher(self, y):
        return sum(o.fisher(y) for o in self.os)

    def hscale(self, y):
        return np.min(np.stack([o.hscale(y) for o in self.os]), axis=0)


class ComposedOra(Ora):
    def __init__(self, o, model):
        self.o, self.m, self.n = o, model, model.nlat
        self.fisher_exact, self.trafo_exact = o.fisher_exact, o.trafo_exact
        self.tangent = None if model.into_tangent else o.tangent
        if o.tangent is not None and not model.into_tangent and not model.is_selection:
            raise RuntimeError("constrained leaf behind a model that does not respect the constraint")
        if self.tangent is not None:
            base = o.tangent

            def tangent(v):
                J = self.m.jac(v)            # 0/1 selection matrix
                free = np.eye(self.n)[:, np.abs(J).sum(axis=0) == 0]
                return np.concatenate([J.T @ base(self.m.fwd(v)), free], axis=1)
            self.tangent = tangent

    def logp(self, v):
        return self.o.logp(self.m.fwd(v))

    def score(self, v):
        return self.m.jac(v).T @ self.o.score(self.m.fwd(v))

    def fisher(self, v):
        J = self.m.jac(v)
        return J.T @ self.o.fisher(self.m.fwd(v)) @ J

    def fisher_bound(self, v):
        J = np.abs(self.m.jac(v))
        return float(np.max(J.T @ np.abs(self.o.fisher(self.m.fwd(v))) @ J)) if J.size else 0.0

    def hscale(self, v):
        if self.m.is_selection:
            return self.m.jac(v).T @ self.o.hscale(self.m.fwd(v)) + (1.0 - np.abs(self.m.jac(v)).sum(axis=0))
        return np.ones(self.n)


class PriorOra(Ora):
    def __init__(self, n):
        self.n = n

    def logp(self, v):
        return float(np.sum(stats.norm.logpdf(v)))

    def score(self, v):
        return np.asarray(v, dtype=np.float64)

    def fisher(self, v):
        return np.eye(self.n)


# ====================================================================== leaf builders (NIFTy + oracle)
class Leaf:
    def __init__(self, E, ora, lay, classes):
        self.E, self.ora, self.lay, self.classes = E, ora, lay, classes


def _sdt(flag, cplx):
    if not flag:
        return None
    return np.complex128 if cplx else np.float64


def _bun_matrix(raw, n, cplx):
    M = nx.arr(raw).astype(np.complex128 if cplx else np.float64).reshape(n, n)
    return M + 2.0 * n * np.eye(n)


def _icov(spec, dom, n, sdt, cplx_ok):
    """-> (nifty operator, dense complex matrix, class label)"""
    k = spec[0]
    if k == "scal":
        return ift.ScalingOperator(dom, float(spec[1]), sdt), float(spec[1]) * np.eye(n), "scal"
    if k == "diag":
        v = np.array(spec[1], dtype=np.float64)
        op = ift.DiagonalOperator(ift.makeField(dom, v.reshape(dom.shape)), sampling_dtype=sdt)
        return op, np.diag(v), "diag"
    if k == "sand":
        mc = bool(spec[3]) and cplx_ok
        M = _bun_matrix(spec[1], n, mc)
        bun = ift.MatrixProductOperator(dom, M, flatten=len(dom.shape) > 1)
        if spec[2] is None:
            op = ift.SandwichOperator.make(bun, None, sampling_dtype=sdt)
            return op, M.conj().T @ M, "sand(None)" + ("_cbun" if mc else "")
        ch, C, lab = _icov(spec[2], dom, n, sdt, cplx_ok)
        return ift.SandwichOperator.make(bun, ch), M.conj().T @ C @ M, f"sand({lab})" + ("_cbun" if mc else "")
    raise ValueError(k)


def _multi_rep(lay, vals):
    out = []
    for k, sub, ofs, sz, c in lay.parts:
        a = nx.arr(vals[k])
        out.append(crep(a) if c else np.asarray(a, dtype=np.float64).reshape(-1))
    return np.concatenate(out)


def leaf_gauss_multi(sp):
    """GaussianEnergy on a MultiDomain: data MultiField / None, inverse covariance None / scaling / diagonal"""
    dom = mkdom(sp["dom"])
    cplx = bool(sp["cplx"])
    dt = np.complex128 if cplx else np.float64
    lay = Layout(dom, cplx)
    data = None
    if sp["data"] is not None:
        data = ift.MultiField.from_dict(
            {k: ift.makeField(dom[k], np.array(nx.arr(sp["data"][k]).astype(dt).reshape(dom[k].shape))) for k in dom.keys()}, dom)
    cl = ["multidomain", "complex" if cplx else "real", "data" if data is not None else "data_None"]
    ic = sp["icov"]
    sdt = _sdt(sp["sdt"], cplx)
    if ic is None:
        E = ift.GaussianEnergy(domain=dom, sampling_dtype=dt) if data is None else ift.GaussianEnergy(data=data)
        prec = {k: np.ones(dom[k].size) for k in dom.keys()}
        cl.append("icov_None")
    elif ic[0] == "scal":
        E = ift.GaussianEnergy(data=data, inverse_covariance=ift.ScalingOperator(dom, float(ic[1]), sdt))
        prec = {k: float(ic[1]) * np.ones(dom[k].size) for k in dom.keys()}
        cl.append("icov_scal")
    else:
        prec = {k: np.array(ic[1][k], dtype=np.float64) for k in dom.keys()}
        mf = ift.MultiField.from_dict({k: ift.makeField(dom[k], prec[k].reshape(dom[k].shape)) for k in dom.keys()}, dom)
        E = ift.GaussianEnergy(data=data, inverse_covariance=ift.makeOp(mf, sampling_dtype=sdt))
        cl.append("icov_diag")
    pr = np.concatenate([np.tile(prec[k], 2 if c else 1) for k, _, _, _, c in lay.parts])
    drep = _multi_rep(lay, sp["data"]) if data is not None else np.zeros(lay.size)
    return Leaf(E, GaussOra(np.diag(pr), drep), lay, cl)


def leaf_gauss(sp):
    if sp["dom"][0] == "multi":
        return leaf_gauss_multi(sp)
    dom = mkdom(sp["dom"])
    n = dom.size
    cplx = bool(sp["cplx"])
    dt = np.complex128 if cplx else np.float64
    lay = Layout(dom, cplx)
    data = None
    if sp["data"] is not None:
        data = ift.makeField(dom, np.array(nx.arr(sp["data"]).astype(dt).reshape(dom.shape)))
    cl = ["complex" if cplx else "real", "data" if data is not None else "data_None", "dom_" + sp["dom"][0]]
    if sp["icov"] is None:
        if data is None:
            E = ift.GaussianEnergy(domain=dom, sampling_dtype=dt)
        elif sp.get("dom_kw"):
            E = ift.GaussianEnergy(data=data, domain=dom)
        else:
            E = ift.GaussianEnergy(data=data)
        D = np.eye(n)
        cl.append("icov_None")
    else:
        op, D, lab = _icov(sp["icov"], dom, n, _sdt(sp["sdt"], cplx), cplx)
        E = ift.GaussianEnergy(data=data, inverse_covariance=op)
        cl.append("icov_" + lab.split("(")[0])
        cl.append("icov=" + lab)
        cl.append("sampling_dtype_set" if sp["sdt"] else "sampling_dtype_None")
    D = np.asarray(D, dtype=np.complex128)
    if cplx:
        P = cmat_rep(D)
        drep = crep(data.asnumpy()) if data is not None else np.zeros(2 * n)
    else:
        P = np.array(D.real)
        drep = np.asarray(data.asnumpy(), dtype=np.float64).reshape(-1) if data is not None else np.zeros(n)
    P = 0.5 * (P + P.T)
    return Leaf(E, GaussOra(P, drep), lay, cl)


# integer data may come in any integer dtype (counts and event masks are often stored as small or unsigned ints)
INT_DT = {"i8": np.int64, "i4": np.int32, "i2": np.int16, "i1": np.int8, "u1": np.uint8, "u2": np.uint16,
          "u4": np.uint32, "u8": np.uint64}


def leaf_poisson(sp):
    dom = mkdom(sp["dom"])
    d = np.array(sp["d"], dtype=INT_DT[sp.get("dt", "i8")]).reshape(dom.shape)
    E = ift.PoissonianEnergy(ift.makeField(dom, d))
    cl = ["dom_" + sp["dom"][0], "has_zero_count" if np.any(d == 0) else "all_counts_positive", "data_" + sp.get("dt", "i8")]
    return Leaf(E, PoissonOra(d), Layout(dom, False), cl)


def leaf_bernoulli(sp):
    dom = mkdom(sp["dom"])
    d = np.array(sp["d"], dtype=INT_DT[sp.get("dt", "i8")]).reshape(dom.shape)
    E = ift.BernoulliEnergy(ift.makeField(dom, d))
    cl = ["dom_" + sp["dom"][0], "mixed" if 0 < d.sum() < d.size else ("all1" if d.sum() else "all0"),
          "data_" + sp.get("dt", "i8")]
    return Leaf(E, BernoulliOra(d), Layout(dom, False), cl)


def leaf_studentt(sp):
    dom = mkdom(sp["dom"])
    th = sp["theta"]
    if isinstance(th, list):
        thf = ift.makeField(dom, np.array(th, dtype=np.float64).reshape(dom.shape))
        E = ift.StudentTEnergy(dom, thf)
        cl = ["theta_field"]
    else:
        E = ift.StudentTEnergy(dom, th)
        cl = ["theta_scalar_" + type(th).__name__]
    cl.append("dom_" + sp["dom"][0])
    return Leaf(E, StudentTOra(th, dom.size), Layout(dom, False), cl)


def leaf_invgamma(sp):
    dom = mkdom(sp["dom"])
    beta = ift.makeField(dom, np.array(sp["beta"], dtype=np.float64).reshape(dom.shape))
    al = sp["alpha"]
    if al is None:
        E = ift.InverseGammaEnergy(beta)
        alv, cl = -0.5, ["alpha_default"]
    elif isinstance(al, list):
        E = ift.InverseGammaEnergy(beta, ift.makeField(dom, np.array(al, dtype=np.float64).reshape(dom.shape)))
        alv, cl = al, ["alpha_field"]
    else:
        E = ift.InverseGammaEnergy(beta, al)
        alv, cl = al, ["alpha_scalar_" + type(al).__name__]
    cl.append("dom_" + sp["dom"][0])
    return Leaf(E, InvGammaOra(sp["beta"], alv), Layout(dom, False), cl)


def leaf_categorical(sp):
    dom = mkdom(sp["dom"])
    d = np.array(sp["d"], dtype=np.int64).reshape(dom.shape)
    ax = sp["axis"]
    E = ift.CategoricalEnergy(ift.makeField(dom, d)) if ax is None else ift.CategoricalEnergy(ift.makeField(dom, d), axis=ax)
    a = 0 if ax is None else ax
    cl = ["dom_" + sp["dom"][0], "axis_" + str(ax), f"ncat{dom.shape[a]}", f"nrest{dom.size // dom.shape[a]}"]
    return Leaf(E, CategoricalOra(d, dom.shape, a), Layout(dom, False), cl)


def leaf_vcg(sp):
    dom = mkdom(sp["dom"])
    cplx = bool(sp["cplx"])
    kr, ki = sp["kr"], sp["ki"]
    dt = np.complex128 if cplx else np.float64
    if sp["uff"] is None:
        E = ift.VariableCovarianceGaussianEnergy(dom, kr, ki, dt)
        uff = True
    else:
        uff = bool(sp["uff"])
        E = ift.VariableCovarianceGaussianEnergy(dom, kr, ki, dt, use_full_fisher=uff)
    lay = Layout(E.domain, {kr: cplx, ki: False})
    cl = ["complex" if cplx else "real", "full_fisher" if uff else "approx_fisher", "dom_" + sp["dom"][0],
          "residual_key_first" if list(E.domain.keys())[0] == kr else "icov_key_first"]
    return Leaf(E, VCGOra(lay, kr, ki, cplx, uff), lay, cl)


LEAVES = {"gauss": leaf_gauss, "poisson": leaf_poisson, "bernoulli": leaf_bernoulli, "studentt": leaf_studentt,
          "invgamma": leaf_invgamma, "categorical": leaf_categorical, "vcg": leaf_vcg}


def build_leaf(sp):
    lf = LEAVES[sp["fam"]](sp)
    lf.classes = [sp["fam"] + ":" + c for c in lf.classes]
    return lf


# ====================================================================== models (NumPy forward/Jacobian + NIFTy operator)
def _softmax_groups(shape, axis):
    idx = np.arange(int(np.prod(shape))).reshape(shape)
    return np.moveaxis(idx, axis, 0).reshape(shape[axis], -1)


class Model:
    """maps the latent real representation to the leaf's parameter representation"""

    def __init__(self, tree, latlay, single, leaf):
        self.tree, self.lat, self.single, self.leaf = tree, latlay, single, leaf
        self.nlat = latlay.size
        self.dom = leaf.lay.dom
        self.vcg = isinstance(self.dom, ift.MultiDomain)
        self.is_selection = self._sel(tree)
        self.into_tangent = (not self.vcg) and tree is not None and tree[0] == "softmax"
        self.kinds = set()

    def _sel(self, t):
        if t is None:
            return True
        if isinstance(t, dict):
            return all(self._sel(c) for c in t.values())
        return t[0] == "id"

    # ---------------------------------------------------------------- numpy
    def _ev(self, t, v, shape):
        """-> (value rep, jacobian rep, is_complex)"""
        k = t[0]
        self.kinds.add(k)
        if k == "id":
            o, s, c = self.lat.slice(None if self.single else t[1])
            w = s * (2 if c else 1)
            J = np.zeros((w, self.nlat))
            J[np.arange(w), o + np.arange(w)] = 1.0
            return np.array(v[o:o + w]), J, c
        if k == "lin":
            z, J, c = self._ev(t[1], v, shape)
            M = nx.arr(t[2])
            b = None if t[3] is None else nx.arr(t[3])
            if c:
                Mr = cmat_rep(M)
                br = 0.0 if b is None else crep(b)
            else:
                Mr = np.asarray(M, dtype=np.float64)
                br = 0.0 if b is None else np.asarray(b, dtype=np.float64)
            return Mr @ z + br, Mr @ J, c
        if k == "cast":
            z, J, c = self._ev(t[1], v, shape)
            if c:
                raise RuntimeError("cast of a complex node")
            return np.concatenate([z, np.zeros_like(z)]), np.concatenate([J, np.zeros_like(J)], axis=0), True
        if k == "exp":
            z, J, c = self._ev(t[1], v, shape)
            if not c:
                if np.any(np.abs(z) > 12):
                    raise Discard()
                w = np.exp(z)
                return w, w[:, None] * J, False
            m = z.size // 2
            if np.any(np.abs(z[:m]) > 12):
                raise Discard()
            w = np.exp(z[:m] + 1j * z[m:])
            D = np.block([[np.diag(w.real), -np.diag(w.imag)], [np.diag(w.imag), np.diag(w.real)]])
            return crep(w), D @ J, True
        if k == "sig":
            z, J, c = self._ev(t[1], v, shape)
            th = np.tanh(z)
            return 0.5 + 0.5 * th, (0.5 * (1.0 - th * th))[:, None] * J, False
        if k == "softmax":
            z, J, c = self._ev(t[2], v, shape)
            if np.any(np.abs(z) > 12):
                raise Discard()
            g = _softmax_groups(shape, t[1])
            p = np.zeros_like(z)
            Js = np.zeros((z.size, z.size))
            for j in range(g.shape[1]):
                ids = g[:, j]
                e = np.exp(z[ids])
                p[ids] = e / e.sum()
                Js[np.ix_(ids, ids)] = np.diag(p[ids]) - np.outer(p[ids], p[ids])
            return p, Js @ J, False
        if k in ("add", "mul"):
            a, Ja, ca = self._ev(t[1], v, shape)
            b, Jb, cb = self._ev(t[2], v, shape)
            if ca or cb:
                raise RuntimeError("binary nodes are real")
            if k == "add":
                return a + b, Ja + Jb, False
            return a * b, a[:, None] * Jb + b[:, None] * Ja, False
        raise ValueError(k)

    def _both(self, v):
        v = np.asarray(v, dtype=np.float64)
        lay = self.leaf.lay
        if self.tree is None:
            if self.vcg:
                y, J = np.zeros(lay.size), np.zeros((lay.size, self.nlat))
                for k, sub, ofs, sz, c in lay.parts:
                    o, s, cc = self.lat.slice(k)
                    w = s * (2 if cc else 1)
                    y[ofs:ofs + w] = v[o:o + w]
                    J[ofs + np.arange(w), o + np.arange(w)] = 1.0
                return y, J
            return np.array(v), np.eye(self.nlat)
        if self.vcg:
            y, J = np.zeros(lay.size), np.zeros((lay.size, self.nlat))
            ora = self.leaf.ora
            for role, key in (("r", ora.kr), ("i", ora.ki)):
                ofs, sz, c = lay.slice(key)
                z, Jz, cz = self._ev(self.tree[role], v, lay.dom[key].shape)
                if bool(cz) != bool(c):
                    raise RuntimeError("model type does not match the key's type")
                y[ofs:ofs + z.size] = z
                J[ofs:ofs + z.size] = Jz
            return y, J
        z, J, c = self._ev(self.tree, v, lay.dom.shape)
        if bool(c) != bool(lay.parts[0][4]):
            raise RuntimeError("model type does not match the leaf's type")
        return z, J

    def fwd(self, v):
        return self._both(v)[0]

    def jac(self, v):
        return self._both(v)[1]

    # ---------------------------------------------------------------- nifty
    def _op(self, t, dom):
        k = t[0]
        if k == "id":
            kd = self.lat.dom if self.single else self.lat.dom[t[1]]
            if self.single:
                return ift.ScalingOperator(kd, 1.0)
            return ift.FieldAdapter(kd, t[1])
        if k == "lin":
            c = self._op(t[1], dom)
            M = nx.arr(t[2])
            op = DenseLin(c.target, dom, M) @ c
            if t[3] is not None:
                b = nx.arr(t[3])
                op = ift.Adder(ift.makeField(dom, np.array(b.reshape(dom.shape)))) @ op
            return op
        if k == "cast":
            return ift.Realizer(dom).adjoint @ self._op(t[1], dom)
        if k == "exp":
            return self._op(t[1], dom).exp()
        if k == "sig":
            return self._op(t[1], dom).ptw("sigmoid")
        if k == "softmax":
            e = self._op(t[2], dom).exp()
            C = ift.ContractionOperator(dom, t[1])
            return e * (C.adjoint @ C @ e).reciprocal()
        if k == "add":
            return self._op(t[1], dom) + self._op(t[2], dom)
        if k == "mul":
            return self._op(t[1], dom) * self._op(t[2], dom)
        raise ValueError(k)

    def apply_to(self, E, call):
        """E composed with the model (None: E itself)"""
        if self.tree is None:
            return E
        if self.vcg:
            ora = self.leaf.ora
            op = self._op(self.tree["r"], self.dom[ora.kr]).ducktape_left(ora.kr) + \
                self._op(self.tree["i"], self.dom[ora.ki]).ducktape_left(ora.ki)
        else:
            if self.tree[0] == "id" and self.single:
                return E
            if self.tree[0] == "id" and call == 2:
                return E.ducktape(self.tree[1])
            op = self._op(self.tree, self.dom)
        return E(op) if call == 1 else E @ op


def params_valid(ora, y):
    """parameters strictly inside the family's domain (with a margin keeping round-off harmless)"""
    if isinstance(ora, (PoissonOra, InvGammaOra)):
        return bool(np.all(y >= 1. / 64) and np.all(y <= 1e4))
    if isinstance(ora, BernoulliOra):
        return bool(np.all(y >= 1e-3) and np.all(y <= 1 - 1e-3))
    if isinstance(ora, CategoricalOra):
        return bool(np.all(y >= 1e-3))
    if isinstance(ora, VCGOra):
        _, iv = ora.split(y)
        return bool(np.all(iv >= 1. / 64) and np.all(iv <= 1e3) and np.all(np.abs(y) <= 1e3))
    return bool(np.all(np.abs(y) <= 1e4))


def _scaled(E, c, how):
    if how == "lmul":
        return c * E
    if how == "rmul":
        return E * c
    if how == "scale":
        return E.scale(c)
    if how == "scalop":
        return ift.ScalingOperator(E.target, c) @ E
    if how == "call":
        return ift.ScalingOperator(E.target, c)(E)
    raise ValueError(how)


class Composite:
    def __init__(self, rec):
        lat = rec["lat"]
        self.single = bool(lat["single"])
        keys = lat["keys"]
        if self.single:
            dom = mkdom(keys[""]["dom"])
            self.lay = Layout(dom, keys[""]["cplx"])
        else:
            dom = ift.MultiDomain.make({k: mkdom(s["dom"]) for k, s in keys.items()})
            self.lay = Layout(dom, {k: s["cplx"] for k, s in keys.items()})
        self.classes, ops, oras, self.models = [], [], [], []
        for t in rec["terms"]:
            lf = build_leaf(t["leaf"])
            if t.get("name") is not None:
                lf.E.name = t["name"]
                self.classes.append("named")
            m = Model(t["model"], self.lay, self.single, lf)
            sc = t.get("scale")
            E, o = lf.E, lf.ora
            if sc is not None and sc[2] == "inner":
                E, o = _scaled(E, sc[0], sc[1]), ScaledOra(o, sc[0])
            E = m.apply_to(E, t.get("call", 0))
            o = ComposedOra(o, m)
            if sc is not None and sc[2] != "inner":
                E, o = _scaled(E, sc[0], sc[1]), ScaledOra(o, sc[0])
            if sc is not None:
                self.classes += ["scale_" + sc[1], "scale_" + sc[2], "scale_int" if isinstance(sc[0], int) else "scale_float"]
            ops.append(E)
            oras.append(o)
            self.models.append(m)
            self.classes += lf.classes
            self.classes.append("model_none" if t["model"] is None else
                                ("model_vcg" if isinstance(t["model"], dict) else "model_" + t["model"][0]))
        if len(ops) == 1:
            E, o = ops[0], oras[0]
        else:
            g = rec.get("group", "flat")
            if g == "left" and len(ops) == 3:
                E = (ops[0] + ops[1]) + ops[2]
            elif g == "right" and len(ops) == 3:
                E = ops[0] + (ops[1] + ops[2])
            else:
                E = ops[0]
                for q in ops[1:]:
                    E = E + q
            o = SumOra(oras)
            self.classes += [f"sum{len(ops)}", "group_" + g]
        self.lh, self.lh_ora = E, o
        ham = rec.get("ham")
        if ham is not None:
            kw = {}
            if ham.get("ic"):
                kw["ic_samp"] = ift.GradientNormController(iteration_limit=5)
            ps = ham.get("psdt")
            if ps == "float":
                kw["prior_sampling_dtype"] = np.float64
            elif ps == "match":
                flags = {k: (np.complex128 if c else np.float64) for k, _, _, _, c in self.lay.parts}
                kw["prior_sampling_dtype"] = flags[None] if self.single else flags
            E = ift.StandardHamiltonian(E, **kw)
            o = SumOra([o, PriorOra(self.lay.size)])
            self.classes += ["ham", "ham_ic" if ham.get("ic") else "ham_noic", "ham_psdt_" + str(ps)]
        self.E, self.ora = E, o

    def rep_of(self, vals):
        out = []
        for k, sub, ofs, sz, c in self.lay.parts:
            a = nx.arr(vals["" if k is None else k])
            out.append(crep(a) if c else np.asarray(a, dtype=np.float64).reshape(-1))
        return np.concatenate(out)

    def check_valid(self, v):
        for m in self.models:
            if not params_valid(m.leaf.ora, m.fwd(v)):
                raise Discard()


# ====================================================================== the generic oracle relations
def _scalar(f, kind):
    require(isinstance(f, ift.Field) and f.domain is ift.DomainTuple.scalar_domain(), kind + ":not_scalar_field",
            f"{type(f).__name__} on {getattr(f, 'domain', None)}")
    a = np.asarray(f.asnumpy())
    require(a.shape == (), kind + ":shape", f"{a.shape}")
    if np.iscomplexobj(a):
        require(a.imag == 0, kind + ":complex_value", f"{a}")
        a = a.real
    return float(a)


def num_dir(f, v, t, h):
    """4th-order central difference of f along direction t with step h"""
    return (-f(v + 2 * h * t) + 8 * f(v + h * t) - 8 * f(v - h * t) + f(v - 2 * h * t)) / (12 * h)


def selfcheck_score(ora, v):
    """harness soundness: the closed-form score is minus the numerical derivative of the scipy log-pdf"""
    gc = ora.score(v)
    hs = ora.hscale(v)
    if ora.tangent is None:
        T = np.eye(ora.n)
    else:
        T = ora.tangent(v)
    for j in range(T.shape[1]):
        t = T[:, j]
        nzs = hs[t != 0]
        h = 1e-3 * float(np.min(nzs)) if nzs.size else 1e-3
        num = -num_dir(ora.logp, v, t, h)
        ref = float(t @ gc)
        if not abs(num - ref) <= 2e-6 * (1.0 + abs(ref) + float(np.max(np.abs(gc)))):
            raise RuntimeError(f"oracle self-check failed: closed-form score {ref} vs numerical {num} "
                               f"(direction {j}, {type(ora).__name__})")
    return gc


def verify(E, ora, lay, v1, v2, trafo=True, pre=""):
    """all relations of the property for energy E against oracle `ora` at points v1 (full) and v2 (value)"""
    info = {}
    require(E.domain == lay.dom, pre + "energy_domain", f"{E.domain} vs expected {lay.dom}")
    require(E.target is ift.DomainTuple.scalar_domain(), pre + "energy_target", f"{E.target}")
    x1, x2 = lay.field(v1), lay.field(v2)
    e1 = _scalar(E(x1), pre + "value")
    e2 = _scalar(E(x2), pre + "value")
    l1, l2 = ora.logp(v1), ora.logp(v2)
    if not (np.isfinite(l1) and np.isfinite(l2)):
        raise Discard()
    close(e1 - e2, -(l1 - l2), pre + "value_vs_logpdf", tol=TOL,
          scale=1.0 + abs(e1) + abs(e2) + abs(l1) + abs(l2), detail=f"E={e1},{e2} logp={l1},{l2}")
    lin = E(ift.Linearization.make_var(x1, True))
    close(_scalar(lin.val, pre + "lin_value"), e1, pre + "lin_value_vs_plain", tol=1e-12, scale=1.0 + abs(e1))
    # gradient
    gc = selfcheck_score(ora, v1)
    grad = lin.gradient
    require(grad.domain == lay.dom, pre + "gradient_domain", f"{grad.domain}")
    g, leak = lay.rep(grad)
    gs = max(1.0, float(np.max(np.abs(gc))))
    require(leak <= TOL * gs, pre + "gradient_imag_on_real_key", f"{leak}")
    close(g, gc, pre + "gradient_vs_score", tol=TOL, scale=gs, detail=f"\nnifty={g}\nscore={gc}")
    # metric
    require(lin.metric is not None, pre + "metric_missing", "want_metric=True but metric is None")
    M, leak = dense_endo(lin.metric, lay, pre + "metric")
    F = ora.fisher(v1)
    fs = max(1.0, float(np.max(np.abs(F))), float(np.max(np.abs(M))))
    for o in getattr(ora, "os", [ora]):
        if hasattr(o, "fisher_bound"):
            fs = max(fs, o.fisher_bound(v1))
    require(leak <= TOL * fs, pre + "metric_imag_on_real_key", f"{leak}")
    close(M, M.T, pre + "metric_symmetric", tol=TOL, scale=fs)
    if ora.fisher_exact:
        if ora.tangent is None:
            close(M, F, pre + "metric_vs_fisher", tol=TOL, scale=fs, detail=f"\nnifty=\n{M}\nfisher=\n{F}")
        else:
            T = ora.tangent(v1)
            close(T.T @ M @ T, T.T @ F @ T, pre + "metric_vs_fisher_tangent", tol=TOL, scale=4 * fs,
                  detail=f"\nnifty=\n{M}\nfisher=\n{F}")
        info["fisher"] = True
    # transformation
    if trafo:
        require(isinstance(E, ift.LikelihoodEnergyOperator), pre + "not_a_likelihood", type(E).__name__)
        tr = E.get_transformation()
        require(tr is not None and len(tr) == 2, pre + "transformation_missing", repr(tr))
        f = tr[1]
        require(f.domain == lay.dom, pre + "transformation_domain", f"{f.domain}")
        Jd = dense_jac(f(ift.Linearization.make_var(x1)).jac, lay)
        G = Jd.T @ Jd
        info["G"] = G
        if ora.trafo_exact:
            close(G, M, pre + "pullback_vs_metric", tol=TOL, scale=fs, detail=f"\nJ^T J=\n{G}\nmetric=\n{M}")
            Mg, _ = dense_endo(E.get_metric_at(x1), lay, pre + "get_metric_at")
            close(Mg, M, pre + "get_metric_at_vs_metric", tol=TOL, scale=fs)
            info["pullback"] = True
    return info


def _leaf_rep(lf, x):
    if isinstance(lf.ora, VCGOra):
        vals = {lf.ora.kr: x["r"], lf.ora.ki: x["i"]}
        out = []
        for k, sub, ofs, sz, c in lf.lay.parts:
            a = nx.arr(vals[k])
            out.append(crep(a) if c else np.asarray(a, dtype=np.float64).reshape(-1))
        return np.concatenate(out)
    if isinstance(lf.ora, CategoricalOra):
        w = np.array(x["w"], dtype=np.float64).reshape(lf.ora.shape)
        return (w / w.sum(axis=lf.ora.axis, keepdims=True)).reshape(-1)
    if lf.lay.multi:
        return _multi_rep(lf.lay, x)
    a = nx.arr(x)
    return crep(a) if lf.lay.parts[0][4] else np.asarray(a, dtype=np.float64).reshape(-1)


def check_leaf(rec):
    lf = build_leaf(rec["leaf"])
    v1, v2 = _leaf_rep(lf, rec["x"]), _leaf_rep(lf, rec["x2"])
    if not (params_valid(lf.ora, v1) and params_valid(lf.ora, v2)):
        raise Discard()
    info = verify(lf.E, lf.ora, lf.lay, v1, v2)
    cl = list(lf.classes)
    if isinstance(lf.ora, InvGammaOra):
        a1, a2 = lf.ora.logp_alt(v1), lf.ora.logp_alt(v2)
        if a1 is not None:
            e1 = _scalar(lf.E(lf.lay.field(v1)), "value")
            e2 = _scalar(lf.E(lf.lay.field(v2)), "value")
            close(e1 - e2, -(a1 - a2), "value_vs_invgamma_logpdf", tol=TOL,
                  scale=1.0 + abs(e1) + abs(e2) + abs(a1) + abs(a2))
            cl.append("invgamma:alt_density_checked")
    if isinstance(lf.ora, VCGOra):
        cl += _vcg_expectation(lf, v1, info)
    npix = sum(p[3] for p in lf.lay.parts) if rec["leaf"]["fam"] != "vcg" else lf.lay.parts[0][3]
    cl.append("npix%d" % npix)
    return dict(nontrivial=npix >= 2, classes=cl)


_GH = {k: np.polynomial.hermite_e.hermegauss(k) for k in (2, 3)}


def _vcg_expectation(lf, v, info):
    """E_r[J_f^T J_f] over the residual r ~ N(0, 1/icov) (complex: per part) == Fisher matrix.
    Tensor Gauss-Hermite rule with 3 points per real component (exact up to degree 5), 2 points (exact up
    to degree 3) for the 4 real components of a complex 2-pixel residual; the pull-back of the documented
    transformation is quadratic in r, so both are exact on a correct tree."""
    ora, lay = lf.ora, lf.lay
    o, s, c = lay.slice(ora.kr)
    w = s * (2 if c else 1)
    if w > 4:
        return ["vcg:expectation_skipped_large"]
    _, iv = ora.split(v)
    sig = np.tile(iv ** -0.5, 2 if c else 1)
    nn = 3 if w <= 3 else 2
    nodes, wts = _GH[nn][0], _GH[nn][1] / np.sum(_GH[nn][1])
    f = lf.E.get_transformation()[1]
    acc = np.zeros((lay.size, lay.size))
    for idx in np.ndindex(*([nn] * w)):
        vv = np.array(v)
        vv[o:o + w] = nodes[list(idx)] * sig
        Jd = dense_jac(f(ift.Linearization.make_var(lay.field(vv))).jac, lay)
        acc += float(np.prod(wts[list(idx)])) * (Jd.T @ Jd)
    F = ora.fisher(v)
    close(acc, F, "expected_pullback_vs_fisher", tol=TOL, scale=max(1.0, float(np.max(np.abs(F)))),
          detail=f"\nE[J^T J]=\n{acc}\nfisher=\n{F}")
    return ["vcg:expectation_checked"]


def check_composite(rec):
    cp = Composite(rec)
    v1, v2 = cp.rep_of(rec["v"]), cp.rep_of(rec["v2"])
    cp.check_valid(v1)
    cp.check_valid(v2)
    for m in cp.models:          # harness soundness: model Jacobians against finite differences
        J = m.jac(v1)
        for j in range(m.nlat):
            e = np.zeros(m.nlat)
            e[j] = 1.0
            num = num_dir(m.fwd, v1, e, 1e-3)
            if not np.max(np.abs(num - J[:, j])) <= 1e-6 * (1.0 + np.max(np.abs(J))):
                raise RuntimeError("oracle self-check failed: model Jacobian")
    ham = rec.get("ham") is not None
    # free latent directions of a constrained (categorical) leaf used directly: only tangent steps are valid
    info = verify(cp.E, cp.ora, cp.lay, v1, v2, trafo=not ham)
    cl = list(cp.classes)
    if ham:
        # the likelihood inside keeps its own relations
        info = verify(cp.lh, cp.lh_ora, cp.lay, v1, v2, trafo=True, pre="lh:")
    for m in cp.models:
        cl += ["node_" + k for k in sorted(m.kinds)]
    cl.append("multi_key" if not cp.single else "single_domain")
    if any(c for _, _, _, _, c in cp.lay.parts):
        cl.append("complex_input")
    cl.append("pullback_exact" if info.get("pullback") else "pullback_not_exact(vcg_full_fisher)")
    nt = ham or len(rec["terms"]) > 1 or any(t["model"] is not None or t.get("scale") for t in rec["terms"])
    return dict(nontrivial=bool(nt), classes=cl)


# ====================================================================== strategies: leaves
def _dy(lo, hi, den=8):
    return S.dyadic(lo, hi, den)


@st.composite
def dom_st(draw, maxn=4, flat_only=False):
    kinds = ["un", "un", "rg"] if flat_only else ["un", "un", "rg", "rg2", "unun"]
    k = draw(st.sampled_from(kinds))
    if k == "un":
        return ["un", draw(st.integers(1, maxn))]
    if k == "rg":
        return ["rg", draw(st.integers(1, maxn)), draw(st.sampled_from([0.5, 1.0, 2.0, 0.25]))]
    a, b = draw(st.sampled_from([(2, 2), (1, 3), (2, 1), (3, 2), (2, 3)]))
    return [k, a, b]


def _num(cplx, lo=-4, hi=4, den=8):
    return S.cplx(_dy(lo, hi, den)) if cplx else _dy(lo, hi, den)


@st.composite
def _icov_st(draw, n, cplx, depth=0):
    k = draw(st.sampled_from(["scal", "diag", "sand", "sand"] if depth == 0 else ["scal", "diag", "sand"]))
    pos = S.dyadic_nz(0.25, 4, 8, signed=False)
    if k == "scal":
        return ["scal", draw(pos)]
    if k == "diag":
        return ["diag", draw(S.vec(n, pos))]
    mc = cplx and draw(st.booleans())
    M = draw(S.mat(n, n, _num(mc, -1, 1, 4)))
    if depth >= 1:
        ch = draw(st.one_of(st.none(), st.builds(lambda c: ["scal", c], pos),
                            st.builds(lambda v: ["diag", v], S.vec(n, pos))))
    else:
        ch = draw(st.one_of(st.none(), _icov_st(n, cplx, depth + 1)))
    return ["sand", M, ch, mc]


@st.composite
def gauss_leaf(draw, dom=None, cplx=None, maxn=4, multi_ok=False):
    if multi_ok and dom is None and draw(st.integers(0, 5)) == 0:
        keys = draw(st.sampled_from([["a", "b"], ["x", "b", "y"], ["k"]]))
        doms = {k: draw(dom_st(2)) for k in keys}
        c = draw(st.booleans())
        pos = S.dyadic_nz(0.25, 4, 8, signed=False)
        data = draw(st.one_of(st.none(), st.fixed_dictionaries({k: S.vec(domsize(doms[k]), _num(c)) for k in keys})))
        icov = draw(st.one_of(st.none(), st.builds(lambda v: ["scal", v], pos),
                              st.builds(lambda v: ["mdiag", v],
                                        st.fixed_dictionaries({k: S.vec(domsize(doms[k]), pos) for k in keys}))))
        return {"fam": "gauss", "dom": ["multi", doms], "cplx": c, "data": data, "icov": icov, "sdt": draw(st.booleans())}
    dom = dom or draw(dom_st(maxn))
    n = domsize(dom)
    if cplx is None:
        cplx = draw(st.booleans())
    data = draw(st.one_of(st.none(), S.vec(n, _num(cplx)), S.vec(n, _num(cplx)), S.vec(n, _num(cplx))))
    icov = draw(st.one_of(st.none(), _icov_st(n, cplx), _icov_st(n, cplx), _icov_st(n, cplx)))
    return {"fam": "gauss", "dom": dom, "cplx": cplx, "data": data, "icov": icov,
            "sdt": draw(st.booleans()), "dom_kw": draw(st.booleans())}


@st.composite
def poisson_leaf(draw, dom=None, maxn=4):
    dom = dom or draw(dom_st(maxn))
    return {"fam": "poisson", "dom": dom, "d": draw(S.vec(domsize(dom), st.integers(0, 20))),
            "dt": draw(st.sampled_from(["i8", "i8", "i4", "i2", "i1", "u1", "u2", "u4", "u8"]))}


@st.composite
def bernoulli_leaf(draw, dom=None, maxn=4):
    dom = dom or draw(dom_st(maxn))
    return {"fam": "bernoulli", "dom": dom, "d": draw(S.vec(domsize(dom), st.integers(0, 1))),
            "dt": draw(st.sampled_from(["i8", "i8", "i4", "i2", "i1", "u1", "u2", "u4", "u8"]))}


@st.composite
def studentt_leaf(draw, dom=None, maxn=4):
    dom = dom or draw(dom_st(maxn))
    th = draw(st.one_of(_dy(0.5, 16, 4), st.integers(1, 10), S.vec(domsize(dom), _dy(0.5, 16, 4))))
    return {"fam": "studentt", "dom": dom, "theta": th}


@st.composite
def invgamma_leaf(draw, dom=None, maxn=4):
    dom = dom or draw(dom_st(maxn))
    n = domsize(dom)
    al = draw(st.one_of(st.none(), _dy(-0.75, 4, 4), st.integers(0, 4), S.vec(n, _dy(-0.75, 4, 4))))
    return {"fam": "invgamma", "dom": dom, "beta": draw(S.vec(n, _dy(0.125, 8, 8))), "alpha": al}


@st.composite
def categorical_leaf(draw, contractible=False):
    kinds = ["un", "unun"] if contractible else ["un", "unun", "rg2", "rg"]
    k = draw(st.sampled_from(kinds))
    if k in ("un", "rg"):
        nc = draw(st.integers(2, 5))
        dom = ["un", nc] if k == "un" else ["rg", nc, 0.5]
        axis = draw(st.sampled_from([0, None]))
        hot = [draw(st.integers(0, nc - 1))]
        d = [1 if i == hot[0] else 0 for i in range(nc)]
        return {"fam": "categorical", "dom": dom, "axis": axis, "d": d}
    a, b = draw(st.sampled_from([(2, 2), (3, 2), (2, 3), (1, 3), (3, 1), (4, 1)]))
    axis = draw(st.sampled_from([0, 1, None]))
    ax = 0 if axis is None else axis
    nc, nr = (a, b) if ax == 0 else (b, a)
    hot = draw(S.vec(nr, st.integers(0, nc - 1)))
    d = np.zeros((a, b), dtype=int)
    for j, h in enumerate(hot):
        if ax == 0:
            d[h, j] = 1
        else:
            d[j, h] = 1
    return {"fam": "categorical", "dom": [k, a, b], "axis": axis, "d": d.reshape(-1).tolist()}


VCG_KEYS = [("res", "icov"), ("r", "i"), ("zz", "invcov"), ("b", "a")]


@st.composite
def vcg_leaf(draw, composite=False, cplx=None):
    if cplx is None:
        cplx = draw(st.booleans())
    dom = draw(dom_st(2 if cplx else 3, flat_only=True))
    kr, ki = draw(st.sampled_from(VCG_KEYS[:3] if composite else VCG_KEYS))
    if draw(st.booleans()):
        kr, ki = ki, kr
    return {"fam": "vcg", "dom": dom, "cplx": cplx, "kr": kr, "ki": ki,
            "uff": draw(st.sampled_from([None, True, False]))}


def params_st(leaf):
    """strategy of valid direct parameters of a leaf"""
    fam = leaf["fam"]
    n = domsize(leaf["dom"])
    if fam == "gauss":
        if leaf["dom"][0] == "multi":
            return st.fixed_dictionaries({k: S.vec(domsize(d), _num(leaf["cplx"])) for k, d in leaf["dom"][1].items()})
        return S.vec(n, _num(leaf["cplx"]))
    if fam == "poisson":
        return S.vec(n, _dy(0.125, 20, 8))
    if fam == "bernoulli":
        return S.vec(n, _dy(1. / 64, 63. / 64, 64))
    if fam == "studentt":
        return S.vec(n, _dy(-4, 4, 8))
    if fam == "invgamma":
        return S.vec(n, _dy(0.25, 8, 8))
    if fam == "categorical":
        return st.fixed_dictionaries({"w": S.vec(n, st.integers(1, 8))})
    if fam == "vcg":
        return st.fixed_dictionaries({"r": S.vec(n, _num(leaf["cplx"])), "i": S.vec(n, _dy(0.25, 4, 8))})
    raise ValueError(fam)


LEAF_ST = {"gauss": gauss_leaf, "poisson": poisson_leaf, "bernoulli": bernoulli_leaf, "studentt": studentt_leaf,
           "invgamma": invgamma_leaf, "categorical": categorical_leaf, "vcg": vcg_leaf}


def leaf_recipes(fam):
    @st.composite
    def rec(draw, tier):
        leaf = draw(gauss_leaf(multi_ok=True)) if fam == "gauss" else draw(LEAF_ST[fam]())
        return {"leaf": leaf, "x": draw(params_st(leaf)), "x2": draw(params_st(leaf))}
    return rec


# ====================================================================== strategies: models and composites
FREE = _dy(-1.5, 1.5, 8)
POSV = _dy(0.25, 8, 8)
UNITV = _dy(1. / 64, 63. / 64, 64)


class _Gen:
    """bookkeeping of latent keys while a composite recipe is drawn"""

    def __init__(self, draw, single, single_cplx=False):
        self.draw, self.single = draw, single
        self.keys, self.vals = {}, {}
        if single:
            n = draw(st.integers(1, 3))
            self.keys[""] = {"dom": ["un", n], "cplx": bool(single_cplx)}
            self.vals[""] = S.vec(n, _num(single_cplx, -1.5, 1.5, 8))

    def free(self, cplx):
        """an input key of the requested type holding unconstrained numbers (None: not available)"""
        if self.single:
            return "" if self.keys[""]["cplx"] == bool(cplx) else None
        have = [k for k in ("a", "b", "c") if k in self.keys and self.keys[k]["cplx"] == bool(cplx)]
        new = [k for k in ("a", "b", "c") if k not in self.keys]
        if have and (not new or self.draw(st.integers(0, 2)) > 0):
            return self.draw(st.sampled_from(have))
        if not new:
            return None
        k = new[0]
        n = self.draw(st.integers(1, 3))
        self.keys[k] = {"dom": ["un", n], "cplx": bool(cplx)}
        self.vals[k] = S.vec(n, _num(cplx, -1.5, 1.5, 8))
        return k

    def direct(self, key, dom, cplx, valst):
        self.keys[key] = {"dom": dom, "cplx": bool(cplx)}
        self.vals[key] = valst

    def size(self, key):
        return domsize(self.keys[key]["dom"])

    # ------------------------------------------------------------ trees with value on a domain of m pixels
    def lin(self, m, cplx, amp, child=None):
        d = self.draw
        if child is None:
            key = self.free(cplx)
            if key is None:
                return None
            child, nin = ["id", key], self.size(key)
        else:
            nin = m
        M = d(S.mat(m, nin, _num(cplx, -amp, amp, 8)))
        b = d(st.one_of(st.none(), S.vec(m, _num(cplx, -1, 1, 4))))
        return ["lin", child, M, b]

    def real_any(self, m, small=False, depth=1):
        d = self.draw
        amp = 0.5 if small else 1.0
        k = d(st.sampled_from(["lin", "lin", "add", "mul", "deep"])) if depth > 0 else "lin"
        if self.free_real_unavailable():
            return None
        if k == "lin":
            return self.lin(m, False, amp)
        if k in ("add", "mul"):
            a, b = self.lin(m, False, amp), self.lin(m, False, amp if k == "add" else 1.0)
            return [k, a, b]
        inner = d(st.sampled_from(["sig", "sig", "exp"])) if not small else "sig"
        return self.lin(m, False, amp, child=[inner, self.lin(m, False, 0.5)])

    def free_real_unavailable(self):
        return self.single and self.keys[""]["cplx"]

    def positive(self, m):
        k = self.draw(st.sampled_from(["exp", "exp", "mul", "add"]))
        if self.free_real_unavailable():
            return None
        if k == "exp":
            return ["exp", self.real_any(m, small=True)]
        return [k, ["exp", self.lin(m, False, 0.5)], ["exp", self.lin(m, False, 0.5)]]

    def unit(self, m):
        if self.free_real_unavailable():
            return None
        return ["sig", self.real_any(m, small=True)]

    def simplex(self, m, axis):
        if self.free_real_unavailable():
            return None
        return ["softmax", axis, self.real_any(m, small=True)]

    def cplx(self, m):
        opts = []
        if not self.single or self.keys[""]["cplx"]:
            opts += ["clin", "clin", "cexp"]
        if not self.free_real_unavailable():
            opts += ["castlin", "cast"]
        k = self.draw(st.sampled_from(opts))
        if k == "clin":
            t = self.lin(m, True, 1.0)
            return t if t is not None else ["cast", self.real_any(m)]
        if k == "cexp":
            t = self.lin(m, True, 0.5)
            return ["exp", t] if t is not None else ["cast", self.real_any(m)]
        if k == "castlin":
            return self.lin(m, True, 1.0, child=["cast", self.real_any(m)])
        return ["cast", self.real_any(m)]

    def model_for(self, leaf):
        fam, m = leaf["fam"], domsize(leaf["dom"])
        if fam == "gauss":
            return self.cplx(m) if leaf["cplx"] else self.real_any(m)
        if fam == "studentt":
            return self.real_any(m)
        if fam in ("poisson", "invgamma"):
            return self.positive(m)
        if fam == "bernoulli":
            return self.unit(m)
        if fam == "categorical":
            return self.simplex(m, 0 if leaf["axis"] is None else leaf["axis"])
        if fam == "vcg":
            return {"r": self.cplx(m) if leaf["cplx"] else self.real_any(m), "i": self.positive(m)}
        raise ValueError(fam)


def _has_none(t):
    if t is None:
        return True
    if isinstance(t, dict):
        return any(_has_none(c) for c in t.values())
    if isinstance(t, list) and t and isinstance(t[0], str):
        if t[0] == "id":
            return False
        if t[0] == "lin":
            return _has_none(t[1])
        if t[0] == "softmax":
            return _has_none(t[2])
        return any(_has_none(c) for c in t[1:])
    return False


ALLFAM = ["gauss", "gauss", "poisson", "bernoulli", "studentt", "invgamma", "categorical", "vcg", "vcg"]
SCALE_HOW = ["lmul", "rmul", "scale", "scalop", "call"]


def _leaf_for_composite(draw, fam, dom=None, cplx=None):
    if fam == "categorical":
        return draw(categorical_leaf(contractible=True))
    if fam == "vcg":
        return draw(vcg_leaf(composite=True, cplx=cplx))
    if fam == "gauss":
        return draw(gauss_leaf(dom=dom, cplx=cplx, maxn=3))
    return draw(LEAF_ST[fam](dom=dom, maxn=3))


def _scale_st(draw):
    c = draw(st.one_of(S.dyadic_nz(0.25, 4, 4, signed=False), st.integers(1, 3)))
    return [c, draw(st.sampled_from(SCALE_HOW)), draw(st.sampled_from(["inner", "outer"]))]


def composite_recipes(mode):
    """mode: scaled | summed | composed | ham"""
    @st.composite
    def rec(draw, tier):
        nterms = {"scaled": 1, "composed": 1, "summed": draw(st.integers(2, 3)), "ham": draw(st.integers(1, 2))}[mode]
        layout = draw(st.sampled_from({"composed": ["single_model", "multi", "multi"],
                                       "scaled": ["single_direct", "single_model", "multi"],
                                       "summed": ["single_direct", "single_model", "multi", "multi"],
                                       "ham": ["single_direct", "single_model", "multi"]}[mode]))
        terms = []
        if layout == "single_direct":
            rng = draw(st.sampled_from(["pos", "unit", "any"]))
            fams = {"pos": ["poisson", "invgamma", "gauss", "studentt"], "unit": ["bernoulli", "gauss", "studentt"],
                    "any": ["gauss", "studentt", "gauss"]}[rng]
            cplx = rng == "any" and draw(st.booleans())
            if cplx:
                fams = ["gauss"]
            dom = draw(dom_st(3))
            g = _Gen(draw, False)
            g.single = True
            valst = {"pos": POSV, "unit": UNITV, "any": _num(cplx)}[rng]
            g.direct("", dom, cplx, S.vec(domsize(dom), valst))
            if nterms == 1 and mode in ("scaled", "ham") and draw(st.integers(0, 3)) == 0 and not cplx:
                # one direct VariableCovarianceGaussianEnergy: its two keys are the input
                leaf = draw(vcg_leaf(composite=True))
                g = _Gen(draw, False)
                n = domsize(leaf["dom"])
                g.direct(leaf["kr"], leaf["dom"], leaf["cplx"], S.vec(n, _num(leaf["cplx"])))
                g.direct(leaf["ki"], leaf["dom"], False, S.vec(n, _dy(0.25, 4, 8)))
                terms.append({"leaf": leaf, "model": None})
            else:
                for _ in range(nterms):
                    fam = draw(st.sampled_from(fams))
                    terms.append({"leaf": _leaf_for_composite(draw, fam, dom=dom, cplx=cplx), "model": None})
        else:
            single = layout == "single_model"
            fams = [draw(st.sampled_from(ALLFAM)) for _ in range(nterms)]
            scplx = single and all(f == "gauss" for f in fams) and draw(st.booleans())
            g = _Gen(draw, single, scplx)
            ndirect = 0
            for fam in fams:
                leaf = _leaf_for_composite(draw, fam, cplx=True if scplx else None)
                if (not single) and fam not in ("categorical",) and mode != "composed" and draw(st.integers(0, 3)) == 0 \
                        and not (fam == "vcg" and any(t["leaf"]["fam"] == "vcg" and t["model"] is None for t in terms)):
                    if fam == "vcg":
                        n = domsize(leaf["dom"])
                        g.direct(leaf["kr"], leaf["dom"], leaf["cplx"], S.vec(n, _num(leaf["cplx"])))
                        g.direct(leaf["ki"], leaf["dom"], False, S.vec(n, _dy(0.25, 4, 8)))
                        terms.append({"leaf": leaf, "model": None})
                    else:
                        key = "p%d" % ndirect
                        ndirect += 1
                        g.direct(key, leaf["dom"], leaf.get("cplx", False), params_st(leaf))
                        terms.append({"leaf": leaf, "model": ["id", key], "call": draw(st.integers(0, 2))})
                    continue
                model = g.model_for(leaf)
                if _has_none(model):
                    # no input key of the needed type could be created: fall back to a real Gaussian on a real model
                    leaf = draw(gauss_leaf(cplx=scplx, maxn=3))
                    model = g.model_for(leaf)
                terms.append({"leaf": leaf, "model": model, "call": draw(st.integers(0, 1))})
        for i, t in enumerate(terms):
            if mode == "scaled" or (mode in ("summed", "ham") and draw(st.integers(0, 3)) == 0):
                t["scale"] = _scale_st(draw)
            if mode == "summed" and draw(st.integers(0, 2)) == 0:
                t["name"] = ["lh_a", "lh_b", "lh_c"][i]
        out = {"lat": {"single": bool(g.single), "keys": g.keys}, "terms": terms,
               "v": {k: draw(s) for k, s in g.vals.items()}, "v2": {k: draw(s) for k, s in g.vals.items()}}
        if len(terms) == 3:
            out["group"] = draw(st.sampled_from(["flat", "left", "right"]))
        if mode == "ham":
            out["ham"] = {"ic": draw(st.booleans()), "psdt": draw(st.sampled_from([None, "float", "match"]))}
        return out
    return rec


# ====================================================================== oracle self-test: closed-form Fisher vs score^2 under the scipy pdf
def selftest_cases(tier, seed):
    cs = [{"fam": "poisson", "p": v} for v in (0.125, 0.5, 1.0, 2.5, 7.0, 20.0)]
    cs += [{"fam": "bernoulli", "p": v} for v in (1. / 64, 0.25, 0.5, 0.9, 63. / 64)]
    cs += [{"fam": "studentt", "theta": t, "p": v} for t, v in ((0.5, 0.0), (1, 1.5), (3, -2.0), (10, 0.3), (16, 4.0))]
    cs += [{"fam": "invgamma", "alpha": a, "p": v} for a, v in ((-0.5, 1.0), (-0.75, 0.5), (0, 2.0), (2.5, 4.0), (4, 0.25))]
    cs += [{"fam": "gauss", "P": [[v]], "y": [m]} for v, m in ((0.25, 0.0), (1.0, 1.5), (4.0, -2.0))]
    cs += [{"fam": "gauss", "P": [[2.0, 0.5], [0.5, 1.0]], "y": [0.5, -1.0]},
           {"fam": "gauss", "P": [[1.0, -0.75], [-0.75, 3.0]], "y": [0.0, 0.0]},
           {"fam": "gauss", "P": [[0.5, 0.0], [0.0, 0.5]], "y": [1.0, 2.0], "note": "complex 1-pixel, icov 0.5"}]
    cs += [{"fam": "categorical", "p": p} for p in ([0.5, 0.5], [0.125, 0.875], [0.2, 0.3, 0.5], [0.1, 0.2, 0.3, 0.4])]
    cs += [{"fam": "vcg", "cplx": c, "i": i} for c in (False, True) for i in (0.25, 1.0, 4.0)]
    return cs


def _fail(msg):
    raise RuntimeError("oracle self-test failed: " + msg)


def _sq_score(ora, y, data_logp=None):
    """numerical score (all parameter directions) of ora.logp at y"""
    hs = ora.hscale(y)
    return np.array([num_dir(ora.logp, y, np.eye(len(y))[j], 1e-3 * hs[j]) for j in range(len(y))])


def check_selftest(rec):
    fam = rec["fam"]
    if fam == "poisson":
        lam = np.array([rec["p"]])
        num = 0.0
        for d in range(int(lam[0] + 40 * np.sqrt(lam[0]) + 60)):
            o = PoissonOra([d])
            num += np.exp(o.logp(lam)) * _sq_score(o, lam)[0] ** 2
        ref = PoissonOra([0]).fisher(lam)[0, 0]
    elif fam == "bernoulli":
        p = np.array([rec["p"]])
        num = sum(np.exp(BernoulliOra([d]).logp(p)) * _sq_score(BernoulliOra([d]), p)[0] ** 2 for d in (0, 1))
        ref = BernoulliOra([0]).fisher(p)[0, 0]
    elif fam == "studentt":
        o = StudentTOra(rec["theta"], 1)
        # shift family: p(d|f) = p(0|f-d); integrate over u = f-d
        num = integrate.quad(lambda u: np.exp(o.logp(np.array([u]))) * _sq_score(o, np.array([u]))[0] ** 2,
                             -np.inf, np.inf, epsabs=1e-12, epsrel=1e-10, limit=400)[0]
        ref = o.fisher(np.array([rec["p"]]))[0, 0]
    elif fam == "invgamma":
        x = np.array([rec["p"]])

        def integrand(b):
            o = InvGammaOra([b], rec["alpha"])
            return np.exp(o.logp(x)) * _sq_score(o, x)[0] ** 2
        num = integrate.quad(integrand, 0, np.inf, epsabs=1e-12, epsrel=1e-10, limit=400)[0]
        ref = InvGammaOra([1.0], rec["alpha"]).fisher(x)[0, 0]
    elif fam == "gauss":
        P = np.array(rec["P"], dtype=np.float64)
        y = np.array(rec["y"], dtype=np.float64)
        n = len(y)
        C = np.linalg.inv(P)
        sd = np.sqrt(np.diag(C))
        axes = [np.linspace(-12 * s, 12 * s, 97) for s in sd]
        grid = np.stack(np.meshgrid(*axes, indexing="ij"), axis=-1).reshape(-1, n)     # data - y
        w = float(np.prod([a[1] - a[0] for a in axes]))

        def lp(yy):
            return stats.multivariate_normal(mean=yy, cov=C).logpdf(grid + y)
        sc = []
        for j in range(n):
            e = np.eye(n)[j] * 1e-3
            sc.append((-lp(y + 2 * e) + 8 * lp(y + e) - 8 * lp(y - e) + lp(y - 2 * e)) / 12e-3)
        sc = np.stack(sc, axis=1)
        num = np.einsum("k,ki,kj->ij", np.exp(lp(y)) * w, sc, sc)
        ref = GaussOra(P, np.zeros(n)).fisher(y)
    elif fam == "categorical":
        p = np.array(rec["p"], dtype=np.float64)
        k = len(p)
        T = CategoricalOra([1] + [0] * (k - 1), (k,), 0).tangent(p)
        num = np.zeros((k - 1, k - 1))
        for c in range(k):
            o = CategoricalOra([1 if i == c else 0 for i in range(k)], (k,), 0)
            s = np.array([num_dir(o.logp, p, T[:, j], 1e-3 * min(p)) for j in range(k - 1)])
            num += np.exp(o.logp(p)) * np.outer(s, s)
        ref = T.T @ CategoricalOra([1] + [0] * (k - 1), (k,), 0).fisher(p) @ T
    elif fam == "vcg":
        cplx = rec["cplx"]
        dt = np.complex128 if cplx else np.float64
        E = ift.VariableCovarianceGaussianEnergy(ift.UnstructuredDomain(1), "r", "i", dt)   # layout only
        lay = Layout(E.domain, {"r": cplx, "i": False})
        o = VCGOra(lay, "r", "i", cplx, True)
        iv = rec["i"]
        sd = iv ** -0.5
        ax = np.linspace(-12 * sd, 12 * sd, 49)     # spacing sigma/2: trapezoid error ~ exp(-8 pi^2)
        nr = 2 if cplx else 1
        num = np.zeros((lay.size, lay.size))
        oi = lay.slice("i")[0]
        orr = lay.slice("r")[0]
        for idx in np.ndindex(*([len(ax)] * nr)):
            y = np.zeros(lay.size)
            y[oi] = iv
            y[orr:orr + nr] = ax[list(idx)]
            s = _sq_score(o, y)
            num += np.exp(o.logp(y)) * (ax[1] - ax[0]) ** nr * np.outer(s, s)
        y = np.zeros(lay.size)
        y[oi] = iv
        ref = o.fisher(y)
    else:
        raise ValueError(fam)
    num, ref = np.asarray(num), np.asarray(ref)
    if not np.max(np.abs(num - ref)) <= 1e-6 * max(1.0, float(np.max(np.abs(ref)))):
        _fail(f"{rec}: numerical Fisher {num} vs closed form {ref}")
    return dict(nontrivial=True, classes=["selftest:" + fam])


# ====================================================================== sub-checks
def _nt(what):
    return ("non-trivial = non-scalar parameter field (>= 2 pixels); " + what)


# ----------------------------------------------------------------------------- complex gains (scaling models)
def check_gain(rec):
    """GaussianEnergy @ ScalingOperator(c): the model Jacobian IS a ScalingOperator (complex gain / phase), for which
    the library takes a shortcut when pulling the metric back.  Oracle: closed forms in the real representation."""
    n = rec["n"]
    dom = ift.DomainTuple.make(ift.UnstructuredDomain(n))
    cplx = rec["cplx"]
    dt = np.complex128 if cplx else np.float64
    c = nx.num(rec["c"]) if cplx else float(rec["c"]["re"] if isinstance(rec["c"], dict) else rec["c"])
    d = nx.arr(rec["d"]).astype(dt)[:n]
    x = nx.arr(rec["x"]).astype(dt)[:n]
    kind = rec["icov"][0]
    if kind == "none":
        w = np.ones(n)
        E0 = ift.GaussianEnergy(data=ift.makeField(dom, d))
    elif kind == "scal":
        w = np.full(n, float(rec["icov"][1]))
        E0 = ift.GaussianEnergy(data=ift.makeField(dom, d),
                                inverse_covariance=ift.ScalingOperator(dom, float(rec["icov"][1]), dt))
    else:
        w = np.array(rec["icov"][1], dtype=np.float64)[:n]
        E0 = ift.GaussianEnergy(data=ift.makeField(dom, d),
                                inverse_covariance=ift.makeOp(ift.makeField(dom, w), sampling_dtype=dt))
    how = rec["how"]
    S_ = ift.ScalingOperator(dom, c)
    E = E0 @ S_ if how == 0 else (E0(S_) if how == 1 else E0 @ ift.ScalingOperator(dom, 1.0).scale(c))
    xf = ift.makeField(dom, x)
    lin = E(ift.Linearization.make_var(xf, want_metric=True))
    r = c * x - d
    val = 0.5 * float(np.real(np.vdot(r, w * r)))
    close(float(lin.val.asnumpy()), val, "gain_value", tol=1e-10, scale=max(1.0, abs(val)))
    g = np.conj(c) * (w * r)
    close(np.asarray(lin.gradient.asnumpy()).astype(np.complex128), g.astype(np.complex128), "gain_gradient", tol=1e-10,
          scale=max(1.0, float(np.max(np.abs(g)))))
    want = (abs(c) ** 2) * w
    for src, tag in ((lin.metric, "gain_metric"), (E.get_metric_at(xf), "gain_get_metric_at")):
        for k in range(n):
            for unit in ((1.0, 1j) if cplx else (1.0,)):
                e = np.zeros(n, dtype=dt)
                e[k] = unit
                got = np.asarray(src(ift.makeField(dom, e)).asnumpy()).astype(np.complex128)
                close(got, (want * e).astype(np.complex128), tag, tol=1e-10, scale=max(1.0, float(np.max(want))),
                      detail=f"c={c} icov={kind} unit vector {k}*{unit}")
    nonreal = cplx and abs(np.imag(c)) > 0
    return dict(nontrivial=bool(nonreal or c < 0 if not cplx else nonreal),
                classes=["cplx" if cplx else "real", "icov_" + kind, f"how_{how}",
                         "gain_nonreal" if nonreal else "gain_real"])


@st.composite
def gain_recipes(draw, tier):
    n = draw(st.integers(1, 3))
    cplx = draw(st.sampled_from([True, True, False]))
    num = S.cplx_nz() if cplx else S.dyadic_nz()
    icov = draw(st.sampled_from(["none", "scal", "diag"]))
    spec = [icov] if icov == "none" else ([icov, draw(S.dyadic_nz(0.25, 4, 8, signed=False))] if icov == "scal" else
                                          [icov, draw(S.vec(3, S.dyadic_nz(0.25, 4, 8, signed=False)))])
    el = S.cplx() if cplx else S.dyadic()
    return {"n": n, "cplx": cplx, "c": draw(num), "d": draw(S.vec(3, el)), "x": draw(S.vec(3, el)), "icov": spec,
            "how": draw(st.integers(0, 2))}


SUBS = [
    Sub(name="oracle_selftest", check=check_selftest, cases=selftest_cases, shards=4,
        rule="fixed list: the closed-form Fisher matrix of every family against the sum / integral of "
             "(numerical score)^2 under the scipy pdf (a mismatch is a harness error, not a violation)"),
    Sub(name="gaussian", check=check_leaf, strategy=leaf_recipes("gauss"), quick=480, thorough=12000, shards=3,
        rule=_nt("GaussianEnergy with data None/real/complex and inverse covariance None / ScalingOperator / "
                 "DiagonalOperator / SandwichOperator (real or complex bun, nested cheese); 1-D, 2-D, two-space and "
                 "MultiDomain (1-3 keys) domains")),
    Sub(name="poisson", check=check_leaf, strategy=leaf_recipes("poisson"), quick=300, thorough=8000, shards=2,
        rule=_nt("counts 0..20, lambda in [1/8, 20]")),
    Sub(name="bernoulli", check=check_leaf, strategy=leaf_recipes("bernoulli"), quick=300, thorough=8000, shards=2,
        rule=_nt("p in [1/64, 63/64]")),
    Sub(name="studentt", check=check_leaf, strategy=leaf_recipes("studentt"), quick=300, thorough=8000, shards=2,
        rule=_nt("theta scalar (float/int) or field in [1/2, 16]")),
    Sub(name="invgamma", check=check_leaf, strategy=leaf_recipes("invgamma"), quick=300, thorough=8000, shards=2,
        rule=_nt("alpha default / scalar / field in [-3/4, 4], beta in [1/8, 8]")),
    Sub(name="categorical", check=check_leaf, strategy=leaf_recipes("categorical"), quick=300, thorough=8000, shards=2,
        rule=_nt("one-hot data, axis 0 / 1 / default on 1-D, 2-D and two-space domains, normalised input")),
    Sub(name="varcov", check=check_leaf, strategy=leaf_recipes("vcg"), quick=300, thorough=6000, shards=4,
        rule=_nt("VariableCovarianceGaussianEnergy real/complex, use_full_fisher default/True/False, both key "
                 "orders; includes the Gauss-Hermite expectation of the pull-back")),
    Sub(name="scaled", check=check_composite, strategy=composite_recipes("scaled"), quick=320, thorough=8000, shards=3,
        rule="non-trivial = every case (a positive factor applied by c*E, E*c, E.scale(c), ScalingOperator@E or "
             "ScalingOperator(E), inside or outside a model)"),
    Sub(name="summed", check=check_composite, strategy=composite_recipes("summed"), quick=400, thorough=8000, shards=4,
        rule="non-trivial = every case (2-3 summands on a shared domain or over several input keys, flat and "
             "nested sums, optional names and factors)"),
    Sub(name="composed", check=check_composite, strategy=composite_recipes("composed"), quick=400, thorough=10000,
        shards=4, rule="non-trivial = every case (energy applied to a generated model: linear maps, exp, sigmoid, "
                       "softmax, sums and products over 1-3 input keys, real->complex casts)"),
    Sub(name="hamiltonian", check=check_composite, strategy=composite_recipes("ham"), quick=320, thorough=8000,
        shards=3, rule="non-trivial = every case (StandardHamiltonian of 1-2 likelihood terms, with and without "
                       "ic_samp, prior_sampling_dtype None/float/matching)"),
    Sub(name="complex_gain", check=check_gain, strategy=gain_recipes, quick=300, thorough=6000, shards=1,
        rule="GaussianEnergy (none / scaling / diagonal inverse covariance, real and complex data) composed with a "
             "ScalingOperator model with real, negative or complex factor c (three spellings of the composition); "
             "oracle: value 1/2 (cx-d)^H N^-1 (cx-d), gradient conj(c) N^-1 (cx-d), metric and get_metric_at = |c|^2 N^-1 "
             "on all real and imaginary unit vectors; non-trivial = non-real gain (real data: negative gain)"),
]
