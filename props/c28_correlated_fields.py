"""C28 - correlated-field models: implementations agree and scale correctly (DESIGN 2/C28).

Conventions the oracle is built from (docstrings of nifty.cl CorrelatedFieldMaker / add_fluctuations /
add_fluctuations_matern / set_amplitude_total_offset / *_realized, of nifty.re CorrelatedFieldMaker,
NonParametricAmplitude, MaternAmplitude, lognormal_prior, and the mapping used by the repository's own
test/test_re/test_correlated_field.py):

* latent names: <prefix>xi, <prefix>zeromode, <prefix><space prefix>{fluctuations, loglogavgslope, flexibility,
  asperity, spectrum | scale, cutoff, loglogslope}; `spectrum` is (2, nbins-2) in nifty.cl and (nbins-2, 2) in
  nifty.re (transposed); everything else is passed unchanged.
* nifty.cl add_fluctuations describes the *power* spectrum by (slope, smooth deviations); nifty.re offers
  non_parametric_kind="power" (same model) and "amplitude" (the same description applied to the amplitude, i.e. to
  half the log power spectrum).  The log spectrum is linear in loglogavgslope and in flexibility, so
  re[amplitude](slope, flexibility) == cl/re[power](2*slope, 2*flexibility) at equal latents
  (lognormal_prior(2m, 2s) == 2*lognormal_prior(m, s), normal_prior(2m, 2s) == 2*normal_prior(m, s)).
* Matern: A(k) = a (1 + (k/b)^2)^(c/4) (amplitude kind); "power" kind: P(k) = a^2 (1 + (k/b)^2)^(c/4), i.e. the
  amplitude-kind model with c/2.  nifty.cl adjust_for_volume=True == nifty.re renormalize_amplitude=False.
* a realisation is f(x) = offset_mean + HT[a(k) xi(k)] with HT carrying the harmonic volume 1/V; for fixed
  hyper-parameters f is affine in xi and, the amplitude depending on |k| only, its covariance is stationary with
  per-mode variance s_k = a_k^2 / V^2.
* fluctuation statistics (definitions = the *_realized static methods of the classic maker):
  total   : E mean_x (f - mean_x f)^2
  average : E mean_xi (g - mean_xi g)^2 with g = mean over the other sub-spaces of f
  slice   : E mean_x f^2 - E mean_other (mean_xi f)^2
  offset  : E (mean_x f - offset_mean)^2
  predicted by cfm.total_fluctuation / average_fluctuation(i) / slice_fluctuation(i) / amplitude_total_offset
  evaluated at the latent (product formulas: tot^2 = azm^2 (prod_i (1 + fl_i^2/azm^2) - 1),
  slice_i^2 = fl_i^2 prod_{j != i} (1 + fl_j^2/azm^2), average_i = fl_i).
"""
import numpy as np
from hypothesis import strategies as st

import nifty.cl as ift
import nifty.config as nconfig
from vlib import Discard, Sub, Violation, close, require
from vlib import strat as S

PROPERTY = "C28"
LEVEL = "exploration"
RULE = ("Generated correlated-field configurations: 1-2 sub-spaces, each a 1-2-D regular grid (sizes 2-12, per-axis "
        "distances log-uniform in [0.01, 100] and occasionally 3e-7 .. 2.5e5, equal / commensurate / independent) or a HEALPix sphere (agree only), "
        "non-parametric (flexibility / asperity on or off, power and amplitude kind) or Matern amplitudes, both Hartley "
        "conventions, log-normal zero mode (classic also scalar / None), dyadic latent values.  Oracles: (agree) the "
        "differential pair nifty.cl CorrelatedFieldMaker / nifty.re CorrelatedFieldMaker / SimpleCorrelatedField with "
        "latents mapped by the documented key names; (scale) dense matrix A of the field w.r.t. the excitations by "
        "basis vectors, exact covariance A A^T, its mean-removed traces against the model's own predicted "
        "fluctuations, NumPy FFT of the covariance against closed-form spectra (Matern kernel, pure power law), "
        "metamorphic re-gridding.")
LEVEL_TEXT = ("Search over generated grids, volumes, spectra and latent values.  The agreement sub-checks compare the "
              "complete field (and the power spectrum) of the two or three implementations at 1e-9; the scaling "
              "sub-checks compute the exact expected fluctuation statistics from the dense excitation matrix, so a "
              "wrong volume factor, a normalisation that includes the zero mode, a wrong product formula or a wrong "
              "mode-length geometry changes a compared number by O(1) on the first case that exercises it.  "
              "Exploration: grids have at most a few hundred points; total_N > 0 (stacked models with dofdex) is not "
              "generated.")
LEVEL_NOTE = ("Trusted: numpy (fftn, exp, log), the harness' own mode-length geometry |k| = |min(i, n-i)/(n d)|, "
              "the closed forms of the log-normal / normal prior transforms written down in the harness.  The "
              "amplitude-kind <-> power-kind relation (doubled log-spectrum parameters) is derived from the "
              "docstrings of nifty.re add_fluctuations, not stated there verbatim.")
TECHNIQUE = "PBT: differential (cl / re / simple) + exact covariance by basis vectors vs predicted fluctuations and closed-form spectra"
ASSUMPTIONS = [
    "float64 only; the excitations xi are real",
    "spherical sub-spaces (HPSpace / harmonic_type='spherical') are compared between the implementations only; the "
    "exact scaling relations are demanded on regular grids, where the harmonic transform is orthogonal",
    "a non-parametric amplitude with flexibility needs at least two non-zero mode lengths (1-D grids of size >= 4): "
    "nifty.re drops the smooth deviations otherwise, nifty.cl is expected to give the same field (latent values of "
    "the then meaningless flexibility / asperity / spectrum keys are arbitrary)",
    "cases in which both implementations overflow to non-finite fields are discarded",
    "classic Matern amplitudes with adjust_for_volume=False are only generated as single spectra (the documented "
    "product formulas presuppose volume-adjusted zero modes)",
    "latent arrays (xi, spectrum) are dyadic numbers derived deterministically from an integer seed in the recipe",
    "nifty.re has no fluctuation operators: its predicted fluctuations are the values of its fluctuations / scale / "
    "zeromode parameters at the latent (closed-form log-normal transform) combined by the classic product formulas",
]

CONVS = ("non_canonical_hartley", "canonical_hartley")
NP_KEYS = ("fluctuations", "loglogavgslope", "flexibility", "asperity")
MA_KEYS = ("scale", "cutoff", "loglogslope")


class convention:
    """set nifty.config hartley_convention, always restore"""

    def __init__(self, conv):
        self.conv = conv

    def __enter__(self):
        self.old = nconfig._config["hartley_convention"]
        nconfig.update("hartley_convention", self.conv)

    def __exit__(self, *a):
        nconfig.update("hartley_convention", self.old)
        return False


_JX = {}


def _jx():
    if not _JX:
        import os
        import jax
        jax.config.update("jax_enable_x64", True)
        run_tmp = os.environ.get("VERIF_RUN_TMP")
        if run_tmp and os.path.isdir(run_tmp):
            # per-primitive executables are shared between the shards of one run (directory is removed by the runner)
            try:
                jax.config.update("jax_compilation_cache_dir", os.path.join(run_tmp, "xla_cache"))
                jax.config.update("jax_persistent_cache_min_compile_time_secs", 0.0)
                jax.config.update("jax_persistent_cache_min_entry_size_bytes", -1)
            except Exception:  # noqa: BLE001  (option names differ between jax versions)
                pass
        import jax.numpy as jnp
        import nifty.re as jft
        _JX.update(jax=jax, jnp=jnp, jft=jft)
    return _JX["jax"], _JX["jnp"], _JX["jft"]


# ------------------------------------------------------------------ harness-side closed forms
def lognormal(ms, xi):
    m, s = ms
    sig2 = np.log1p((s / m) ** 2)
    return float(np.exp(np.log(m) - 0.5 * sig2 + np.sqrt(sig2) * xi))


def normal(ms, xi):
    return float(ms[0] + ms[1] * xi)


def dy(seed, tag, shape):
    """deterministic dyadic array (multiples of 1/8 in [-2, 2]) from the recipe's seed"""
    g = np.random.default_rng([int(seed), int(tag)])
    return g.integers(-16, 17, size=tuple(shape)) / 8.0


def klen(shape, dist):
    """|k| per mode of the harmonic partner of a regular grid (C order)"""
    k2 = np.zeros(())
    for n, d in zip(shape, dist):
        i = np.arange(n)
        k = np.minimum(i, n - i) / (n * d)
        k2 = np.add.outer(k2, k * k)
    return np.sqrt(k2)


def grid_shape(g):
    return list(g["shape"]) if g["t"] == "rg" else [12 * g["nside"] ** 2]


def grid_volume(g):
    if g["t"] == "hp":
        return 4 * np.pi
    return float(np.prod([n * d for n, d in zip(g["shape"], g["dist"])]))


def two_bins(g):
    """only one non-zero mode length: smooth deviations from the power law are undefined"""
    return g["t"] == "rg" and len(g["shape"]) == 1 and g["shape"][0] <= 3


def times(ms, c):
    return None if ms is None else [ms[0] * c, ms[1] * c]


# ------------------------------------------------------------------ model builders
def cl_space(g):
    if g["t"] == "hp":
        return ift.HPSpace(g["nside"])
    return ift.RGSpace(tuple(g["shape"]), distances=tuple(g["dist"]))


def build_cl(rec, native=False):
    """classic maker.  native=False: the configuration equivalent to the nifty.re one (kinds translated);
    native=True: the classic model as configured (its parameters describe the power spectrum)"""
    cfm = ift.CorrelatedFieldMaker(rec["prefix"])
    zm = rec["zm"]
    zarg = tuple(zm) if isinstance(zm, list) else zm
    if rec.get("zm_first"):
        cfm.set_amplitude_total_offset(rec["om"], zarg)
    for sp in rec["spaces"]:
        dom = cl_space(sp["grid"])
        c = 1.0 if native or sp["kind"] == "power" else 2.0
        if sp["model"] == "np":
            cfm.add_fluctuations(dom, tuple(sp["fluct"]), None if sp["flex"] is None else tuple(times(sp["flex"], c)),
                                 None if sp["asp"] is None else tuple(sp["asp"]), tuple(times(sp["slope"], c)),
                                 prefix=sp["pre"])
        else:
            c = 1.0 if native or sp["kind"] == "amplitude" else 0.5
            cfm.add_fluctuations_matern(dom, tuple(sp["scale"]), tuple(sp["cutoff"]), tuple(times(sp["slope"], c)),
                                        prefix=sp["pre"], adjust_for_volume=sp.get("adjust", True))
    if not rec.get("zm_first"):
        cfm.set_amplitude_total_offset(rec["om"], zarg)
    return cfm, cfm.finalize()


def build_re(rec):
    _, _, jft = _jx()
    cfm = jft.CorrelatedFieldMaker(rec["prefix"])
    if rec.get("zm_first"):
        cfm.set_amplitude_total_offset(rec["om"], tuple(rec["zm"]))
    for sp in rec["spaces"]:
        g = sp["grid"]
        if g["t"] == "hp":
            geo = dict(shape=(g["nside"],), distances=None, harmonic_type="spherical")
        else:
            d = g["dist"]
            dist = d[0] if (sp.get("scalar_dist") and len(set(d)) == 1) else tuple(d)
            geo = dict(shape=tuple(g["shape"]), distances=dist, harmonic_type="fourier")
        if sp["model"] == "np":
            cfm.add_fluctuations(**geo, fluctuations=tuple(sp["fluct"]), loglogavgslope=tuple(sp["slope"]),
                                 flexibility=None if sp["flex"] is None else tuple(sp["flex"]),
                                 asperity=None if sp["asp"] is None else tuple(sp["asp"]),
                                 prefix=sp["pre"], non_parametric_kind=sp["kind"])
        else:
            cfm.add_fluctuations_matern(**geo, scale=tuple(sp["scale"]), cutoff=tuple(sp["cutoff"]),
                                        loglogslope=tuple(sp["slope"]), renormalize_amplitude=sp.get("renorm", False),
                                        prefix=sp["pre"], non_parametric_kind=sp["kind"])
    if not rec.get("zm_first"):
        cfm.set_amplitude_total_offset(rec["om"], tuple(rec["zm"]))
    return cfm, cfm.finalize()


def classify_key(rec, key):
    """(space index or None, suffix) of a latent name, by the documented naming scheme"""
    P = rec["prefix"]
    if key == P + "xi":
        return None, "xi"
    if key == P + "zeromode":
        return None, "zeromode"
    for i, sp in enumerate(rec["spaces"]):
        names = NP_KEYS + ("spectrum",) if sp["model"] == "np" else MA_KEYS
        for nm in names:
            if key == P + sp["pre"] + nm:
                return i, nm
    raise Violation("latent_key_name", f"unexpected latent name {key!r}")


def latent_value(rec, key, shape, layout):
    """canonical latent value for `key`; arrays are generated in the nifty.re layout"""
    i, nm = classify_key(rec, key)
    shape = tuple(shape)
    if nm == "xi":
        return dy(rec["seed"], 1, shape)
    if nm == "zeromode":
        require(shape == (), "latent_shape", f"{key}: {shape}")
        return np.array(float(rec["lat_zm"]))
    if nm == "spectrum":
        if layout == "cl":
            require(len(shape) == 2 and shape[0] == 2, "latent_shape", f"{key}: {shape}")
            return dy(rec["seed"], 10 + i, shape[::-1]).T.copy()
        require(len(shape) == 2 and shape[1] == 2, "latent_shape", f"{key}: {shape}")
        return dy(rec["seed"], 10 + i, shape)
    require(shape == (), "latent_shape", f"{key}: {shape}")
    return np.array(float(rec["spaces"][i]["lat"][nm]))


def cl_latents(rec, op):
    d = {k: ift.makeField(op.domain[k], latent_value(rec, k, op.domain[k].shape, "cl")) for k in op.domain.keys()}
    return ift.MultiField.from_dict(d, op.domain)


def re_latents(rec, jop):
    _, jnp, _ = _jx()
    return {k: jnp.asarray(latent_value(rec, k, v.shape, "re")) for k, v in jop.domain.items()}


def full_shape(rec):
    out = []
    for sp in rec["spaces"]:
        out += grid_shape(sp["grid"])
    return out


def space_classes(rec):
    cl = [f"spaces_{len(rec['spaces'])}"]
    for sp in rec["spaces"]:
        g = sp["grid"]
        if g["t"] == "hp":
            cl.append("grid_healpix")
        else:
            cl.append(f"grid_{len(g['shape'])}d")
            if len(g["shape"]) == 2:
                cl.append("dist_equal" if g["dist"][0] == g["dist"][1] else "dist_unequal")
            if two_bins(g):
                cl.append("single_nonzero_mode_length")
            v = grid_volume(g)
            cl.append("volume_lt_0.1" if v < 0.1 else "volume_gt_10" if v > 10 else "volume_mid")
        if sp["model"] == "np":
            cl.append("np_" + ("flex_asp" if sp["asp"] is not None else "flex" if sp["flex"] is not None else "slope_only"))
        else:
            cl.append("matern")
        cl.append("kind_" + sp["kind"])
    return sorted(set(cl))


def nontrivial(rec):
    return len(rec["spaces"]) >= 2 or any(abs(grid_volume(sp["grid"]) - 1.0) > 1e-6 for sp in rec["spaces"])


# ------------------------------------------------------------------ (agree)
def check_agree(rec):
    with convention(rec["conv"]):
        cfm, op = build_cl(rec)
        jcfm, jop = build_re(rec)
        ckeys, jkeys = set(op.domain.keys()), set(jop.domain.keys())
        require(jkeys <= ckeys, "latent_key_sets", f"re-only: {sorted(jkeys - ckeys)}")
        for k in sorted(ckeys - jkeys):
            i, nm = classify_key(rec, k)
            ok = i is not None and two_bins(rec["spaces"][i]["grid"]) and nm in ("flexibility", "asperity", "spectrum")
            require(ok, "latent_key_sets", f"cl-only: {k}")
        clat = cl_latents(rec, op)
        jlat = re_latents(rec, jop)
        f_cl = np.asarray(op(clat).asnumpy())
        f_re = np.asarray(jop(jlat))
        shp = tuple(full_shape(rec))
        require(f_cl.shape == shp, "cl_field_shape", f"{f_cl.shape} vs {shp}")
        require(f_re.shape == shp, "re_field_shape", f"{f_re.shape} vs {shp}")
        fin_cl, fin_re = bool(np.all(np.isfinite(f_cl))), bool(np.all(np.isfinite(f_re)))
        if not fin_cl and not fin_re:
            raise Discard()
        require(fin_cl and fin_re, "one_implementation_non_finite", f"cl finite: {fin_cl}, re finite: {fin_re}")
        scale = max(abs(rec["om"]), float(np.max(np.abs(f_cl))), float(np.max(np.abs(f_re))), 1e-300)
        close(f_cl, f_re, "field_cl_vs_re", tol=1e-9, scale=scale)
        classes = space_classes(rec) + ["conv_" + rec["conv"].replace("_hartley", "")]
        single = len(rec["spaces"]) == 1
        if single:
            # documented accessors of the single-spectrum model: amplitude / power spectrum incl. zero mode
            p_cl = np.asarray(cfm.power_spectrum.force(clat).asnumpy())
            p_re = np.asarray(jcfm.power_spectrum(jlat))
            close(p_cl, p_re, "power_spectrum_cl_vs_re", tol=1e-9,
                  scale=max(float(np.max(np.abs(p_cl))), float(np.max(np.abs(p_re))), 1e-300))
            classes.append("power_spectrum_accessor")
        sp = rec["spaces"][0]
        if single and sp["model"] == "np":
            # third implementation
            c = 1.0 if sp["kind"] == "power" else 2.0
            pre = rec["prefix"] + sp["pre"]
            scf = ift.SimpleCorrelatedField(cl_space(sp["grid"]), rec["om"], tuple(rec["zm"]), tuple(sp["fluct"]),
                                            None if sp["flex"] is None else tuple(times(sp["flex"], c)),
                                            None if sp["asp"] is None else tuple(sp["asp"]),
                                            tuple(times(sp["slope"], c)), prefix=pre)
            d = {}
            for k in scf.domain.keys():
                require(k.startswith(pre), "simple_key_name", k)
                nm = k[len(pre):]
                src = rec["prefix"] + nm if nm in ("xi", "zeromode") else k
                require(src in clat.keys(), "simple_key_name", k)
                d[k] = ift.makeField(scf.domain[k], clat[src].asnumpy())
            f_s = np.asarray(scf(ift.MultiField.from_dict(d, scf.domain)).asnumpy())
            close(f_s, f_cl, "field_simple_vs_maker", tol=1e-9, scale=scale)
            classes.append("simple_correlated_field")
    require(nconfig._config["hartley_convention"] == "non_canonical_hartley", "config_default_changed")
    return dict(nontrivial=nontrivial(rec), classes=classes)


# ------------------------------------------------------------------ (scale) exact statistics from the dense matrix
def dense_cl(op, clat, xikey):
    d = clat.to_dict()
    dom = op.domain[xikey]
    n = dom.size

    def at(vec):
        dd = dict(d)
        dd[xikey] = ift.makeField(dom, vec.reshape(dom.shape))
        return np.asarray(op(ift.MultiField.from_dict(dd, op.domain)).asnumpy()).reshape(-1)

    base = at(np.zeros(n))
    A = np.empty((base.size, n))
    for i in range(n):
        e = np.zeros(n)
        e[i] = 1.0
        A[:, i] = at(e) - base
    # affine in xi (documented model: HT[a * xi]): one generated vector
    v = dy(7, n, (n,))
    lin = at(v)
    close(lin, base + A @ v, "not_affine_in_excitations", tol=1e-9,
          scale=max(1e-300, float(np.max(np.abs(A))) * float(np.sum(np.abs(v))) + float(np.max(np.abs(base)))))
    return A, base


def dense_re(jop, jlat, xikey):
    jax, jnp, _ = _jx()
    shape = tuple(jlat[xikey].shape)
    n = int(np.prod(shape))

    def at(x):
        p = dict(jlat)
        p[xikey] = x
        return jop(p).reshape(-1)

    base = np.asarray(at(jnp.zeros(shape)))
    cols = np.asarray(jax.vmap(at)(jnp.eye(n).reshape((n,) + shape)))
    A = cols.T - base[:, None]
    v = dy(7, n, (n,))
    lin = np.asarray(at(jnp.asarray(v.reshape(shape))))
    close(lin, base + A @ v, "not_affine_in_excitations", tol=1e-9,
          scale=max(1e-300, float(np.max(np.abs(A))) * float(np.sum(np.abs(v))) + float(np.max(np.abs(base)))))
    return A, base


def exact_stats(A, shapes):
    """exact expected fluctuation statistics of f = base + A xi, xi ~ N(0, 1) (definitions: *_realized)"""
    full = [n for s in shapes for n in s]
    N, M = A.shape
    T = A.reshape(tuple(full) + (M,))
    tot = (np.sum(A * A) - np.sum(np.sum(A, axis=0) ** 2) / N) / N
    zm = float(np.sum(np.mean(A, axis=0) ** 2))
    out = dict(total=float(tot), offset=zm, average=[], slice=[], mean_square=float(np.sum(A * A) / N))
    ofs = 0
    for s in shapes:
        mine = tuple(range(ofs, ofs + len(s)))
        other = tuple(a for a in range(len(full)) if a not in mine)
        ni = int(np.prod(s))
        G = T.mean(axis=other).reshape(ni, M) if other else A
        out["average"].append(float((np.sum(G * G) - np.sum(np.sum(G, axis=0) ** 2) / ni) / ni))
        Hm = T.mean(axis=mine).reshape(-1, M)
        out["slice"].append(float(np.sum(A * A) / N - np.sum(Hm * Hm) / Hm.shape[0]))
        ofs += len(s)
    return out


def covariance_spectrum(A, full):
    """stationarity of C = A A^T on the periodic grid and its per-mode variances s_k = FFT(C[0, :]) / N"""
    N = A.shape[0]
    C = A @ A.T
    idx = np.indices(tuple(full)).reshape(len(full), -1)
    diff = (idx[:, None, :] - idx[:, :, None]) % np.array(full)[:, None, None]
    flat = np.ravel_multi_index(tuple(diff), tuple(full))
    cmax = max(1e-300, float(np.max(np.abs(C))))
    close(C, C[0][flat], "covariance_not_stationary", tol=1e-9, scale=cmax)
    # per-mode variances with *relative* accuracy: E |sum_x e^{-ikx} f_x|^2 = N^2 s_k = sum_j |FFT_x(A)[k, j]|^2
    # (the FFT of a covariance row would carry an absolute error of eps * largest mode into every mode)
    B = np.fft.fftn(A.reshape(tuple(full) + (A.shape[1],)), axes=tuple(range(len(full))))
    spec = np.sum(B.real ** 2 + B.imag ** 2, axis=-1) / float(N) ** 2
    rough = np.fft.fftn(C[0].reshape(tuple(full))) / N
    close(rough, spec.astype(complex), "covariance_row_vs_mode_variances", tol=1e-9,
          scale=max(cmax, float(np.max(spec))))
    return spec, cmax


def matern_mode_variance(sp, vals, k, renorm=False, adjust=True):
    """closed form s_k (k != 0) of a Matern amplitude from the docstring formula"""
    a, b, c = vals["scale"], vals["cutoff"], vals["loglogslope"]
    expo = c / 2.0 if sp["kind"] == "amplitude" else c / 4.0      # exponent of the *power* spectrum
    P = (1.0 + (k / b) ** 2) ** expo
    P[(0,) * k.ndim] = 0.0
    V = grid_volume(sp["grid"])
    if renorm:
        return a * a * P / np.sum(P)
    return a * a * P / (V if adjust else V * V)


def powerlaw_mode_variance(sp, fl, slope, k, kind):
    k1 = k.copy()
    k1[(0,) * k.ndim] = 1.0
    kmin = float(np.min(k1[k > 0]))
    P = (k1 / kmin) ** (slope if kind == "power" else 2.0 * slope)
    P[(0,) * k.ndim] = 0.0
    return fl * fl * P / np.sum(P)


def product_predictions(fl, azm):
    """documented product formulas (total / slice / average) from per-space fluctuations and the zero mode"""
    if len(fl) == 1:
        return dict(total=fl[0] ** 2, average=[fl[0] ** 2], slice=[fl[0] ** 2])
    q = [1.0 + (f / azm) ** 2 for f in fl]
    tot = azm * azm * (float(np.prod(q)) - 1.0)
    sl = []
    for i, f in enumerate(fl):
        sl.append(f * f * float(np.prod([q[j] for j in range(len(fl)) if j != i])))
    return dict(total=tot, average=[f * f for f in fl], slice=sl)


def hyper_values(rec):
    """values of the hyper-parameters at the recipe's latent (closed-form prior transforms)"""
    out = []
    for sp in rec["spaces"]:
        lat = sp["lat"]
        if sp["model"] == "np":
            out.append(dict(fluctuations=lognormal(sp["fluct"], lat["fluctuations"]),
                            loglogavgslope=normal(sp["slope"], lat["loglogavgslope"])))
        else:
            out.append(dict(scale=lognormal(sp["scale"], lat["scale"]), cutoff=lognormal(sp["cutoff"], lat["cutoff"]),
                            loglogslope=normal(sp["slope"], lat["loglogslope"])))
    zm = rec["zm"]
    azm = lognormal(zm, rec["lat_zm"]) if isinstance(zm, list) else (0.0 if zm is None else float(zm))
    return out, azm


def spectrum_checks(rec, A, hv, azm, impl, classes):
    """stationary covariance, product structure, closed-form spectra where the docstrings give one"""
    shapes = [grid_shape(sp["grid"]) for sp in rec["spaces"]]
    full = [n for s in shapes for n in s]
    spec, cmax = covariance_spectrum(A, full)
    zero = (0,) * len(full)
    marg = []
    ofs = 0
    for s in shapes:
        sl = tuple(slice(None) if ofs <= a < ofs + len(s) else 0 for a in range(len(full)))
        marg.append(spec[sl])
        ofs += len(s)
    if len(shapes) == 2:
        # "outer product of the individual power spectra"
        outer = np.multiply.outer(marg[0], marg[1])
        close(spec * spec[zero], outer, "spectrum_not_outer_product", tol=1e-9,
              scale=max(1e-300, float(np.max(np.abs(outer))),
                        1e-19 * float(np.prod(full)) ** 2 * float(np.max(spec)) * float(spec[zero])))
        classes.append("outer_product_structure")
    for sp, m, v in zip(rec["spaces"], marg, hv):
        g = sp["grid"]
        k = klen(g["shape"], g["dist"])
        # isotropy: equal mode length => equal variance
        order = np.argsort(k.reshape(-1), kind="stable")
        ks, ms = k.reshape(-1)[order], m.reshape(-1)[order]
        same = np.abs(np.diff(ks)) <= 1e-12 * ks[-1]
        if np.any(same):
            close(ms[1:][same], ms[:-1][same], "spectrum_not_isotropic", tol=1e-9,
                  scale=max(1e-300, float(np.max(ms)), 1e-19 * float(np.prod(full)) ** 2 * float(np.max(spec))))
        ref = None
        if sp["model"] == "matern":
            ref = matern_mode_variance(sp, v, k, renorm=(impl == "re" and sp.get("renorm", False)),
                                       adjust=(impl == "re" or sp.get("adjust", True)))
            classes.append("closed_form_matern")
        elif sp["flex"] is None:
            ref = powerlaw_mode_variance(sp, v["fluctuations"], v["loglogavgslope"], k, sp["kind"])
            classes.append("closed_form_power_law")
        if ref is not None:
            mm = m.copy()
            mm[(0,) * k.ndim] = 0.0
            # floor: FFT round-off of the largest columns leaks (eps * a_max)^2 * N into every mode
            floor = 1e-19 * float(np.prod(full)) ** 2 * float(np.max(spec))
            close(mm, ref, "spectrum_vs_closed_form", tol=1e-9,
                  scale=max(1e-300, float(np.max(np.abs(ref))), float(np.max(np.abs(mm))), floor))
    return spec


def compare_stats(st_, pred, azm_pred, tag, multi):
    sc = max(1e-300, st_["mean_square"], pred["total"])
    close(st_["total"], pred["total"], f"{tag}total_fluctuation", tol=1e-9, scale=sc)
    if azm_pred is not None:
        close(st_["offset"], azm_pred ** 2, f"{tag}offset_std", tol=1e-9, scale=max(sc, azm_pred ** 2))
    if multi:
        for i in range(len(pred["average"])):
            close(st_["average"][i], pred["average"][i], f"{tag}average_fluctuation", tol=1e-9, scale=sc)
            close(st_["slice"][i], pred["slice"][i], f"{tag}slice_fluctuation", tol=1e-9, scale=sc)


def regrid(rec):
    """metamorphic partner: resolution doubled at fixed volume and / or distances rescaled"""
    meta = rec["meta"]
    new = dict(rec, spaces=[])
    for i, sp in enumerate(rec["spaces"]):
        g = dict(sp["grid"])
        if i in meta["double"]:
            g["shape"] = [2 * n for n in g["shape"]]
            g["dist"] = [d / 2 for d in g["dist"]]
        g["dist"] = [d * meta["factor"][i] for d in g["dist"]]
        new["spaces"].append(dict(sp, grid=g))
    new["seed"] = rec["seed"] + 1
    return new


def cl_scalar(x, clat):
    if isinstance(x, ift.Operator):
        return float(np.asarray(x.force(clat).asnumpy()).reshape(()))
    return float(x)


def check_scale_cl(rec):
    with convention(rec["conv"]):
        return _scale_cl(rec)


def _scale_cl(rec):
    # the classic parameters describe the power spectrum (non-parametric) / the amplitude (Matern docstring formula)
    rec = dict(rec, spaces=[dict(sp, kind="power" if sp["model"] == "np" else "amplitude") for sp in rec["spaces"]])
    classes = space_classes(rec)
    multi = len(rec["spaces"]) >= 2
    shapes = [grid_shape(sp["grid"]) for sp in rec["spaces"]]
    cfm, op = build_cl(rec, native=True)
    clat = cl_latents(rec, op)
    # the excitation matrix is taken from the same model with offset_mean = 0 (a non-zero constant would cost the
    # small columns of A their relative accuracy); the configured offset is checked on the field itself
    _, op0 = build_cl(dict(rec, om=0.0), native=True)
    A, base = dense_cl(op0, clat, rec["prefix"] + "xi")
    if not (np.all(np.isfinite(A)) and np.all(np.isfinite(base))):
        require(not any(two_bins(sp["grid"]) and sp["model"] == "np" and sp["flex"] is not None
                        for sp in rec["spaces"]), "non_finite_field_single_mode_length")
        raise Discard()
    amax = max(1e-300, float(np.max(np.abs(A))))
    close(base, np.zeros(base.shape), "field_without_excitations_not_offset_mean", tol=1e-12, scale=amax)
    xi = np.asarray(clat[rec["prefix"] + "xi"].asnumpy()).reshape(-1)
    f_full = np.asarray(op(clat).asnumpy()).reshape(-1)
    close(f_full, float(rec["om"]) + A @ xi, "offset_mean", tol=1e-9,
          scale=abs(rec["om"]) + amax * max(1.0, float(np.sum(np.abs(xi)))))
    st_ = exact_stats(A, shapes)
    hv, azm = hyper_values(rec)
    zm = rec["zm"]
    classes.append("zm_lognormal" if isinstance(zm, list) else "zm_none" if zm is None else "zm_scalar")
    # ---- the model's own predictions, evaluated at the latent
    pred = dict(total=cl_scalar(cfm.total_fluctuation, clat) ** 2,
                average=[cl_scalar(cfm.average_fluctuation(i), clat) ** 2 for i in range(len(shapes))],
                slice=[cl_scalar(cfm.slice_fluctuation(i), clat) ** 2 for i in range(len(shapes))])
    azm_own = cl_scalar(cfm.amplitude_total_offset, clat)
    close(azm_own, azm, "zero_mode_prior_transform", tol=1e-10, scale=max(1e-300, azm))
    adjusted = all(sp.get("adjust", True) for sp in rec["spaces"])
    compare_stats(st_, pred, azm_own if adjusted else azm_own / grid_volume(rec["spaces"][0]["grid"]), "", multi)
    # the per-space predictions are the fluctuation parameters (non-parametric amplitudes)
    for i, (sp, v) in enumerate(zip(rec["spaces"], hv)):
        if sp["model"] == "np":
            close(pred["average"][i], v["fluctuations"] ** 2, "fluctuations_prior_transform", tol=1e-10,
                  scale=max(1e-300, v["fluctuations"] ** 2))
    spec = spectrum_checks(rec, A, hv, azm, "cl", classes)
    if not multi:
        # the model's power-spectrum accessor (amplitude^2 incl. zero mode; field = HT[amplitude * xi], HT ~ 1/V)
        ps = cfm.power_spectrum.force(clat)
        pspace = ps.domain[0]
        per_mode = np.asarray(ift.PowerDistributor(pspace.harmonic_partner, pspace)(ps).asnumpy())
        V = grid_volume(rec["spaces"][0]["grid"])
        close(per_mode / V ** 2, spec, "power_spectrum_accessor_vs_covariance", tol=1e-9,
              scale=max(1e-300, float(np.max(np.abs(spec)))))
        classes.append("power_spectrum_accessor")
    sp0 = rec["spaces"][0]
    if not multi and sp0["model"] == "np" and (zm is None or isinstance(zm, list)):
        # SimpleCorrelatedField is documented as the single-spectrum special case of the maker (incl. offset_std=None)
        pre = rec["prefix"] + sp0["pre"]
        scf = ift.SimpleCorrelatedField(cl_space(sp0["grid"]), rec["om"], None if zm is None else tuple(zm),
                                        tuple(sp0["fluct"]), None if sp0["flex"] is None else tuple(sp0["flex"]),
                                        None if sp0["asp"] is None else tuple(sp0["asp"]), tuple(sp0["slope"]), prefix=pre)
        d = {}
        for k in scf.domain.keys():
            nm = k[len(pre):]
            src = rec["prefix"] + nm if nm in ("xi", "zeromode") else k
            require(k.startswith(pre) and src in clat.keys(), "simple_key_name", k)
            d[k] = ift.makeField(scf.domain[k], clat[src].asnumpy())
        f_s = np.asarray(scf(ift.MultiField.from_dict(d, scf.domain)).asnumpy())
        f_m = f_full.reshape(f_s.shape) if f_s.size == f_full.size else f_full
        close(f_s, f_m, "field_simple_vs_maker", tol=1e-9,
              scale=max(abs(rec["om"]), float(np.max(np.abs(f_m))), 1e-300))
        classes.append("simple_correlated_field")
    # ---- metamorphic: same hyper-latents on a re-gridded domain
    if rec.get("meta") is not None and all(sp["model"] == "np" for sp in rec["spaces"]):
        rec2 = regrid(rec)
        cfm2, op2 = build_cl(dict(rec2, om=0.0), native=True)
        clat2 = cl_latents(rec2, op2)
        A2, base2 = dense_cl(op2, clat2, rec["prefix"] + "xi")
        if np.all(np.isfinite(A2)):
            st2 = exact_stats(A2, [grid_shape(sp["grid"]) for sp in rec2["spaces"]])
            ref = dict(total=st_["total"], average=st_["average"], slice=st_["slice"])
            compare_stats(st2, ref, np.sqrt(st_["offset"]), "regrid_", multi)
            classes.append("regrid_double" if rec["meta"]["double"] else "regrid_rescale")
    return dict(nontrivial=nontrivial(rec), classes=classes)


def check_scale_re(rec):
    with convention(rec["conv"]):
        return _scale_re(rec)


def _scale_re(rec):
    classes = space_classes(rec)
    multi = len(rec["spaces"]) >= 2
    shapes = [grid_shape(sp["grid"]) for sp in rec["spaces"]]
    jcfm, jop = build_re(rec)
    jlat = re_latents(rec, jop)
    _, jop0 = build_re(dict(rec, om=0.0))      # see _scale_cl
    A, base = dense_re(jop0, jlat, rec["prefix"] + "xi")
    if not (np.all(np.isfinite(A)) and np.all(np.isfinite(base))):
        raise Discard()
    amax = max(1e-300, float(np.max(np.abs(A))))
    close(base, np.zeros(base.shape), "field_without_excitations_not_offset_mean", tol=1e-12, scale=amax)
    xi = np.asarray(jlat[rec["prefix"] + "xi"]).reshape(-1)
    f_full = np.asarray(jop(jlat)).reshape(-1)
    close(f_full, float(rec["om"]) + A @ xi, "offset_mean", tol=1e-9,
          scale=abs(rec["om"]) + amax * max(1.0, float(np.sum(np.abs(xi)))))
    st_ = exact_stats(A, shapes)
    hv, azm = hyper_values(rec)
    spectrum_checks(rec, A, hv, azm, "re", classes)
    fl = []
    for sp, v in zip(rec["spaces"], hv):
        if sp["model"] == "np":
            fl.append(v["fluctuations"])
        elif sp.get("renorm", False):
            fl.append(v["scale"])               # documented purpose of renormalize_amplitude
            classes.append("matern_renormalized")
        else:
            g = sp["grid"]
            fl.append(float(np.sqrt(np.sum(matern_mode_variance(sp, v, klen(g["shape"], g["dist"]))))))
    pred = product_predictions(fl, azm)
    compare_stats(st_, pred, azm, "", multi)
    if rec.get("meta") is not None and all(sp["model"] == "np" or sp.get("renorm", False) for sp in rec["spaces"]):
        rec2 = regrid(rec)
        jcfm2, jop2 = build_re(dict(rec2, om=0.0))
        A2, _ = dense_re(jop2, re_latents(rec2, jop2), rec["prefix"] + "xi")
        if np.all(np.isfinite(A2)):
            st2 = exact_stats(A2, [grid_shape(sp["grid"]) for sp in rec2["spaces"]])
            ref = dict(total=st_["total"], average=st_["average"], slice=st_["slice"])
            compare_stats(st2, ref, np.sqrt(st_["offset"]), "regrid_", multi)
            classes.append("regrid_double" if rec["meta"]["double"] else "regrid_rescale")
    return dict(nontrivial=nontrivial(rec), classes=classes)


# ------------------------------------------------------------------ strategies
LAT = S.dyadic(-2.0, 2.0, 8)
# pixel sizes: mostly 10^(j/8) in [0.01, 100]; sometimes the units of real applications (arcseconds in radians, metres
# per parsec ...), where absolute tolerances hidden in the code would show
LDIST = st.one_of(st.integers(-16, 16).map(lambda j: float(10.0 ** (j / 8.0))),
                  st.integers(-16, 16).map(lambda j: float(10.0 ** (j / 8.0))),
                  st.integers(-16, 16).map(lambda j: float(10.0 ** (j / 8.0))),
                  st.sampled_from([4.8e-6, 1e-5, 3e-7, 1e4, 2.5e5]))
SEED = st.integers(0, 2 ** 31 - 1)


def _ln(draw, lo, hi):
    m = draw(S.dyadic_nz(lo, hi, 8, signed=False))
    return [m, m * draw(st.sampled_from([0.125, 0.25, 0.5, 1.0]))]


# nifty.re is evaluated eagerly: XLA compiles every primitive once per array shape.  The quick tier of the
# sub-checks that run nifty.re therefore draws the grid shapes from fixed menus (sizes 2..12 all reachable through
# the classic-only sub-checks and the thorough tier, which draw sizes freely).
MENUS = {
    "agree1": dict(d1=[2, 3, 4, 5, 7, 8, 12], d2=[[2, 2], [3, 2], [4, 4], [5, 3], [12, 2], [6, 7], [12, 12]], hp=[1, 2]),
    "agree2": dict(d1=[2, 3, 4, 7, 12], d2=[[2, 2], [4, 3], [5, 5]], hp=[1]),
    "scale1": dict(d1=[2, 3, 4, 6, 8, 12], d2=[[2, 2], [3, 2], [4, 4], [6, 3]], hp=[]),
    "scale2": dict(d1=[3, 4, 5, 6], d2=[[2, 2], [3, 2]], hp=[]),
}


def _grid(draw, budget, allow_hp, menu=None):
    """budget: maximal number of grid points; menu: None (free sizes 2..12) or a key of MENUS"""
    M = MENUS.get(menu)
    if allow_hp and draw(st.sampled_from([0] * 9 + [1])) == 1:
        ns = [n for n in (M["hp"] if M else (1, 2, 4)) if 12 * n * n <= budget] or [1]
        return {"t": "hp", "nside": draw(st.sampled_from(ns))}
    nd = draw(st.sampled_from([1, 1, 2, 2])) if budget >= 4 else 1
    if nd == 1:
        if M:
            n = draw(st.sampled_from([m for m in M["d1"] if m <= max(2, budget)]))
        else:
            n = draw(st.integers(2, max(2, min(12, budget))))
        return {"t": "rg", "shape": [n], "dist": [draw(LDIST)]}
    if M:
        a, b = draw(st.sampled_from([m for m in M["d2"] if m[0] * m[1] <= max(4, budget)]))
    else:
        a = draw(st.integers(2, max(2, min(12, budget // 2))))
        b = draw(st.integers(2, max(2, min(12, budget // a))))
    d0 = draw(LDIST)
    how = draw(st.sampled_from(["equal", "commensurate", "free", "free"]))
    if how == "equal":
        d1 = d0
    elif how == "commensurate":
        d1 = d0 * draw(st.sampled_from([0.5, 2.0] if M else [0.5, 2.0, 0.75, 3.0, 1.5]))
    else:
        # independent pixel sizes, but of the same unit system: aspect ratios beyond ~1e4 lose the short axis in
        # sqrt(kx^2+ky^2) altogether (numerically degenerate grid, not a property of the model)
        d1 = d0 * draw(st.integers(-16, 16).map(lambda j: float(10.0 ** (j / 8.0))))
    return {"t": "rg", "shape": [a, b], "dist": [d0, d1]}


def _space(draw, i, budget, models, kinds, allow_hp, degenerate=False, menu=None):
    if degenerate:
        g = {"t": "rg", "shape": [draw(st.integers(2, 3))], "dist": [draw(LDIST)]}
    else:
        g = _grid(draw, budget, allow_hp, menu)
    model = draw(st.sampled_from(models))
    sp = {"model": model, "grid": g, "pre": draw(st.sampled_from([f"s{i}", f"ax{i}_", "" if i == 0 else f"b{i}"])),
          "kind": draw(st.sampled_from(kinds)), "scalar_dist": draw(st.booleans())}
    if model == "np":
        how = draw(st.sampled_from(["none", "flex", "flex", "flex_asp", "flex_asp"]))
        if two_bins(g):
            how = "none" if not degenerate else draw(st.sampled_from(["flex", "flex_asp"]))
        sp["fluct"] = _ln(draw, 0.25, 4.0)
        sp["slope"] = [draw(S.dyadic(-6.0, 1.0, 4)), draw(st.sampled_from([0.125, 0.5, 1.0]))]
        sp["flex"] = _ln(draw, 0.25, 2.0) if how != "none" else None
        sp["asp"] = _ln(draw, 0.125, 2.0) if how == "flex_asp" else None
        sp["lat"] = {k: draw(LAT) for k in NP_KEYS}
    else:
        sp["scale"] = _ln(draw, 0.25, 4.0)
        kc = float(10.0 ** (draw(st.integers(-8, 8)) / 4.0))
        sp["cutoff"] = [kc, kc * draw(st.sampled_from([0.125, 0.5, 1.0]))]
        sp["slope"] = [draw(S.dyadic(-6.0, 1.0, 4)), draw(st.sampled_from([0.125, 0.5, 1.0]))]
        sp["lat"] = {k: draw(LAT) for k in MA_KEYS}
    return sp


def _points(g):
    return int(np.prod(grid_shape(g)))


def _common(draw):
    return {"conv": draw(st.sampled_from(CONVS)), "prefix": draw(st.sampled_from(["", "cf", "p_"])),
            "om": draw(S.dyadic(-4.0, 4.0, 8)), "zm": _ln(draw, 0.125, 2.0), "lat_zm": draw(LAT),
            "zm_first": draw(st.booleans()), "seed": draw(SEED)}


def _distinct_prefixes(spaces):
    if len(spaces) == 2 and spaces[0]["pre"] == spaces[1]["pre"]:
        spaces[1]["pre"] = spaces[1]["pre"] + "x"
    return spaces


AGREE_MODELS = ["np", "np", "np", "matern"]
AGREE_KINDS = ["power", "power", "amplitude"]


def agree_recipes(nspaces, degenerate=False):
    def strategy(tier):
        total = 600 if tier == "quick" else 1500
        menu = None if tier != "quick" else ("agree1" if nspaces == 1 else "agree2")

        @st.composite
        def rec(draw):
            r = _common(draw)
            spaces = []
            budget = 144 if nspaces == 1 else total
            for i in range(nspaces):
                per = budget if nspaces == 1 else max(2, min(144, budget // (2 if i == 0 else 1)))
                if degenerate and i == 0:
                    sp = _space(draw, i, per, ["np"], AGREE_KINDS, False, degenerate=True)
                else:
                    sp = _space(draw, i, per, AGREE_MODELS, AGREE_KINDS, True, menu=menu)
                spaces.append(sp)
                budget = max(2, budget // _points(sp["grid"]))
            if degenerate and nspaces == 2 and draw(st.booleans()):
                spaces = spaces[::-1]
            r["spaces"] = _distinct_prefixes(spaces)
            return r
        return rec()
    return strategy


def degenerate_recipes(tier):
    return st.one_of(agree_recipes(1, True)(tier), agree_recipes(2, True)(tier))


def scale_recipes(impl, models):
    def strategy(tier):
        total = 120 if tier == "quick" else 256
        use_menu = impl == "re" and tier == "quick"

        @st.composite
        def rec(draw):
            r = _common(draw)
            nsp = draw(st.sampled_from([1, 2, 2]))
            menu = None if not use_menu else ("scale1" if nsp == 1 else "scale2")
            spaces = []
            budget = total
            kinds = ["power"] if impl == "cl" else ["power", "amplitude"]
            for i in range(nsp):
                per = budget if nsp == 1 else (max(2, min(24, budget // 4)) if i == 0 else budget)
                mods = models if (i == 0 or "np" not in models) else models + ["np"]
                sp = _space(draw, i, per, mods, kinds, False, menu=menu)
                if sp["model"] == "matern":
                    if impl == "cl":
                        sp["adjust"] = True if nsp == 2 else draw(st.sampled_from([True, True, False]))
                    else:
                        sp["renorm"] = draw(st.booleans())
                spaces.append(sp)
                budget = max(2, budget // _points(sp["grid"]))
            if nsp == 2 and draw(st.booleans()):
                spaces = spaces[::-1]
            r["spaces"] = _distinct_prefixes(spaces)
            if impl == "cl":
                z = draw(st.sampled_from(["ln", "ln", "scalar", "none"]))
                if z == "scalar":
                    r["zm"] = draw(st.sampled_from([1.0, 0.5, 2.25]))
                elif z == "none" and nsp == 1:
                    r["zm"] = None
            # metamorphic partner: doubled resolution at fixed volume and / or rescaled distances
            n_now = int(np.prod([_points(sp["grid"]) for sp in spaces]))
            dbl = []
            cand = [i for i, sp in enumerate(spaces) if n_now * 2 ** len(sp["grid"]["shape"]) <= 2 * total
                    and (not use_menu or (len(sp["grid"]["shape"]) == 1 and sp["grid"]["shape"][0] <= 6))]
            if cand and draw(st.integers(0, 3 if use_menu else 1)) == 0:
                dbl = [draw(st.sampled_from(cand))]
            fac = [draw(st.sampled_from([1.0, 1.0, 0.125, 0.5, 3.0, 10.0])) for i in range(nsp)]
            if not dbl and all(f == 1.0 for f in fac):
                fac[0] = 3.0
            r["meta"] = {"double": dbl, "factor": fac}
            return r
        return rec()
    return strategy


NT = "non-trivial = two sub-spaces or a sub-space volume different from 1"
SUBS = [
    Sub(name="agree_single", check=check_agree, strategy=agree_recipes(1), quick=240, thorough=12000, shards=8,
        jax=True, budget_quick=45.0,
        rule="one sub-space (regular grid or HEALPix), non-parametric (both kinds) or Matern, both Hartley "
             "conventions: nifty.cl maker == nifty.re maker (field and power-spectrum accessor, 1e-9) and "
             "== SimpleCorrelatedField for non-parametric spectra; " + NT),
    Sub(name="agree_product", check=check_agree, strategy=agree_recipes(2), quick=192, thorough=8000, shards=8,
        jax=True, budget_quick=45.0,
        rule="two sub-spaces with independently generated (mixed) amplitude models: nifty.cl maker == nifty.re "
             "maker (field, 1e-9), latents mapped by the documented key names; " + NT),
    Sub(name="agree_single_mode_length", check=check_agree, strategy=degenerate_recipes, quick=48, thorough=1000,
        shards=4, jax=True, budget_quick=45.0,
        rule="a 1-D sub-space of size 2 or 3 (one non-zero mode length) configured with flexibility (and asperity), "
             "alone or next to a second generated sub-space: nifty.re ignores the undefined smooth deviations, "
             "nifty.cl must give the same finite field; " + NT),
    Sub(name="scale_cl_nonparametric", check=check_scale_cl, strategy=scale_recipes("cl", ["np"]), quick=320,
        thorough=8000, shards=8, budget_quick=35.0,
        rule="classic maker, non-parametric amplitudes, 1-2 regular sub-spaces, zero mode log-normal / scalar / None: "
             "exact E[total / average / slice / offset] from the dense excitation matrix == cfm.total_fluctuation, "
             "average_fluctuation, slice_fluctuation, amplitude_total_offset at the latent (1e-9); stationary "
             "covariance, outer-product spectrum, pure power law closed form; statistics invariant under doubling "
             "the resolution at fixed volume and under rescaling the distances; " + NT),
    Sub(name="scale_cl_matern", check=check_scale_cl, strategy=scale_recipes("cl", ["matern"]), quick=240,
        thorough=6000, shards=8, budget_quick=35.0,
        rule="classic maker with at least one Matern amplitude (adjust_for_volume on/off for single spectra): same "
             "exact statistics vs the model's predicted fluctuations, per-mode variances == docstring kernel "
             "a^2 (1+(k/b)^2)^(c/2) / V; " + NT),
    Sub(name="scale_re", check=check_scale_re, strategy=scale_recipes("re", ["np", "np", "matern"]), quick=128,
        thorough=8000, shards=8, jax=True, budget_quick=45.0,
        rule="nifty.re maker, power and amplitude kind, Matern with and without renormalize_amplitude: exact "
             "statistics from the dense excitation matrix == fluctuations / scale / zeromode parameters at the latent "
             "combined by the documented product formulas; closed-form spectra; re-gridding invariance; " + NT),
]
