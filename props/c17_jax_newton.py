"""C17 - JAX Newton minimisers never go uphill and make progress when they can (DESIGN 2/C17).

Objective (one formula, the family is selected by which coefficients are non-zero, so that the
coefficients are *data* and XLA compiles once per position layout):

    f(z) = sum_i [ a_i z_i^2/2 + b_i z_i^4/4 + c_i cos(w_i z_i + p_i) + l_i z_i ]
         + sum_{i<n-1} r_i (z_{i+1} - s_i z_i^2)^2                      z = flattened position

Recipe: {"kind": position layout, "fam": label, "th": {a,b,c,w,p,l,r,s: lists}, "x0": [..n],
         "maxiter": 1..10, "miniter", "xtol", "absdelta", "erf", "cg": {miniter?, maxiter?} | None,
         "mode": how the objective is handed over ("fun" | "vag_hessp" | "fun_jac"), "plain": bool
         (compiled variant called directly instead of through an outer jax.jit), "tr": trust-region options}

Position layouts: plain arrays (1-D and 2-D) and nifty.re.Vector around a dict / a nested list-tuple-dict.
"""
import functools
import logging

import jax
import jax.numpy as jnp
import numpy as np
from hypothesis import strategies as st

import nifty.re as jft
from nifty.re import optimize as O
from nifty.re.logger import logger as _nifty_re_logger
from vlib import Sub, Violation, require

PROPERTY = "C17"
LEVEL = "exploration"
RULE = ("Generated smooth non-convex objectives (trigonometric, quartic double-well, Rosenbrock-like, concave "
        "directions, flat directions; dimension <= 6) on array / Vector(dict) / Vector(nested) positions with "
        "coefficients passed as data; start points classified by an independent oracle (jax.grad / jax.hessian of "
        "the flat formula) into positive / zero / negative curvature along the gradient; maxiter 1-10 and the "
        "documented options miniter, xtol, absdelta, energy_reduction_factor, cg_kwargs (trust region: radii, eta, "
        "gtol, subproblem_kwargs). Oracle: a NumPy evaluation of f at the returned point and at the start "
        "(f(x_ret) <= f(x0) up to round-off), and for clearly negative curvature along a non-zero gradient the "
        "oracle evaluates f at the trial points x0 - 2^-k t g (k=0..5, t = g.g/|g.Hg|) that the Newton-CG line "
        "search tries: if the first trial that is not clearly higher is clearly lower, the first iteration must move "
        "along -g and the returned energy must be strictly lower, with a status that is neither 'aborted' nor "
        "'converged' at x0. Eager vs compiled Newton-CG: x, fun, status, success agree to 1e-8*scale.")
LEVEL_TEXT = ("Randomised search over a six-family objective space, five position layouts and the documented "
              "option space; exploration level because the input space (real coefficients, start points) is "
              "infinite and only sampled.")
LEVEL_NOTE = ("Trusted: jax.grad/jax.hessian of the flat formula (start classification and trial points), NumPy "
              "float64 evaluation of the formula (energies), jax.jit. The check observes OptimizeResults only.")
TECHNIQUE = "PBT: independent energy evaluation + trial-step oracle + eager/compiled differential"
ASSUMPTIONS = [
    "energies are compared with slack 1e-13 * sum|terms of f| (at both points): the minimisers compare their own "
    "float64 evaluations of f, the oracle re-evaluates f with NumPy in another summation order",
    "negative-curvature claims are judged only where g.Hg < -1e-9 * sum|g_i H_ij g_j| and |g| > 1e-6; a trial point "
    "'lowers' f if f(trial) < f(x0) - 1e-9*scale and 'does not' if f(trial) > f(x0) + 1e-9*scale; recipes whose "
    "deciding trial falls into the band in between are counted (class trials_tie) but not judged for progress",
    "the trial step lengths of one Newton-CG iteration are those in the code: 2^-k * g.g/|g.Hg| for k=0..5 along -g; "
    "after the sixth failure the line search resets to the steepest-descent formula (g.g/g.Hg) g, which for negative "
    "curvature points along +g; a run whose first iteration moved along +g is reported as a violation of 'steps "
    "along the negative gradient'",
    "eager/compiled agreement is 'equal as real-number mathematics': a mismatch is reported only if the eager result "
    "is stable (to 1e-10*scale and in status) under four relative perturbations of x0 of size 2^-40; otherwise the "
    "algorithm map is discontinuous/ill-conditioned at this input and the case is counted as mismatch_unstable "
    "(starts with exactly zero gradient or exactly zero curvature along the gradient are judged without this test)",
    "objectives with an exactly linear coordinate (zero Hessian row/column with a non-zero gradient entry) next to "
    "curved coordinates are not generated: the Hessian is singular with the gradient outside its range, CG is "
    "ill-posed, the exact curvature of the second CG direction is 0 and its floating-point value (0 or +-1e-32) decides "
    "between stopping and a step of size 1e31 (observed: eager takes it, compiled does not); exactly flat directions "
    "are covered where the first CG direction -g has exactly zero curvature (family 'flat')",
    "eager/compiled mismatches are not judged (class mismatch_noise_floor) when the first Newton iteration at which "
    "the two differ changed the energy by less than 1e-11 * sum|terms| in both variants although a step was taken: "
    "the line-search comparisons `new_energy <= energy` are then decided by round-off (typical for the iteration "
    "after quadratic convergence); exact ties (no step taken, e.g. zero curvature) stay judged",
    "time_threshold (wall clock) and name (logging) options are not generated",
]

EPS_F = 1e-13      # energy comparison slack (relative to sum of |terms|)
MARGIN = 1e-9      # 'clearly lower / higher' margin for trial points
AGREE = 1e-8       # eager vs compiled tolerance

KINDS = {"arr1": 1, "arr2": 2, "mat4": 4, "vdict3": 3, "vnest6": 6}   # mat4: eager sub-check only
COEF_N = ("a", "b", "c", "w", "p", "l")
COEF_M = ("r", "s")


# ------------------------------------------------------------------ objective (JAX side, code under test sees this)
# the minimisers report "Iteration Limit Reached" etc. through their own stream handler (stderr)
_nifty_re_logger.setLevel(logging.CRITICAL + 1)


def flat_formula(th, z):
    """f on the flat position z (jnp); th: dict of jnp arrays"""
    val = jnp.sum(th["a"] * z**2 / 2 + th["b"] * z**4 / 4 + th["c"] * jnp.cos(th["w"] * z + th["p"]) + th["l"] * z)
    if z.shape[0] > 1:
        u = z[1:] - th["s"] * z[:-1] ** 2
        val = val + jnp.sum(th["r"] * u**2)
    return val


def flatten_pos(kind, x):
    if kind.startswith("arr") or kind == "mat4":
        return jnp.ravel(x)
    t = x.tree
    if kind == "vdict3":
        return jnp.concatenate([jnp.ravel(t["a"]), jnp.reshape(t["b"], (1,))])
    if kind == "vnest6":
        return jnp.concatenate([jnp.ravel(t[0]), jnp.reshape(t[1][0], (1,)), jnp.ravel(t[1][1]["k"])])
    raise ValueError(kind)


def build_pos(kind, v):
    """position pytree from a flat float64 numpy vector"""
    v = np.asarray(v, dtype=np.float64)
    if kind.startswith("arr"):
        return jnp.asarray(v)
    if kind == "mat4":
        return jnp.asarray(v.reshape(2, 2))
    if kind == "vdict3":
        return jft.Vector({"a": jnp.asarray(v[:2]), "b": jnp.asarray(v[2])})
    if kind == "vnest6":
        return jft.Vector([jnp.asarray(v[:4].reshape(2, 2)), (jnp.asarray(v[4]), {"k": jnp.asarray(v[5:6])})])
    raise ValueError(kind)


def pos_to_np(kind, x):
    """flat numpy vector of a returned position; raises Violation if the layout changed"""
    n = KINDS[kind]
    try:
        if kind.startswith("arr") or kind == "mat4":
            shp = (2, 2) if kind == "mat4" else (n,)
            arr = np.asarray(x)
            require(arr.shape == shp, "result_layout_changed", f"{arr.shape} vs {shp}")
            return arr.astype(np.float64).ravel()
        t = x.tree
        if kind == "vdict3":
            parts = [np.asarray(t["a"]).reshape(2), np.asarray(t["b"]).reshape(1)]
        else:
            parts = [np.asarray(t[0]).reshape(4), np.asarray(t[1][0]).reshape(1), np.asarray(t[1][1]["k"]).reshape(1)]
        return np.concatenate(parts).astype(np.float64)
    except Violation:
        raise
    except Exception as e:  # noqa: BLE001
        raise Violation("result_layout_changed", repr(e))


def theta_np(rec):
    n = KINDS[rec["kind"]]
    th = {}
    for k in COEF_N:
        th[k] = np.asarray(rec["th"][k], dtype=np.float64).reshape(n)
    for k in COEF_M:
        th[k] = np.asarray(rec["th"][k], dtype=np.float64).reshape(max(n - 1, 0))
    return th


# ------------------------------------------------------------------ oracle side
def f_np(th, z):
    """(value, sum of |terms|) with NumPy float64, pairwise summation (independent of the JAX evaluation)"""
    z = np.asarray(z, dtype=np.float64)
    terms = [th["a"] * z**2 / 2, th["b"] * z**4 / 4, th["c"] * np.cos(th["w"] * z + th["p"]), th["l"] * z]
    if z.shape[0] > 1:
        u = z[1:] - th["s"] * z[:-1] ** 2
        terms.append(th["r"] * u**2)
        # the scale of the coupling term accounts for the cancellation inside u
        extra = th["r"] * (np.abs(z[1:]) + np.abs(th["s"]) * z[:-1] ** 2) ** 2
    else:
        extra = np.zeros(0)
    allt = np.concatenate(terms)
    return float(np.sum(allt)), float(np.sum(np.abs(allt)) + np.sum(np.abs(extra)))


@functools.lru_cache(maxsize=None)
def _oracle_fns(n):
    g = jax.jit(jax.grad(flat_formula, argnums=1))
    h = jax.jit(jax.hessian(flat_formula, argnums=1))
    return g, h


def classify_start(th, x0):
    """gradient, Hessian, curvature along the gradient and its class at x0 (oracle)"""
    gfn, hfn = _oracle_fns(len(x0))
    thj = {k: jnp.asarray(v) for k, v in th.items()}
    g = np.asarray(gfn(thj, jnp.asarray(x0)), dtype=np.float64)
    H = np.asarray(hfn(thj, jnp.asarray(x0)), dtype=np.float64)
    gg = float(g @ g)
    curv = float(g @ (H @ g))
    cscale = float(np.abs(g) @ (np.abs(H) @ np.abs(g)))
    gnorm = float(np.sqrt(gg))
    if gnorm == 0.0:
        cls = "stationary"
    elif gnorm <= 1e-6:
        cls = "tiny_gradient"
    elif curv == 0.0 or abs(curv) <= 1e-14 * cscale:
        cls = "zero"
    elif abs(curv) <= MARGIN * cscale:
        cls = "near_zero"
    elif curv < 0:
        cls = "neg"
    else:
        cls = "pos"
    return dict(g=g, H=H, gg=gg, curv=curv, cls=cls, gnorm=gnorm)


def trial_analysis(th, x0, info):
    """evaluate f at the six -g trial points of the first Newton-CG iteration (negative curvature start).

    returns dict(k=index of the accepted trial or None, verdict in {"lowers","none","tie"}, points, lengths)"""
    f0, s0 = f_np(th, x0)
    t = info["gg"] / abs(info["curv"])
    verdict, kacc = "none", None
    pts, lens = [], []
    for k in range(6):
        s = t / 2.0**k
        pt = x0 - s * info["g"]
        fk, sk = f_np(th, pt)
        pts.append(pt)
        lens.append(s)
        if not np.isfinite(fk):
            return dict(verdict="nonfinite", k=None, pts=pts, lens=lens, f0=f0)
        m = MARGIN * (s0 + sk)
        if fk > f0 + m:
            continue
        if fk < f0 - m:
            verdict, kacc = "lowers", k
        else:
            verdict, kacc = "tie", k
        break
    return dict(verdict=verdict, k=kacc, pts=pts, lens=lens, f0=f0, t=t)


# ------------------------------------------------------------------ running the code under test
def _thj(th):
    return {k: jnp.asarray(v) for k, v in th.items()}


def _objective(kind, thj):
    def fun(x):
        return flat_formula(thj, flatten_pos(kind, x))
    return fun


@functools.lru_cache(maxsize=None)
def _eager_helpers(kind):
    """jitted value-and-grad / gradient / Hessian-vector product with the coefficients as arguments"""

    def f(thj, x):
        return flat_formula(thj, flatten_pos(kind, x))

    vag = jax.jit(jax.value_and_grad(f, argnums=1))
    grad = jax.jit(jax.grad(f, argnums=1))

    def hvp(thj, x, t):
        return jax.jvp(lambda y: jax.grad(f, argnums=1)(thj, y), (x,), (t,))[1]

    return vag, grad, jax.jit(hvp)


def newton_options(rec, maxiter=None):
    kw = dict(maxiter=rec["maxiter"] if maxiter is None else maxiter)
    if rec.get("miniter") is not None:
        kw["miniter"] = rec["miniter"]
    if rec.get("xtol") is not None:
        kw["xtol"] = rec["xtol"]
    if rec.get("absdelta") is not None:
        kw["absdelta"] = rec["absdelta"]
    if "erf" in rec:
        kw["energy_reduction_factor"] = rec["erf"]
    if rec.get("cg"):
        kw["cg_kwargs"] = dict(rec["cg"])
    return kw


def run_eager(rec, th, x0, maxiter=None):
    """nifty.re.optimize._newton_cg"""
    kind = rec["kind"]
    thj = _thj(th)
    pos = build_pos(kind, x0)
    kw = newton_options(rec, maxiter)
    mode = rec.get("mode", "fun")
    vag, grad, hvp = _eager_helpers(kind)
    if mode == "fun":
        return O._newton_cg(_objective(kind, thj), pos, **kw)
    if mode == "fun_jac":
        return O._newton_cg(_objective(kind, thj), pos, jac=lambda x: grad(thj, x), **kw)

    return O._newton_cg(None, pos, fun_and_grad=lambda x: vag(thj, x), hessp=lambda x, t: hvp(thj, x, t), **kw)


@functools.lru_cache(maxsize=None)
def _static_jit(kind, erf):

    def run(thj, pos, maxiter, miniter, xtol, absdelta, cg_miniter, cg_maxiter):
        return O._static_newton_cg(
            _objective(kind, thj), pos, maxiter=maxiter, miniter=miniter, xtol=xtol,
            absdelta=absdelta, energy_reduction_factor=erf,
            cg_kwargs={"miniter": cg_miniter, "maxiter": cg_maxiter})

    return jax.jit(run)


def cg_defaults(n, cg):
    """(miniter, maxiter) exactly as conjugate_gradient._cg/_static_cg derive them from the given cg_kwargs"""
    cg = cg or {}
    fallback = 20 * n
    mx = cg.get("maxiter")
    mi = cg.get("miniter")
    if mi is None:
        mi = min(6, mx if mx is not None else fallback)
    if mx is None:
        mx = max(min(200, fallback), mi)
    return mi, mx


def run_static(rec, th, x0, maxiter=None):
    """nifty.re.optimize._static_newton_cg, through an outer jax.jit (options as traced data, as in the pinned
    test_static_ncg_jittability) or, if rec['plain'], called directly with concrete options"""
    kind = rec["kind"]
    thj = _thj(th)
    pos = build_pos(kind, x0)
    if rec.get("plain"):
        kw = newton_options(rec, maxiter)
        mode = rec.get("mode", "fun")
        vag, grad, hvp = _eager_helpers(kind)
        if mode == "fun":
            return O._static_newton_cg(_objective(kind, thj), pos, **kw)
        if mode == "fun_jac":
            return O._static_newton_cg(_objective(kind, thj), pos, jac=lambda x: grad(thj, x), **kw)
        return O._static_newton_cg(None, pos, fun_and_grad=lambda x: vag(thj, x),
                                   hessp=lambda x, t: hvp(thj, x, t), **kw)
    n = KINDS[kind]
    cmi, cmx = cg_defaults(n, rec.get("cg"))
    # absdelta=None is handed over as the traced value 0.0: _static_newton_cg turns None into cg_absdelta=0.0 and
    # a never-true `energy_diff < absdelta` test, which is what 0.0 gives as well (one compiled variant per layout;
    # the literal None goes through the direct calls, rec["plain"])
    absd = rec.get("absdelta")
    fn = _static_jit(kind, rec.get("erf", 0.1))
    return fn(thj, pos, int(rec["maxiter"] if maxiter is None else maxiter),
              int(rec["miniter"] or 0), float(1e-5 if rec.get("xtol") is None else rec["xtol"]),
              float(0.0 if absd is None else absd), int(cmi), int(cmx))


@functools.lru_cache(maxsize=None)
def _trust_jit(kind, absdelta, eta, erf):

    def run(thj, pos, maxiter, gtol, itr, mtr, sp_miniter, sp_maxiter):
        return O._trust_ncg(
            _objective(kind, thj), pos, maxiter=maxiter, gtol=gtol, initial_trust_radius=itr,
            max_trust_radius=mtr, eta=eta, absdelta=absdelta, energy_reduction_factor=erf,
            subproblem_kwargs={"miniter": sp_miniter, "maxiter": sp_maxiter})

    return jax.jit(run)


def run_trust(rec, th, x0):
    kind = rec["kind"]
    thj = _thj(th)
    pos = build_pos(kind, x0)
    tr = rec.get("tr") or {}
    if rec.get("plain"):
        kw = dict(maxiter=rec["maxiter"])
        for k in ("gtol", "initial_trust_radius", "max_trust_radius", "eta", "absdelta"):
            if tr.get(k) is not None:
                kw[k] = tr[k]
        if tr.get("sp"):
            kw["subproblem_kwargs"] = dict(tr["sp"])
        return O._trust_ncg(_objective(kind, thj), pos, **kw)
    n = KINDS[kind]
    smi, smx = cg_defaults(n, tr.get("sp"))
    fn = _trust_jit(kind, tr.get("absdelta"), 0.15 if tr.get("eta") is None else tr["eta"], 0.1)
    return fn(thj, pos, int(rec["maxiter"]), float(1e-4 if tr.get("gtol") is None else tr["gtol"]),
              float(1.0 if tr.get("initial_trust_radius") is None else tr["initial_trust_radius"]),
              float(1000.0 if tr.get("max_trust_radius") is None else tr["max_trust_radius"]), int(smi), int(smx))


# ------------------------------------------------------------------ oracle relations
def result_fields(kind, res):
    x = pos_to_np(kind, res.x)
    try:
        fun = float(np.asarray(res.fun))
        status = int(np.asarray(res.status))
        success = bool(np.asarray(res.success))
        nit = int(np.asarray(res.nit))
        nfev = int(np.asarray(res.nfev))
    except Exception as e:  # noqa: BLE001
        raise Violation("result_fields_malformed", repr(e))
    return dict(x=x, fun=fun, status=status, success=success, nit=nit, nfev=nfev)


def check_not_uphill(tag, th, x0, r):
    f0, s0 = f_np(th, x0)
    f1, s1 = f_np(th, r["x"])
    require(np.all(np.isfinite(r["x"])) and np.isfinite(r["fun"]), f"{tag}:nonfinite_result",
            f"x={r['x']} fun={r['fun']} status={r['status']}")
    slack = EPS_F * (s0 + s1)
    require(f1 <= f0 + slack, f"{tag}:uphill",
            f"f(x_ret)={f1!r} > f(x0)={f0!r} (diff {f1 - f0:.3e}, slack {slack:.1e}) status={r['status']} "
            f"nit={r['nit']} x_ret={r['x'].tolist()}")
    require(abs(r["fun"] - f1) <= 1e-10 * max(s1, 1e-300) + 1e-300, f"{tag}:fun_is_not_f_of_x",
            f"fun={r['fun']!r} f(x_ret)={f1!r}")
    return f0, f1


def check_negcurv(tag, th, x0, info, ta, r_full, r_first):
    """negative curvature along a non-zero gradient, and the oracle found a clearly lowering trial first"""
    g = info["g"]
    # (1) the first iteration moves along -g
    d = r_first["x"] - x0
    s = -float(d @ g) / info["gg"]
    perp = float(np.linalg.norm(d + s * g))
    dn = float(np.linalg.norm(d))
    st = f"status={r_first['status']} x1-x0={d.tolist()} g={g.tolist()} t={ta['t']!r} accepted_trial_k={ta['k']}"
    if dn == 0.0:
        kind = "negcurv_reported_convergence_at_start" if r_first["status"] == 0 else "negcurv_stopped_at_start"
        raise Violation(f"{tag}:{kind}", "first iteration did not move although trial step "
                        f"k={ta['k']} lowers f: f(x0)={ta['f0']!r} f(trial)={f_np(th, ta['pts'][ta['k']])[0]!r} {st}")
    require(perp <= 1e-9 * dn, f"{tag}:negcurv_first_step_not_along_gradient", st)
    require(s > 0, f"{tag}:negcurv_first_step_along_positive_gradient", st)
    # (2) progress of the full run
    f0, _ = f_np(th, x0)
    f1, _ = f_np(th, r_full["x"])
    same = bool(np.array_equal(r_full["x"], x0))
    if not f1 < f0:
        kind = "negcurv_no_progress"
        if same:
            kind = "negcurv_reported_convergence_at_start" if r_full["status"] == 0 else "negcurv_stopped_at_start"
        raise Violation(f"{tag}:{kind}", f"f(x_ret)={f1!r} f(x0)={f0!r} status={r_full['status']} nit={r_full['nit']} "
                        f"trial k={ta['k']} lowers f to {f_np(th, ta['pts'][ta['k']])[0]!r}")


def common_classes(rec, info):
    cl = [f"kind_{rec['kind']}", f"fam_{rec['fam']}", f"start_{info['cls']}", f"maxiter_{min(rec['maxiter'], 3)}{'+' if rec['maxiter'] >= 3 else ''}"]
    if rec.get("absdelta") is not None:
        cl.append("opt_absdelta")
    if rec.get("cg"):
        cl.append("opt_cg_kwargs")
    if rec.get("plain"):
        cl.append("plain_call")
    return cl


def _newton_descent(tag, runner, rec):
    th = theta_np(rec)
    x0 = np.asarray(rec["x0"], dtype=np.float64)
    info = classify_start(th, x0)
    classes = common_classes(rec, info)
    if tag == "eager":
        classes.append(f"mode_{rec.get('mode', 'fun')}")
    res = runner(rec, th, x0, None)
    r = result_fields(rec["kind"], res)
    f0, f1 = check_not_uphill(tag, th, x0, r)
    require(r["success"] is True, f"{tag}:success_flag", str(r["success"]))
    require(0 <= r["nit"] <= rec["maxiter"], f"{tag}:nit_out_of_range", f"nit={r['nit']} maxiter={rec['maxiter']}")
    nontrivial = False
    if r["nit"] >= 2:
        classes.append("nit>=2")
        nontrivial = True
    if r["status"] == 0:
        classes.append("status_converged")
    elif r["status"] == -1:
        classes.append("status_aborted")
    else:
        classes.append("status_maxiter")
    if f1 < f0:
        classes.append("energy_lowered")
    # trials per iteration >= 7 <=> the line search reset was hit
    if r["nfev"] - 1 - r["nit"] >= 6:
        classes.append("maybe_ls_reset")
    if info["cls"] == "neg":
        ta = trial_analysis(th, x0, info)
        classes.append(f"trials_{ta['verdict']}")
        if ta["verdict"] == "lowers":
            nontrivial = True
            classes.append("accepted_k0" if ta["k"] == 0 else "accepted_after_halving")
            if rec["maxiter"] == 1:
                r1 = r
            else:
                res1 = runner(rec, th, x0, 1)
                r1 = result_fields(rec["kind"], res1)
            check_negcurv(tag, th, x0, info, ta, r, r1)
        elif ta["verdict"] == "none":
            # every -g trial raises f: the iteration may abort; it must still not step along +g (uphill direction)
            nontrivial = True
            classes.append("ls_reset_first_iteration")
            if rec["maxiter"] == 1:
                r1 = r
            else:
                res1 = runner(rec, th, x0, 1)
                r1 = result_fields(rec["kind"], res1)
            d = r1["x"] - x0
            if float(np.linalg.norm(d)) > 0:
                s = -float(d @ info["g"]) / info["gg"]
                require(s > 0, f"{tag}:negcurv_first_step_along_positive_gradient",
                        f"all six -g trials raise f, the reset trial moved along +g: x1-x0={d.tolist()} "
                        f"g={info['g'].tolist()} status={r1['status']}")
    return dict(nontrivial=nontrivial, classes=classes)


def check_eager(rec):
    return _newton_descent("eager", run_eager, rec)


def check_static(rec):
    return _newton_descent("static", run_static, rec)


def check_trust(rec):
    th = theta_np(rec)
    x0 = np.asarray(rec["x0"], dtype=np.float64)
    info = classify_start(th, x0)
    classes = common_classes(rec, info)
    res = run_trust(rec, th, x0)
    r = result_fields(rec["kind"], res)
    f0, f1 = check_not_uphill("trust", th, x0, r)
    require(0 <= r["nit"] <= max(rec["maxiter"], 1), "trust:nit_out_of_range", f"nit={r['nit']} maxiter={rec['maxiter']}")
    if r["nit"] >= 2:
        classes.append("nit>=2")
    classes.append(f"status_{r['status']}")
    if r["success"]:
        classes.append("success")
    if f1 < f0:
        classes.append("energy_lowered")
    tr = rec.get("tr") or {}
    for k in ("eta", "absdelta", "sp", "initial_trust_radius", "max_trust_radius", "gtol"):
        if tr.get(k) is not None:
            classes.append(f"opt_{k}")
    return dict(nontrivial=info["cls"] in ("neg", "zero") or r["nit"] >= 2, classes=classes)


def _perturbed_stable(rec, th, x0, re, tol_x):
    """is the eager result stable under relative perturbations of x0 of size 2^-40 ?"""
    n = len(x0)
    eps = 2.0**-40
    patterns = [np.ones(n), -np.ones(n), (-1.0) ** np.arange(n), -((-1.0) ** np.arange(n))]
    for pat in patterns:
        xp = x0 * (1 + eps * pat) + (x0 == 0) * eps * pat
        try:
            rp = result_fields(rec["kind"], run_eager(rec, th, xp))
        except Violation:
            return False
        if rp["status"] != re["status"]:
            return False
        if not np.all(np.isfinite(rp["x"])) or float(np.max(np.abs(rp["x"] - re["x"]))) > 1e-2 * tol_x:
            return False
    return True


def _compare(th, x0, re_, rs):
    """list of the OptimizeResults fields in which eager and compiled differ, and the tolerances used"""
    _, se = f_np(th, re_["x"])
    _, s0 = f_np(th, x0)
    xs = max(1.0, float(np.max(np.abs(x0))), float(np.max(np.abs(re_["x"]))) if np.all(np.isfinite(re_["x"])) else 1.0)
    tol_x = AGREE * xs
    tol_f = AGREE * max(se, s0, 1.0)
    bad = []
    if re_["x"].shape != rs["x"].shape or not np.all(np.isfinite(rs["x"])) or \
            float(np.max(np.abs(re_["x"] - rs["x"]))) > tol_x:
        bad.append("x")
    if not (abs(re_["fun"] - rs["fun"]) <= tol_f):
        bad.append("fun")
    if re_["status"] != rs["status"]:
        bad.append("status")
    if re_["success"] != rs["success"]:
        bad.append("success")
    return bad, tol_x, tol_f


def _first_divergence(rec, th, x0):
    """Locate the first Newton iteration m at which eager and compiled differ (runs with maxiter=m are prefixes of
    the full run).  Returns (m, noise_floor); noise_floor is True if in that iteration both variants changed the
    energy by an amount that float64 cannot resolve (|dE| <= 1e-11 * sum|terms|) while at least one of them did
    move: the accept / halve / abort decisions of the line search (`new_energy <= energy`) are then decided by
    round-off, not by the algorithm."""
    kind = rec["kind"]
    prev = x0
    for m in range(1, rec["maxiter"] + 1):
        e = result_fields(kind, run_eager(rec, th, x0, m))
        s = result_fields(kind, run_static(rec, th, x0, m))
        bad, _, _ = _compare(th, x0, e, s)
        if bad:
            fp, sp = f_np(th, prev)
            fe, _ = f_np(th, e["x"])
            fs, _ = f_np(th, s["x"])
            moved = (not np.array_equal(e["x"], prev)) or (not np.array_equal(s["x"], prev))
            return m, bool(moved and max(abs(fp - fe), abs(fp - fs)) <= 1e-11 * sp)
        if e["nit"] < m:      # both stopped early, identically
            return None, False
        prev = e["x"]
    return None, False


def check_agree(rec):
    th = theta_np(rec)
    x0 = np.asarray(rec["x0"], dtype=np.float64)
    info = classify_start(th, x0)
    classes = common_classes(rec, info)
    classes.append(f"mode_{rec.get('mode', 'fun')}")
    re_ = result_fields(rec["kind"], run_eager(rec, th, x0))
    rs = result_fields(rec["kind"], run_static(rec, th, x0))
    bad, tol_x, tol_f = _compare(th, x0, re_, rs)
    if bad:
        detail = (f"eager: x={re_['x'].tolist()} fun={re_['fun']!r} status={re_['status']} nit={re_['nit']} "
                  f"nfev={re_['nfev']}; compiled: x={rs['x'].tolist()} fun={rs['fun']!r} status={rs['status']} "
                  f"nit={rs['nit']} nfev={rs['nfev']}; tol_x={tol_x:.1e} tol_f={tol_f:.1e}")
        m, noise = _first_divergence(rec, th, x0)
        if noise:
            classes.append("mismatch_noise_floor")
            return dict(nontrivial=False, classes=classes)
        # a start with exactly zero gradient / exactly zero curvature along the gradient is an exact tie in floating
        # point as well (CG sees curv == 0.0 or gamma == 0.0): the first iteration is judged without the stability test
        exact = m == 1 and info["cls"] in ("zero", "stationary")
        if exact or _perturbed_stable(rec, th, x0, re_, tol_x):
            raise Violation("eager_vs_compiled:" + "+".join(bad), detail + f"; first differing iteration: {m}")
        classes.append("mismatch_unstable")
        return dict(nontrivial=False, classes=classes)
    if re_["nit"] >= 2:
        classes.append("nit>=2")
    classes.append({0: "status_converged", -1: "status_aborted"}.get(re_["status"], "status_maxiter"))
    if re_["nfev"] - 1 - re_["nit"] >= 1:
        classes.append("some_halving")
    if re_["nfev"] - 1 - re_["nit"] >= 6:
        classes.append("maybe_ls_reset")
    if re_["nit"] != rs["nit"]:
        classes.append("nit_differs")
    return dict(nontrivial=(info["cls"] in ("neg", "zero") or re_["nit"] >= 2), classes=classes)


# ------------------------------------------------------------------ generators
def _dy(lo, hi, den):
    return st.integers(int(round(lo * den)), int(round(hi * den))).map(lambda k: k / den)


_W = st.sampled_from([0.5, 1.0, 1.5, 2.0, 3.0])
# about 1 in 130 (interior values of an integer range are drawn roughly uniformly; boundary values are favoured):
# direct, un-jitted calls of the compiled minimisers re-trace and re-compile every time (0.4 s idle, seconds under load)
_RARE = st.tuples(st.integers(0, 12), st.integers(0, 12)).map(lambda t: t == (5, 7))


@st.composite
def _theta_x0(draw, n, fam):
    z = [0.0] * n
    th = {k: list(z) for k in COEF_N}
    th["r"] = [0.0] * max(n - 1, 0)
    th["s"] = [0.0] * max(n - 1, 0)
    x0 = [draw(_dy(-2, 2, 64)) for _ in range(n)]
    if fam == "trig":
        for i in range(n):
            th["c"][i] = draw(_dy(-2, 2, 8))
            th["w"][i] = draw(_W)
            th["p"][i] = draw(_dy(-3, 3, 8))
            th["a"][i] = draw(st.sampled_from([0.0, 0.0, 0.125, 0.5]))
            th["l"][i] = draw(st.sampled_from([0.0, 0.0, 0.25, -0.5]))
        if all(c == 0 for c in th["c"]):
            th["c"][0] = 1.0
        # starts next to the inflection points of the cosines (w x + p = pi/2 + m pi): tiny |H| of either sign along a
        # gradient of size |c w|, so the first trial steps are huge; with a tilt l the far field differs from the
        # local slope
        if draw(st.sampled_from([False, False, True])):
            j0 = draw(st.integers(3, 12))
            for i in range(n):
                if th["c"][i] == 0:
                    continue
                m = draw(st.integers(-2, 2))
                sg = draw(st.sampled_from([-1.0, 1.0]))
                x0[i] = (float(np.pi) * (m + 0.5) - th["p"][i] + sg * 2.0 ** -(j0 + draw(st.integers(0, 1)))) / th["w"][i]
                th["a"][i] = 0.0
                th["l"][i] = draw(st.sampled_from([0.0, 0.125, -0.125, 0.25, -0.5]))
    elif fam == "dwell":
        for i in range(n):
            th["a"][i] = -draw(_dy(0.25, 2, 8))
            th["b"][i] = draw(_dy(0.25, 2, 8))
            th["l"][i] = draw(st.sampled_from([0.0, 0.0, 0.125, -0.25]))
        # starts near the inflection points +-sqrt(-a/3b): tiny |H|, huge Newton / negative-curvature steps
        how = draw(st.sampled_from(["grid", "grid", "inflect_in", "inflect_out", "hilltop"]))
        if how != "grid":
            j0 = draw(st.integers(2, 12))
            for i in range(n):
                infl = float(np.sqrt(-th["a"][i] / (3 * th["b"][i])))
                sg = draw(st.sampled_from([-1.0, 1.0]))
                j = j0 + draw(st.integers(0, 1))
                if how == "inflect_in":
                    x0[i] = sg * infl * (1 - 2.0**-j)
                elif how == "inflect_out":
                    x0[i] = sg * infl * (1 + 2.0**-j)
                else:
                    x0[i] = sg * 2.0**-j
    elif fam == "rosen":
        for i in range(n):
            th["a"][i] = draw(st.sampled_from([2.0, 2.0, 0.5, 0.0]))
            th["l"][i] = -th["a"][i] * draw(st.sampled_from([1.0, 1.0, 0.5]))
        for i in range(n - 1):
            th["r"][i] = draw(st.sampled_from([0.5, 1.0, 2.0, 4.0, 16.0]))
            th["s"][i] = draw(st.sampled_from([1.0, 1.0, 0.5, -1.0]))
        if n == 1:
            th["b"][0] = draw(_dy(0.25, 2, 8))
            th["a"][0] = -draw(_dy(0.25, 2, 8))
    elif fam == "concave":
        for i in range(n):
            th["a"][i] = draw(_dy(-2, 2, 8))
            th["b"][i] = draw(st.sampled_from([0.0, 0.0, 0.0, 0.25, 1.0]))
            th["l"][i] = draw(_dy(-1, 1, 8))
        if all(a >= 0 for a in th["a"]):
            th["a"][draw(st.integers(0, n - 1))] = -1.0
    elif fam == "flat":
        # exactly zero curvature along a non-zero gradient
        how = draw(st.sampled_from(["linear", "quartic_origin", "cancel"])) if n > 1 else \
            draw(st.sampled_from(["linear", "quartic_origin"]))
        if how == "cancel":
            # H = diag(h, -h, ...), |g_0| = |g_1|, other gradient entries zero  =>  g.Hg = 0 exactly
            h = draw(st.sampled_from([0.5, 1.0, 2.0]))
            v = draw(st.sampled_from([0.5, 1.0, -1.5]))
            th["a"][0], th["a"][1] = h, -h
            x0[0], x0[1] = v, draw(st.sampled_from([-1.0, 1.0])) * v
            for i in range(2, n):
                th["a"][i] = draw(st.sampled_from([1.0, -0.5, 2.0]))
                x0[i] = 0.0
        else:
            for i in range(n):
                if draw(st.booleans()) or i == 0:
                    th["l"][i] = draw(st.sampled_from([1.0, -0.5, 0.25, -2.0]))
                    if how == "quartic_origin":
                        th["b"][i] = draw(st.sampled_from([1.0, 0.5, 4.0]))
                        x0[i] = 0.0
                else:
                    th["a"][i] = draw(st.sampled_from([1.0, 2.0, -1.0]))
                    x0[i] = 0.0
    else:  # mixed
        for i in range(n):
            th["a"][i] = draw(_dy(-2, 2, 8))
            th["b"][i] = draw(st.sampled_from([0.0, 0.25, 1.0, 2.0]))
            th["c"][i] = draw(st.sampled_from([0.0, 0.0, 1.0, -0.5, 2.0]))
            th["w"][i] = draw(_W)
            th["p"][i] = draw(_dy(-3, 3, 8))
            th["l"][i] = draw(_dy(-1, 1, 8))
        for i in range(n - 1):
            th["r"][i] = draw(st.sampled_from([0.0, 0.0, 0.5, 1.0, 4.0]))
            th["s"][i] = draw(st.sampled_from([0.0, 1.0, 0.5, -1.0]))
    if fam != "flat":
        # no coordinate that is exactly linear (zero Hessian row, non-zero gradient entry) next to curved ones: there
        # the exact curvature of a later CG direction is 0 and round-off alone decides between "stop" and a step of
        # 1/round-off (see ASSUMPTIONS); exactly flat directions are generated by the "flat" family, where the very
        # first CG direction has exactly zero curvature in floating point as well
        for i in range(n):
            own = th["a"][i] != 0 or th["b"][i] != 0 or th["c"][i] != 0 or (i > 0 and th["r"][i - 1] != 0)
            if not own:
                th["l"][i] = 0.0
    return th, x0


FAMS = ["trig", "dwell", "dwell", "rosen", "concave", "flat", "mixed"]


def newton_recipes(plain_every=1, kinds=None, free_erf=False):
    def strat(tier):
        @st.composite
        def rec(draw):
            kind = draw(st.sampled_from(kinds or sorted(KINDS)))
            fam = draw(st.sampled_from(FAMS))
            th, x0 = draw(_theta_x0(KINDS[kind], fam))
            r = {"kind": kind, "fam": fam, "th": th, "x0": x0,
                 "maxiter": draw(st.sampled_from([1, 1, 1, 2, 2, 3, 4, 5, 6, 7, 8, 9, 10])),
                 "miniter": draw(st.sampled_from([None, None, 0, 1, 2, 3])),
                 "xtol": draw(st.sampled_from([None, None, 1e-5, 1e-2, 1e-8, 0.25])),
                 "absdelta": draw(st.sampled_from([None, None, 2.0**-20, 2.0**-10, 2.0**-4, 1.0])),
                 "mode": draw(st.sampled_from(["fun", "vag_hessp", "vag_hessp", "fun_jac"])),
                 "plain": bool(plain_every) and draw(_RARE)}
            # energy_reduction_factor is a Python-level switch: non-default values only where nothing is compiled
            # per value (eager runs, direct calls of the compiled variant)
            if (r["plain"] or free_erf) and draw(st.integers(0, 3)) == 0:
                r["erf"] = draw(st.sampled_from([None, 0.5]))
            cgk = draw(st.sampled_from(["none", "none", "none", "maxiter", "miniter", "both"]))
            if cgk != "none":
                cg = {}
                if cgk in ("maxiter", "both"):
                    cg["maxiter"] = draw(st.integers(1, 8))
                if cgk in ("miniter", "both"):
                    cg["miniter"] = draw(st.integers(0, 3))
                r["cg"] = cg
            else:
                r["cg"] = None
            return r
        return rec()
    return strat


def trust_recipes(kinds):
    return lambda tier: _trust_recipes(kinds)


def _trust_recipes(kinds):
    @st.composite
    def rec(draw):
        kind = draw(st.sampled_from(kinds))
        fam = draw(st.sampled_from(FAMS))
        th, x0 = draw(_theta_x0(KINDS[kind], fam))
        plain = draw(_RARE)
        tr = {"gtol": draw(st.sampled_from([None, None, 1e-4, 1e-2, 1e-8])),
              "initial_trust_radius": draw(st.sampled_from([None, None, 0.25, 1.0, 4.0])),
              "max_trust_radius": draw(st.sampled_from([None, None, 8.0, 1000.0])),
              "eta": None, "absdelta": None,
              "sp": draw(st.sampled_from([None, None, None, {"maxiter": 1}, {"maxiter": 3}, {"miniter": 0}]))}
        # eta and absdelta must be concrete (Python `if`): two compiled variants per layout
        if draw(st.integers(0, 2)) == 0:
            tr["eta"], tr["absdelta"] = draw(st.sampled_from([(0.0, 2.0**-6), (0.0, 2.0**-6), (0.2, 2.0**-12)])) \
                if plain else (0.0, 2.0**-6)
        return {"kind": kind, "fam": fam, "th": th, "x0": x0,
                "maxiter": draw(st.sampled_from([1, 1, 2, 3, 4, 5, 6, 8, 10])), "plain": plain, "tr": tr}
    return rec()


ARRAYS = ["arr1", "arr2"]
VECTORS = ["vdict3", "vnest6"]
NT_NEWTON = ("non-trivial = clearly negative curvature along a non-zero gradient at the start and the trial-step "
             "oracle decides (a -g trial clearly lowers f, or all six clearly raise it), or >= 2 Newton iterations")
R_STATIC = ("nifty.re.optimize._static_newton_cg (under jax.jit with options as data; about 1/130 called directly) on {}: "
            "f(x_ret) <= f(x0), fun == f(x_ret); negative-curvature start: first iteration along -g, strict progress, "
            "status not aborted/converged at x0; " + NT_NEWTON)
R_TRUST = ("nifty.re.optimize._trust_ncg with generated radii / eta / gtol / absdelta / subproblem_kwargs on {}: "
           "f(x_ret) <= f(x0), fun == f(x_ret); non-trivial = negative or zero curvature start, or >= 2 iterations")
R_AGREE = ("_newton_cg vs _static_newton_cg with identical options on {}: x, fun to 1e-8*scale, status and success "
           "equal (judged where the eager result is stable under 2^-40 perturbations of x0); non-trivial = negative "
           "or zero curvature start, or >= 2 Newton iterations")
# one sub-check per (minimiser, layout group): a worker then compiles two layouts only (XLA compile time dominates)
SUBS = [
    Sub(name="eager_newton_cg", check=check_eager, strategy=newton_recipes(plain_every=0, free_erf=True), jax=True,
        quick=2400, thorough=40000, shards=3, budget_quick=100.0,
        rule="nifty.re.optimize._newton_cg (objective as fun / fun+jac / fun_and_grad+hessp) on all layouts: "
             "f(x_ret) <= f(x0), fun == f(x_ret); negative-curvature start: first iteration along -g, strict "
             "progress, status not aborted/converged at x0; " + NT_NEWTON),
    Sub(name="static_newton_cg_array", check=check_static, strategy=newton_recipes(kinds=ARRAYS), jax=True,
        quick=2000, thorough=20000, shards=2, budget_quick=100.0, rule=R_STATIC.format("array positions")),
    Sub(name="static_newton_cg_vector", check=check_static, strategy=newton_recipes(kinds=VECTORS), jax=True,
        quick=2000, thorough=20000, shards=2, budget_quick=100.0, rule=R_STATIC.format("Vector positions")),
    Sub(name="trust_ncg_array", check=check_trust, strategy=trust_recipes(ARRAYS), jax=True,
        quick=1500, thorough=15000, shards=1, budget_quick=100.0, rule=R_TRUST.format("array positions")),
    Sub(name="trust_ncg_vector", check=check_trust, strategy=trust_recipes(VECTORS), jax=True,
        quick=1500, thorough=15000, shards=1, budget_quick=100.0, rule=R_TRUST.format("Vector positions")),
    Sub(name="eager_vs_compiled_array", check=check_agree, strategy=newton_recipes(kinds=ARRAYS), jax=True,
        quick=1200, thorough=20000, shards=2, budget_quick=100.0, rule=R_AGREE.format("array positions")),
    Sub(name="eager_vs_compiled_vector", check=check_agree, strategy=newton_recipes(kinds=VECTORS), jax=True,
        quick=1200, thorough=20000, shards=2, budget_quick=100.0, rule=R_AGREE.format("Vector positions")),
]
