"""C19 - the sampled KL energy is the sample average of the Hamiltonian (DESIGN 2/C19).

Classic recipe
--------------
{"types", "mtypes", "keys", "expr", "x"}   as in props/c04_constant_input.py; expr = ["ham", ic_iters, psdt, lh-tree]
 "n_samples": 1..3, "mirror": bool, "seed": int      sampling configuration (RNG seed for nifty.cl.random.Context)
 "geo": 0 | n                                        n > 0: geoVI sampling with NewtonCG(iteration_limit=n)
 "steps": 1..2                                       NewtonCG iterations of the KL minimisation
 "delta": {key: [...]}, "probe": {key: [...]}        shift of the expansion point, metric probe vector
 "ntask": 1..4, "sched": [ints]                      (distributed sub-check only) simulated MPI tasks, schedule

For EVERY admissible split (constants C, point_estimates P) of the keys - each key is in neither, C only, P only
or both; P == all keys is rejected by the documented RuntimeError - the check builds
kl = SampledKLEnergy(x, H, n_samples, sampler, mirror, C, P) and compares with an independent loop over
kl.samples.iterator() that evaluates the UN-SPECIALISED Hamiltonian at every sample:

    kl.value                     == mean_i H(s_i)
    kl.gradient                  == mean_i grad H(s_i) restricted to the keys not in C
    dense kl.metric/apply_metric == mean_i metric H(s_i) restricted to (keys not in C) x (keys not in C)
    kl.position                  == x restricted to keys not in C (bit-identical)
    kl.at(p2): samples keep their residuals (bit-identical residual fields, samples == new mean +- residual),
               value / gradient / metric relations hold again at the moved point
    a few NewtonCG steps: constant keys absent from the position and bit-identical in the reconstructed full
               position and in the sample list's mean; relations hold at the final point.

JAX recipe
----------
{"model": {...likelihood zoo, see _jax_model...}, "pos": {key: [...]}, "pos2": {key: [...]},
 "samples": ["draw", mode, n, seed] | ["given", [[residual per key] ...]] | ["none"],
 "pe": [keys], "const": [keys], "jit": bool, "kl_map": "vmap"|"lmap"|"smap", "maxiter": 1..3}
"""
import itertools
import logging
import warnings

import numpy as np
from hypothesis import strategies as st

import nifty.cl as ift
from props import c04_constant_input as c04
from vlib import Discard, Sub, Violation, close, require
from vlib import nx
from vlib import strat as S

PROPERTY = "C19"
LEVEL = "exploration"
TECHNIQUE = ("PBT: independent per-sample loop over the un-specialised Hamiltonian (value, gradient, dense metric) "
             "vs. the sampled KL, exhaustive over constant/point-estimate splits")
RULE = ("Classic: generated StandardHamiltonians (likelihood trees of props/c04: Gaussian with/without data and "
        "inverse covariance, Poissonian, Bernoulli, InverseGamma, StudentT, VariableCovarianceGaussian, sums, scaled) "
        "on 2-3 key MultiDomains; for EVERY admissible split of the keys into constants / point_estimates "
        "(incl. keys in both), mirrored or not, n_samples 1-3 (3-key cases: at most 3 samples in total), MGVI and geoVI "
        "sampling: SampledKLEnergy value, "
        "gradient and dense metric against an independent loop over kl.samples.iterator() evaluating the "
        "un-specialised Hamiltonian; constants absent from kl.position and bit-unchanged after NewtonCG steps; "
        "kl.at(p2) keeps the residuals bit-identically. The same under 2-4 simulated MPI tasks. JAX: "
        "OptimizeVI.kl_value_and_grad / kl_metric / kl_minimize and the module-level _kl_vg / _kl_met against a "
        "sample-by-sample eager average of likelihood energy + 0.5 x^2 (closed-form NumPy Hamiltonian for the "
        "Gaussian models), drawn (mirrored, with point estimates) and hand-made (unmirrored) residuals, at a moved "
        "expansion point, with and without constants; after kl_minimize the constant leaves are bit-unchanged.")
LEVEL_TEXT = ("Generated search over Hamiltonians, positions and sampling configurations with an exhaustive loop over "
              "all constant / point-estimate splits per Hamiltonian; every relation of the property is compared on "
              "dense quantities, so a wrong average, a missed or superfluous key restriction, or lost residuals show "
              "up as O(1) mismatches. Exploration, not proof: only generated shapes and real float64 fields.")
LEVEL_NOTE = ("Trusted: the un-specialised Hamiltonian (value / gradient / metric at a given point are the reference; "
              "their own correctness is C03/C04/C11/C12), vlib.nx dense extraction, the simulated communicator "
              "(distributed sub-check), JAX autodiff of the harness-side reference Hamiltonian.")
ASSUMPTIONS = [
    "reference = the un-specialised Hamiltonian evaluated at each sample returned by the public sample iterator "
    "(classic) resp. at new_position + (sample_i - old_position) (JAX)",
    "real float64 fields only; positions dyadic in [-2, 2]; generated likelihood trees keep all intermediate values "
    "finite for inputs in [-10.25, 10.25] (position + residual; a residual beyond 8 sigma has probability < 1e-15); "
    "where the reference itself is non-finite the comparison is skipped (classic: that split, class "
    "'reference_nonfinite', and the case does not count as non-trivial; JAX: the case is discarded)",
    "comparison tolerance 1e-9 relative to max(1, |a|, |b|) (classic: specialised operators re-associate sums; "
    "JAX: vmap/jit vs eager evaluation order)",
    "'keeps the residuals' is checked bit-exactly on the stored residual fields (ResidualSampleList._r/_n, "
    "Samples._samples) when those attributes exist, and through the public iterator as sample == mean +- residual",
    "exceptions raised inside a minimiser run are not counted against this property (class 'minimiser_raised'); "
    "the same energy methods are exercised directly through kl.at(p2)",
]

TOL = 1e-9
FLT = np.float64
WIDE_IV = (-10.25, 10.25)


# ------------------------------------------------------------------------------------------
# classic: oracle
# ------------------------------------------------------------------------------------------
def _splits(keys):
    """all (constants, point_estimates) with point_estimates != all keys (documented RuntimeError)"""
    out = []
    for states in itertools.product(range(4), repeat=len(keys)):
        C = [k for k, s in zip(keys, states) if s & 1]
        P = [k for k, s in zip(keys, states) if s & 2]
        if len(P) == len(keys):
            continue
        out.append((C, P))
    return out


def _mfbytes(f, keys=None):
    keys = sorted(f.keys()) if keys is None else keys
    return b"|".join(k.encode() + b":" + np.ascontiguousarray(f[k].asnumpy()).tobytes() for k in keys)


def _reference(H, samples, vcols, dense, probes):
    """independent average over the samples of value, gradient (flat, restricted to vcols), and of the metric
    restricted to vcols x vcols: dense matrix (if `dense`) and its action on the probe vectors (flat, on vcols)"""
    dom = H.domain
    ntot = nx.dom_size(dom)
    vals, grads, mets = [], [], []
    acts = [[] for _ in probes]
    for s in samples:
        lin = H(ift.Linearization.make_var(s, True))
        vals.append(float(np.asarray(lin.val.asnumpy()).reshape(-1)[0]))
        grads.append(nx.flat(lin.gradient))
        if dense:
            mets.append(c04._real_dense(lin.metric, "reference_metric"))
        for j, p in enumerate(probes):
            full = np.zeros(ntot)
            full[vcols] = p
            acts[j].append(nx.flat(lin.metric(nx.unflat(dom, full)))[vcols])
    n = len(samples)
    val = sum(vals) / n
    grad = sum(grads) / n
    met = (sum(mets) / n)[np.ix_(vcols, vcols)] if dense else None
    acts = [sum(a) / n for a in acts]
    ok = np.isfinite(val) and np.all(np.isfinite(grad)) and (met is None or np.all(np.isfinite(met))) \
        and all(np.all(np.isfinite(a)) for a in acts)
    if not ok:
        return None
    return val, grad[vcols], met, acts


DENSE_MAX = 4


def _compare(kl, H, keys, C, rec, tag, samples=None, dense=True):
    """value / gradient / metric of `kl` against the independent average over `samples`
    (default: kl.samples.iterator()).  Returns False if the reference is not finite."""
    dom = H.domain
    V = [k for k in keys if k not in C]
    vdom = ift.MultiDomain.make({k: dom[k] for k in V})
    vcols = c04._cols(dom, set(V))
    nv = len(vcols)
    if samples is None:
        samples = list(kl.samples.iterator())
    for s in samples:
        require(s.domain is dom, "sample_domain", f"{tag}: sample lives on {s.domain}")
    dense = dense and 0 < nv <= DENSE_MAX
    probes = []
    if nv:
        probes.append(np.concatenate([np.resize(np.asarray(rec["probe"][k], dtype=FLT), dom[k].size) for k in V]))
        if not dense:
            e = np.zeros(nv)
            e[rec["seed"] % nv] = 1.
            probes.append(e)
    ref = _reference(H, samples, vcols, dense, probes)
    if ref is None:
        return False
    rv, rg, rm, racts = ref
    require(kl.position.domain is vdom, "position_domain", f"{tag}: kl.position on {list(kl.position.domain.keys())}")
    require(kl.gradient.domain is vdom, "gradient_domain", f"{tag}: kl.gradient on {list(kl.gradient.domain.keys())}")
    close(np.asarray(kl.value, dtype=FLT).reshape(-1), np.array([rv]), "value", tol=TOL, detail=tag)
    close(nx.flat(kl.gradient), rg, "gradient", tol=TOL, detail=tag)
    met = kl.metric
    require(met.domain is vdom and met.target is vdom, "metric_domain", tag)
    if dense:
        close(c04._real_dense(met, "metric"), rm, "metric", tol=TOL, detail=tag)
    for j, (p, ra) in enumerate(zip(probes, racts)):
        x = nx.unflat(vdom, p)
        am = kl.apply_metric(x) if j == 0 else met(x)
        require(am.domain is vdom, "apply_metric_domain", tag)
        close(nx.flat(am), ra, "apply_metric", tol=TOL, detail=tag)
    return True


def _residuals_public(sl, mean):
    """s_i - mean for all samples (flat)"""
    m = nx.flat(mean)
    return [nx.flat(s) - m for s in sl.iterator()]


def _geo_ok(H):
    """geoVI sampling needs a coordinate transformation with a sampling dtype for every likelihood summand
    (draw_samples asserts it); otherwise the case falls back to MGVI sampling"""
    try:
        tr = H.likelihood_energy.get_transformation()
    except NotImplementedError:
        return False
    if tr is None:
        return False
    dt = tr[0]
    if isinstance(dt, dict):
        return all(v is not None for v in dt.values())
    return dt is not None


def _check_split(H, X, keys, C, P, rec, classes, comm=None):
    dom = H.domain
    Cset = set(C)
    V = [k for k in keys if k not in Cset]
    tag = f"C={C} P={P} mirror={rec['mirror']} n={rec['n_samples']}"
    xbytes = _mfbytes(X)
    sampler = None
    if rec["geo"] and _geo_ok(H):
        sampler = ift.NewtonCG(ift.GradientNormController(iteration_limit=rec["geo"]), max_cg_iterations=8)
        classes.add("geoVI")
    with ift.random.Context(rec["seed"]):
        try:
            kl = ift.SampledKLEnergy(X, H, rec["n_samples"], sampler, mirror_samples=rec["mirror"],
                                     constants=list(C), point_estimates=list(P), comm=comm)
        except ValueError as e:
            if sampler is not None and "Geometric sampling only works" in str(e):
                classes.add("geo_unavailable")
                return
            raise
    require(_mfbytes(X) == xbytes, "input_position_modified", tag)
    n_tot = rec["n_samples"] * (2 if rec["mirror"] else 1)
    sl = kl.samples
    require(sl.n_samples == n_tot, "n_samples", f"{tag}: {sl.n_samples} samples, expected {n_tot}")
    require(sl.domain is dom, "samples_domain", f"{tag}: {sl.domain}")
    samples = list(sl.iterator())
    require(len(samples) == n_tot, "n_samples_iterated", f"{tag}: {len(samples)}")
    # expansion point: constants are removed from the optimised position, everything else is bit-identical
    pk = set(kl.position.domain.keys())
    require(not (pk & Cset), "position_has_constant_key", f"{tag}: position keys {sorted(pk)}")
    require(pk == set(V), "position_keys", f"{tag}: position keys {sorted(pk)}")
    require(_mfbytes(kl.position, V) == _mfbytes(X, V), "position_values", tag)
    require(_mfbytes(sl.mean) == xbytes, "samples_mean", f"{tag}: mean of the sample list is not the expansion point")
    if not _compare(kl, H, keys, C, rec, tag, samples):
        classes.add("reference_nonfinite")
        return
    res0 = _residuals_public(sl, X)
    if any(np.any(r != 0) for r in res0):
        classes.add("residuals_nonzero")

    # ---- moving the expansion point keeps the residuals
    vdom = kl.position.domain
    if V:
        shift = ift.MultiField.from_dict(
            {k: ift.makeField(dom[k], np.resize(np.asarray(rec["delta"][k], dtype=FLT), dom[k].size).reshape(dom[k].shape))
             for k in V}, vdom)
        p2 = kl.position + shift
    else:
        p2 = kl.position
    X2 = ift.MultiField.union([X, p2]) if V else X
    kl2 = kl.at(p2)
    _moved_relations(kl, kl2, H, X, X2, keys, C, rec, tag + " at(p2)", res0, classes)

    # ---- a few minimiser steps
    if V:
        mini = ift.NewtonCG(ift.GradientNormController(iteration_limit=rec["steps"]), max_cg_iterations=3)
        try:
            kl3, _ = mini(kl)
        except Exception as e:  # noqa: BLE001   (minimiser robustness is C16; see ASSUMPTIONS)
            classes.add("minimiser_raised_" + type(e).__name__)
            return
        require(isinstance(kl3, type(kl)), "minimiser_result_type", f"{tag}: {type(kl3)}")
        p3 = kl3.position
        pk3 = set(p3.domain.keys())
        require(not (pk3 & Cset), "position_has_constant_key", f"{tag} after minimisation: {sorted(pk3)}")
        require(p3.domain is vdom, "position_domain", f"{tag} after minimisation")
        if not np.all(np.isfinite(nx.flat(p3))):
            classes.add("nonfinite_after_steps")
            return
        if nx.flat(p3).tobytes() != nx.flat(kl.position).tobytes():
            classes.add("minimiser_moved")
        X3 = ift.MultiField.union([X, p3])
        require(_mfbytes(X3, sorted(Cset)) == _mfbytes(X, sorted(Cset)), "constant_key_changed", tag)
        _moved_relations(kl, kl3, H, X, X3, keys, C, rec, tag + " after minimisation", res0, classes)
        require(_mfbytes(X) == xbytes, "input_position_modified", tag + " after minimisation")


def _moved_relations(kl, kl2, H, X, X2, keys, C, rec, tag, res0, classes):
    """kl2 = kl moved to the full position X2 (constant keys must still carry X's values)"""
    Cs = sorted(C)
    V = [k for k in keys if k not in C]
    sl, sl2 = kl.samples, kl2.samples
    require(_mfbytes(kl2.position, V) == _mfbytes(X2, V), "moved_position", tag)
    require(sl2.n_samples == sl.n_samples, "moved_n_samples", tag)
    require(sl2.domain is H.domain, "moved_samples_domain", tag)
    m2 = sl2.mean
    require(_mfbytes(m2, Cs) == _mfbytes(X, Cs), "constant_key_changed", f"{tag}: mean of the moved sample list")
    require(_mfbytes(m2) == _mfbytes(X2), "moved_mean", tag)
    s2 = list(sl2.iterator())
    require(len(s2) == len(res0), "moved_n_samples", tag)
    # public: sample_i' - mean' == sample_i - mean up to rounding of one add and one subtract
    x2 = nx.flat(X2)
    for i, (s, r) in enumerate(zip(s2, res0)):
        got = nx.flat(s) - x2
        scale = max(1.0, float(np.max(np.abs(x2))), float(np.max(np.abs(nx.flat(X)))), float(np.max(np.abs(r), initial=0.)))
        close(got, r, "residuals_not_kept", tol=1e-14, scale=scale, detail=f"{tag} sample {i}")
    # stored residual fields: bit-identical, and the samples are exactly mean +- residual
    r1, n1 = getattr(sl, "_r", None), getattr(sl, "_n", None)
    r2, n2 = getattr(sl2, "_r", None), getattr(sl2, "_n", None)
    if r1 is not None and r2 is not None and n1 is not None and n2 is not None and sl.comm is None:
        classes.add("stored_residuals_compared")
        require(len(r1) == len(r2) and tuple(n1) == tuple(n2), "stored_residuals_changed", tag)
        for i, (a, b) in enumerate(zip(r1, r2)):
            require(set(a.keys()) == set(b.keys()) and _mfbytes(a) == _mfbytes(b), "stored_residuals_changed",
                    f"{tag} residual {i}")
        for i, (s, a, neg) in enumerate(zip(s2, r2, n2)):
            for k in keys:
                base = X2[k].asnumpy()
                if k in a.keys():
                    exp = base - a[k].asnumpy() if neg else base + a[k].asnumpy()
                else:
                    exp = base
                require(np.ascontiguousarray(s[k].asnumpy()).tobytes() == np.ascontiguousarray(exp).tobytes(),
                        "sample_is_not_mean_plus_residual", f"{tag} sample {i} key {k}")
    if not _compare(kl2, H, keys, C, rec, tag, s2, dense=False):
        classes.add("reference_nonfinite_moved")


def _build_classic(rec):
    u = c04.Universe(rec)
    scope = dict(rec["keys"])
    H = c04.build_energy(u, rec["expr"], scope)
    assert isinstance(H, ift.StandardHamiltonian)
    keys = list(H.domain.keys())
    expected = c04.leafkeys(rec["expr"])
    require(set(keys) == expected, "operator_domain_keys",
            f"Hamiltonian built from keys {sorted(expected)} has domain keys {sorted(keys)}")
    X = u.position(rec["x"], keys)
    return H, X, keys


def _classes_of(rec, keys, classes):
    tg = set()
    c04.tags(rec["expr"], tg)
    classes |= {"node_" + t for t in tg if not t.startswith("ptw_") and t not in
                ("var", "id", "scale", "neg", "addc", "addf", "diag", "pow", "clip", "dense", "hart", "sum",
                 "integrate", "mul", "add", "sub", "div", "vdot", "pack", "get", "subst", "duck")}
    classes.add(f"nkeys_{len(keys)}")
    classes.add("mirrored" if rec["mirror"] else "unmirrored")
    classes.add(f"n_samples_{rec['n_samples']}")
    if rec["geo"] and "geoVI" not in classes:
        classes.add("geo_unavailable")
    if "geoVI" not in classes:
        classes.add("MGVI")
    return classes


def check_classic(rec):
    with c04._Quiet():
        H, X, keys = _build_classic(rec)
        classes = set()
        nsplit = 0
        depth0 = len(ift.random._sseq)
        for C, P in _splits(keys):
            _check_split(H, X, keys, C, P, rec, classes)
            nsplit += 1
            if C and P and set(C) != set(P):
                classes.add("split_differing_C_P")
            if set(C) & set(P):
                classes.add("split_invariant_keys")
            if len(C) == len(keys):
                classes.add("split_all_constant")
        assert len(ift.random._sseq) == depth0
        classes.add(f"splits_{nsplit}")
    _classes_of(rec, keys, classes)
    nontrivial = "split_differing_C_P" in classes and "residuals_nonzero" in classes \
        and "reference_nonfinite" not in classes
    return dict(nontrivial=nontrivial, classes=sorted(classes))


# ------------------------------------------------------------------------------------------
# classic, distributed over simulated MPI tasks
# ------------------------------------------------------------------------------------------
def check_distributed(rec):
    from vlib import simcomm
    R = ift.random
    ntask = rec["ntask"]
    with c04._Quiet():
        H, X, keys = _build_classic(rec)
        C, P = rec["split"]
        C = [k for k in keys if k in C]
        P = [k for k in keys if k in P]
        if len(P) == len(keys):
            P = P[:-1]
        it = iter(rec["sched"])

        def chooser(state, enabled):
            return next(it, 0) % len(enabled)

        def body(comm):
            classes = set()
            _check_split(H, X, keys, C, P, rec, classes, comm=comm)
            return classes

        depth0 = len(R._sseq)
        try:
            outs = simcomm.World(ntask, (R.getState, R.setState)).run(body, chooser)
        except simcomm.Deadlock as e:
            raise Violation("deadlock", str(e))
        except simcomm.ProtocolError as e:
            raise Violation("protocol_error", str(e))
        finally:
            while len(R._sseq) > depth0:
                R.pop_sseq()
    classes = set().union(*outs)
    n_tot = rec["n_samples"] * (2 if rec["mirror"] else 1)
    share = [n_tot // ntask + (1 if r < n_tot % ntask else 0) for r in range(ntask)]
    classes.add(f"ntask_{ntask}")
    if len(set(share)) > 1:
        classes.add("uneven_shares")
    if ntask > n_tot:
        classes.add("more_tasks_than_samples")
    _classes_of(rec, keys, classes)
    nontrivial = ntask >= 2 and "residuals_nonzero" in classes and "reference_nonfinite" not in classes \
        and (len(set(share)) > 1 or bool(C) or bool(P))
    return dict(nontrivial=nontrivial, classes=sorted(classes))


# ------------------------------------------------------------------------------------------
# classic: generator
# ------------------------------------------------------------------------------------------
class _WideCtx(c04.Ctx):
    """value intervals of the input keys wide enough for position + residual (see ASSUMPTIONS)"""

    def key_iv(self, k):
        if k in self.ivs:
            return self.ivs[k]
        return WIDE_IV


def _universe(draw):
    nkeys = draw(st.sampled_from([2, 2, 2, 3]))
    ntypes = draw(st.sampled_from([1, 1, 2]))
    mx = 5 if nkeys == 2 else 3
    types = {}
    for i in range(ntypes):
        kind = draw(st.sampled_from(["U", "U", "RG", "RG", "RG2", "T"]))
        if kind == "U":
            sp = ["U", draw(st.integers(1, mx))]
        elif kind == "RG":
            sp = ["RG", draw(st.integers(1, mx)), draw(st.sampled_from([0.5, 1.0, 0.25, 2.0]))]
        elif kind == "RG2":
            sp = ["RG2", draw(st.sampled_from([[1, 2], [2, 2]] + ([[2, 3]] if nkeys == 2 else []))),
                  [draw(st.sampled_from([0.5, 1.0])), draw(st.sampled_from([0.5, 2.0]))]]
        else:
            a = draw(st.integers(1, 2))
            sp = ["T", a, draw(st.sampled_from([0.5, 1.0])), draw(st.integers(1, max(1, mx // a)))]
        types[f"t{i}"] = sp
    names = ["a", "b", "c"] if draw(st.booleans()) else ["k1", "a", "xi"]
    names = names[:nkeys]
    tnames = []
    for t in sorted(types):
        tnames.append(t)
        if types[t][0] != "U":
            tnames.append(t + "h")
    keys = {k: (tnames[0] if draw(st.integers(0, 2)) else draw(st.sampled_from(tnames))) for k in names}
    mtypes = {}
    if draw(st.integers(0, 3)) == 0:
        mtypes["m0"] = {"x": draw(st.sampled_from(tnames)), "y": draw(st.sampled_from(tnames))}
    return types, mtypes, keys


SMALL = S.dyadic(-0.5, 0.5, 8)


@st.composite
def classic_recipes(draw, tier, distributed=False):
    types, mtypes, keys = _universe(draw)
    names = sorted(keys)
    ctx = _WideCtx(draw, types, mtypes, keys, [])
    depth = draw(st.integers(1, 2))
    scope = dict(keys)
    lh = c04.gen_lh_tree(ctx, depth, scope, names)
    expr = ["ham", draw(st.sampled_from([2, 5, 20])), draw(st.sampled_from(["float", "dict"])), lh]
    rec = {"types": types, "mtypes": mtypes, "keys": keys, "expr": expr,
           "x": c04._values(draw, ctx, keys),
           "mirror": draw(st.booleans()),
           "seed": draw(st.integers(0, 2**31 - 1)),
           "geo": draw(st.sampled_from([0, 0, 0, 1, 2])),
           "steps": draw(st.integers(1, 2)),
           "delta": {k: draw(st.lists(SMALL, min_size=1, max_size=4)) for k in names},
           "probe": {k: draw(st.lists(S.dyadic(-2, 2, 4), min_size=1, max_size=4)) for k in names}}
    # (3 keys = 56 splits per case: at most 3 samples in total to keep the case affordable)
    rec["n_samples"] = 1 if (len(names) == 3 and rec["mirror"]) else draw(st.integers(1, 3))
    if distributed:
        rec["ntask"] = draw(st.integers(2, 4))
        rec["sched"] = draw(st.lists(st.integers(0, 3), max_size=8))
        states = [draw(st.integers(0, 3)) for _ in names]
        rec["split"] = [[k for k, s in zip(names, states) if s & 1], [k for k, s in zip(names, states) if s & 2]]
    return rec



# ------------------------------------------------------------------------------------------
# JAX: model zoo with a closed-form NumPy reference
# ------------------------------------------------------------------------------------------
JSIZE = {"a": 3, "b": 3, "c": 2}
JM = 3          # data-space size of every likelihood term


def _phi_np(name, u):
    """(value, derivative) of the pointwise nonlinearity"""
    if name == "id":
        return u, np.ones_like(u)
    if name == "tanh":
        t = np.tanh(u)
        return t, 1 - t * t
    if name == "sq":
        return u + 0.25 * u * u, 1 + 0.5 * u
    if name == "posexp":
        t = np.tanh(u)
        v = np.exp(0.5 * t)
        return v, 0.5 * (1 - t * t) * v
    raise ValueError(name)


def _phi_jnp(name, u):
    import jax.numpy as jnp
    if name == "id":
        return u
    if name == "tanh":
        return jnp.tanh(u)
    if name == "sq":
        return u + 0.25 * u * u
    if name == "posexp":
        return jnp.exp(0.5 * jnp.tanh(u))
    raise ValueError(name)


def _fwd_np(f, keys, x):
    """x: flat position (keys in sorted order). Returns (value[m], jacobian[m, D])"""
    M = np.asarray(f["M"], dtype=FLT)
    u = M @ x + np.asarray(f["c"], dtype=FLT)
    v, dv = _phi_np(f["phi"], u)
    J = dv[:, None] * M
    if f.get("mix"):
        ofs = {}
        o = 0
        for k in keys:
            ofs[k] = o
            o += JSIZE[k]
        a = x[ofs["a"]:ofs["a"] + 3]
        b = x[ofs["b"]:ofs["b"] + 3]
        e = np.exp(0.25 * np.tanh(b))
        v = v + a * e
        J = J.copy()
        J[np.arange(3), ofs["a"] + np.arange(3)] += e
        J[np.arange(3), ofs["b"] + np.arange(3)] += a * e * 0.25 * (1 - np.tanh(b) ** 2)
    return v, J


def _fwd_jnp(f, keys):
    import jax.numpy as jnp
    M = jnp.asarray(np.asarray(f["M"], dtype=FLT))
    c = jnp.asarray(np.asarray(f["c"], dtype=FLT))
    phi, mix = f["phi"], bool(f.get("mix"))

    def fwd(x):
        xc = jnp.concatenate([x[k] for k in keys])
        v = _phi_jnp(phi, M @ xc + c)
        if mix:
            v = v + x["a"] * jnp.exp(0.25 * jnp.tanh(x["b"]))
        return v
    return fwd


def _term_np(term, keys, x):
    """closed form (energy, gradient[D], Fisher metric[D, D]) of one likelihood term at flat x"""
    kind = term["kind"]
    d = np.asarray(term["data"], dtype=FLT)
    f, J = _fwd_np(term["f"], keys, x)
    if kind == "gauss":
        w = np.asarray(term["w"], dtype=FLT)
        r = d - f
        return 0.5 * np.sum(w * r * r), -J.T @ (w * r), J.T @ (w[:, None] * J)
    if kind == "studentt":
        w = np.asarray(term["w"], dtype=FLT)
        dof = float(term["dof"])
        r = d - f
        q = w * r * r / dof
        e = np.sum(0.5 * (dof + 1) * np.log1p(q))
        g = -J.T @ ((dof + 1) * w * r / dof / (1 + q))
        return e, g, J.T @ ((w * (dof + 1) / (dof + 3))[:, None] * J)
    if kind == "poisson":
        return np.sum(f) - np.sum(d * np.log(f)), J.T @ (1 - d / f), J.T @ ((1 / f)[:, None] * J)
    if kind == "vcg":
        s, Js = _fwd_np(term["g"], keys, x)
        r = d - f
        e = 0.5 * np.sum((r * s) ** 2) - np.sum(np.log(s))
        g = -J.T @ (r * s * s) + Js.T @ (r * r * s - 1 / s)
        return e, g, J.T @ ((s * s)[:, None] * J) + Js.T @ ((2 / (s * s))[:, None] * Js)
    raise ValueError(kind)


def _ham_np(model, x):
    keys = model["keys"]
    e, g, m = 0.5 * float(x @ x), x.copy(), np.eye(x.size)
    for t in model["terms"]:
        te, tg, tm = _term_np(t, keys, x)
        e, g, m = e + te, g + tg, m + tm
    return e, g, m


def _jax_likelihood(model):
    import jax.numpy as jnp
    import nifty.re as jft
    keys = model["keys"]
    lhs = []
    for t in model["terms"]:
        kind = t["kind"]
        d = jnp.asarray(np.asarray(t["data"], dtype=FLT))
        fwd = _fwd_jnp(t["f"], keys)
        if kind in ("gauss", "studentt"):
            w = jnp.asarray(np.asarray(t["w"], dtype=FLT))
            sw = jnp.sqrt(w)
            kw = dict(noise_cov_inv=lambda x, w=w: w * x, noise_std_inv=lambda x, sw=sw: sw * x)
            lh = jft.Gaussian(d, **kw) if kind == "gauss" else jft.StudentT(d, float(t["dof"]), **kw)
            lhs.append(lh.amend(fwd))
        elif kind == "poisson":
            lhs.append(jft.Poissonian(jnp.asarray(np.asarray(t["data"], dtype=np.int64))).amend(fwd))
        elif kind == "vcg":
            g = _fwd_jnp(t["g"], keys)
            lhs.append(jft.VariableCovarianceGaussian(d).amend(lambda x, fwd=fwd, g=g: (fwd(x), g(x))))
        else:
            raise ValueError(kind)
    lh = lhs[0]
    for other in lhs[1:]:
        lh = lh + other
    return lh


def _vec(jft, keys, flat):
    import jax.numpy as jnp
    out, o = {}, 0
    for k in keys:
        out[k] = jnp.asarray(np.array(flat[o:o + JSIZE[k]], dtype=FLT))
        o += JSIZE[k]
    return jft.Vector(out)


def _flatv(keys, v):
    """Vector/dict with the model's keys -> flat numpy vector (broadcast point-estimate leaves to full size)"""
    tree = v.tree if hasattr(v, "tree") else v
    return np.concatenate([np.broadcast_to(np.asarray(tree[k], dtype=FLT).reshape(-1), (JSIZE[k],))
                           if np.asarray(tree[k]).size == 1 and JSIZE[k] != 1
                           else np.asarray(tree[k], dtype=FLT).reshape(-1) for k in keys])


def _cols_j(keys, sel):
    idx, o = [], 0
    for k in keys:
        if k in sel:
            idx.extend(range(o, o + JSIZE[k]))
        o += JSIZE[k]
    return np.array(idx, dtype=int)


def _leafbytes(v, keys):
    tree = v.tree if hasattr(v, "tree") else v
    return b"|".join(k.encode() + b":" + np.ascontiguousarray(np.asarray(tree[k])).tobytes() for k in keys)


def _eager_hamiltonian(lh, jft):
    """sample-by-sample NIFTy Hamiltonian: likelihood energy + 0.5 x^2, its gradient, and metric + identity"""
    import jax

    def ham(x):
        return lh(x) + 0.5 * jft.vdot(x, x)
    vg = jax.value_and_grad(ham)

    def met(x, t):
        return lh.metric(x, t) + t
    return vg, met


def check_jax(rec):
    import jax
    assert jax.config.jax_enable_x64, "jax sub-check needs float64 (worker must be started with jax=True)"
    import importlib
    import jax.numpy as jnp
    from jax import random
    import nifty.re as jft
    from nifty.re.evi import Samples
    okl = importlib.import_module("nifty.re.optimize_kl")
    lvl = jft.logger.level
    jft.logger.setLevel(logging.CRITICAL)
    try:
        with warnings.catch_warnings():
            warnings.simplefilter("ignore")
            return _check_jax(rec, jax, jnp, random, jft, Samples, okl)
    finally:
        jft.logger.setLevel(lvl)


def _check_jax(rec, jax, jnp, random, jft, Samples, okl):
    model = rec["model"]
    keys = model["keys"]
    D = sum(JSIZE[k] for k in keys)
    classes = {f"nkeys_{len(keys)}", "jit" if rec["jit"] else "nojit", "map_" + rec["map"]}
    classes |= {"lh_" + t["kind"] for t in model["terms"]}
    classes.add(f"terms_{len(model['terms'])}")
    lh = _jax_likelihood(model)
    x1 = np.concatenate([np.asarray(rec["pos"][k], dtype=FLT) for k in keys])
    x2 = np.concatenate([np.asarray(rec["pos2"][k], dtype=FLT) for k in keys])
    pos, pos2 = _vec(jft, keys, x1), _vec(jft, keys, x2)
    pe = [k for k in keys if k in rec["pe"]]
    const = [k for k in keys if k in rec["const"]]
    opt = jft.OptimizeVI(lh, 1, jit=rec["jit"], kl_map=rec["map"], linear_minimizer_jit=False,
                         nonlinear_minimizer_jit=False)

    # ---- samples
    spec = rec["samples"]
    mk = dict(name=None, xtol=1e-6, maxiter=2, cg_kwargs=dict(name=None, maxiter=10))
    if spec[0] == "draw":
        _, mode, n, seed = spec
        smp, _ = opt.draw_samples(Samples(pos=pos, samples=None, keys=None), key=random.PRNGKey(seed),
                                  sample_mode=mode, n_samples=n, point_estimates=tuple(pe),
                                  draw_linear_kwargs=dict(cg_name=None, cg_kwargs=dict(absdelta=1e-10, maxiter=30)),
                                  nonlinearly_update_kwargs=dict(minimize_kwargs=mk))
        require(len(smp) == 2 * n, "n_samples", f"{len(smp)} samples for n_samples={n} (mirrored)")
        classes |= {"drawn_mirrored", "mode_" + mode, f"n_samples_{n}"}
        if pe:
            classes.add("point_estimates")
    elif spec[0] == "given":
        rows = spec[1]
        res = {}
        for k in keys:
            arr = np.array([r[k] for r in rows], dtype=FLT).reshape(len(rows), JSIZE[k])
            if k in pe:
                arr = np.zeros((len(rows), 1))       # the shape the sampler uses for point-estimated leaves
            res[k] = jnp.asarray(arr)
        smp = Samples(pos=pos, samples=jft.Vector(res), keys=None)
        require(len(smp) == len(rows), "n_samples", f"{len(smp)} vs {len(rows)}")
        classes |= {"given_unmirrored", f"n_samples_{len(rows)}"}
        if pe:
            classes.add("point_estimates")
    else:
        smp = Samples(pos=pos, samples=None, keys=None)
        classes.add("no_samples_MAP")
    nsmp = len(smp)
    require(_leafbytes(smp.pos, keys) == _leafbytes(pos, keys), "samples_pos", "expansion point of the samples")

    # residuals through the public interface: sample_i - expansion point
    resid = [_flatv(keys, smp[i]) - x1 for i in range(nsmp)]
    if nsmp and any(np.any(r != 0) for r in resid):
        classes.add("residuals_nonzero")
    for k in pe:
        c = _cols_j(keys, {k})
        if spec[0] == "draw":
            for r in resid:
                require(not np.any(r[c] != 0), "point_estimate_has_residual", f"key {k}")

    vg_e, met_e = _eager_hamiltonian(lh, jft)

    def reference(xc):
        """averages over xc + residual_i: (closed form), (eager NIFTy Hamiltonian)"""
        pts = [xc + r for r in resid] if nsmp else [xc]
        cf = [_ham_np(model, p) for p in pts]
        n = len(pts)
        cf = (sum(c[0] for c in cf) / n, sum(c[1] for c in cf) / n, sum(c[2] for c in cf) / n)
        ev, eg, em = [], [], []
        for p in pts:
            pv = _vec(jft, keys, p)
            v, g = vg_e(pv)
            ev.append(float(v))
            eg.append(_flatv(keys, g))
            cols = []
            for j in range(D):
                e = np.zeros(D)
                e[j] = 1
                cols.append(_flatv(keys, met_e(pv, _vec(jft, keys, e))))
            em.append(np.stack(cols, axis=1))
        eg_ = (sum(ev) / n, sum(eg) / n, sum(em) / n)
        ok = all(np.all(np.isfinite(np.asarray(a))) for a in cf + eg_)
        return (cf, eg_) if ok else None

    probe = np.resize(np.asarray(rec["probe"], dtype=FLT), D)

    def compare(xc, where, dense):
        ref = reference(xc)
        if ref is None:
            raise Discard()
        pv = _vec(jft, keys, xc)
        for tagn, fn_vg, fn_met in (
                ("", lambda p: opt.kl_value_and_grad(p, primals_samples=smp),
                 lambda p, t: opt.kl_metric(p, t, primals_samples=smp)),
                ("_module", lambda p: okl._kl_vg(lh, p, smp, map=rec["map2"]),
                 lambda p, t: okl._kl_met(lh, p, t, smp, map=rec["map2"]))):
            v, g = fn_vg(pv)
            require(set((g.tree if hasattr(g, "tree") else g).keys()) == set(keys), "gradient_keys" + tagn, where)
            if dense:
                cols = []
                for j in range(D):
                    e = np.zeros(D)
                    e[j] = 1
                    cols.append(_flatv(keys, fn_met(pv, _vec(jft, keys, e))))
                Mk = np.stack(cols, axis=1)
            mp = _flatv(keys, fn_met(pv, _vec(jft, keys, probe)))
            for (rv, rg, rm), sfx in ((ref[1], ""), (ref[0], "_closed_form")):
                close(np.array([float(v)]), np.array([rv]), "value" + tagn + sfx, tol=TOL, detail=where)
                close(_flatv(keys, g), rg, "gradient" + tagn + sfx, tol=TOL, detail=where)
                if dense:
                    close(Mk, rm, "metric" + tagn + sfx, tol=TOL, detail=where)
                close(mp, rm @ probe, "metric_probe" + tagn + sfx, tol=TOL, detail=where)
        return ref

    compare(x1, "at the expansion point", dense=True)

    # ---- moving the expansion point keeps the residuals
    smp2 = smp.at(pos2)
    require(_leafbytes(smp2.pos, keys) == _leafbytes(pos2, keys), "moved_pos", "")
    require(len(smp2) == nsmp, "moved_n_samples", "")
    if nsmp:
        a, b = getattr(smp, "_samples", None), getattr(smp2, "_samples", None)
        if a is not None and b is not None:
            classes.add("stored_residuals_compared")
            la, lb = jax.tree_util.tree_leaves(a), jax.tree_util.tree_leaves(b)
            require(len(la) == len(lb) and all(np.asarray(u).tobytes() == np.asarray(w).tobytes()
                                               and np.shape(u) == np.shape(w) for u, w in zip(la, lb)),
                    "stored_residuals_changed", "Samples.at(pos2)")
        scale = max(1.0, float(np.max(np.abs(x1))), float(np.max(np.abs(x2))), max(float(np.max(np.abs(r))) for r in resid))
        for i in range(nsmp):
            close(_flatv(keys, smp2[i]) - x2, resid[i], "residuals_not_kept", tol=1e-14, scale=scale,
                  detail=f"Samples.at(pos2) sample {i}")
        stacked = smp2.samples
        for i in range(nsmp):
            row = np.concatenate([np.asarray(stacked.tree[k])[i].reshape(-1) for k in keys])
            close(row - x2, resid[i], "residuals_not_kept", tol=1e-14, scale=scale, detail=f".samples row {i}")
    # KL evaluated at pos2 with samples still anchored at pos: the residuals are kept, the point moves
    compare(x2, "at the moved point", dense=False)

    # ---- constants: what the minimiser is handed, for EVERY proper subset of constant keys
    for r in range(0, len(keys)):
        for cs in itertools.combinations(keys, r):
            _check_constants(rec, jft, opt, smp2, model, keys, list(cs), x2, resid, probe, reference, classes,
                             real=(list(cs) == const))
    classes.add("const_" + str(len(const)))
    nontrivial = bool(const) and bool(pe) and set(const) != set(pe) and "residuals_nonzero" in classes
    if bool(const) and bool(pe) and set(const) != set(pe):
        classes.add("split_differing_C_P")
    return dict(nontrivial=nontrivial, classes=sorted(classes))


def _check_constants(rec, jft, opt, smp, model, keys, cs, xc, resid, probe, reference, classes, real):
    import jax.numpy as jnp
    V = [k for k in keys if k not in cs]
    vcols = _cols_j(keys, set(V))
    where = f"kl_minimize constants={cs}"
    ref = reference(xc)
    if ref is None:
        raise Discard()
    seen = {}

    def recorder(fun, x0=None, fun_and_grad=None, hessp=None, **kw):
        seen["x0"] = x0
        seen["vg"] = fun_and_grad(x0)
        t = jft.Vector(tuple(jnp.asarray(probe[_cols_j(keys, {k})]) for k in V)) if cs else \
            jft.Vector({k: jnp.asarray(probe[_cols_j(keys, {k})]) for k in keys})
        seen["hp"] = hessp(x0, t)
        seen["kw"] = sorted(kw)
        return jft.optimize.OptimizeResults(x0 + 0.5, True, 0, seen["vg"][0], seen["vg"][1])

    out = opt.kl_minimize(smp, minimize=recorder, minimize_kwargs={}, constants=tuple(cs))

    def flat_liquid(v):
        if cs:
            leaves = list(v.tree)
            require(len(leaves) == len(V), "liquid_structure", f"{where}: {len(leaves)} leaves for keys {V}")
            return np.concatenate([np.asarray(l, dtype=FLT).reshape(-1) for l in leaves]) if leaves else np.zeros(0)
        return _flatv(keys, v)

    x0 = flat_liquid(seen["x0"])
    require(x0.shape == xc[vcols].shape and x0.tobytes() == np.ascontiguousarray(xc[vcols]).tobytes(),
            "minimiser_start", f"{where}: the start position is not the expansion point without the constants")
    v, g = seen["vg"]
    for (rv, rg, rm), sfx in ((ref[1], ""), (ref[0], "_closed_form")):
        close(np.array([float(v)]), np.array([rv]), "value_constants" + sfx, tol=TOL, detail=where)
        close(flat_liquid(g), rg[vcols], "gradient_constants" + sfx, tol=TOL, detail=where)
        close(flat_liquid(seen["hp"]), rm[np.ix_(vcols, vcols)] @ probe[vcols], "metric_constants" + sfx, tol=TOL,
              detail=where)
    # result of the (recording) minimiser: constants re-inserted bit-identically, liquid part as returned
    xt = out.x.tree if hasattr(out.x, "tree") else out.x
    require(set(xt.keys()) == set(keys), "result_keys", where)
    for k in cs:
        require(np.asarray(xt[k]).tobytes() == np.ascontiguousarray(xc[_cols_j(keys, {k})]).tobytes(),
                "constant_key_changed", f"{where}: key {k} (recording minimiser)")
    for k in V:
        require(np.asarray(xt[k]).tobytes() == np.ascontiguousarray(xc[_cols_j(keys, {k})] + 0.5).tobytes(),
                "liquid_key_lost", f"{where}: key {k}")
    if cs:
        classes.add("constants_checked")
    if not real:
        return
    # the real minimiser
    mk = dict(name=None, xtol=1e-6, maxiter=rec["maxiter"], cg_kwargs=dict(name=None, maxiter=10))
    out = opt.kl_minimize(smp, minimize_kwargs=mk, constants=tuple(cs))
    xt = out.x.tree if hasattr(out.x, "tree") else out.x
    require(set(xt.keys()) == set(keys), "result_keys", where + " (newton_cg)")
    for k in cs:
        require(np.asarray(xt[k]).tobytes() == np.ascontiguousarray(xc[_cols_j(keys, {k})]).tobytes(),
                "constant_key_changed", f"{where}: key {k} after newton_cg")
    for k in keys:
        require(np.shape(xt[k]) == (JSIZE[k],), "result_shape", f"{where}: key {k} {np.shape(xt[k])}")
    if any(np.asarray(xt[k]).tobytes() != np.ascontiguousarray(xc[_cols_j(keys, {k})]).tobytes() for k in V):
        classes.add("minimiser_moved")
    # the moved samples keep their residuals and the constants
    smp3 = smp.at(out.x)
    x3 = _flatv(keys, out.x)
    if np.all(np.isfinite(x3)):
        scale = max([1.0, float(np.max(np.abs(x3)))] + [float(np.max(np.abs(r))) for r in resid])
        for i in range(len(smp3)):
            close(_flatv(keys, smp3[i]) - x3, resid[i], "residuals_not_kept", tol=1e-14, scale=scale,
                  detail=f"{where}: after newton_cg, sample {i}")


# ---------------------------------------------------------------- JAX generator
JNUM = S.dyadic(-2, 2, 8)
JPHI = ["id", "tanh", "sq"]


def _jfwd(draw, keys, phi, allow_mix=True):
    D = sum(JSIZE[k] for k in keys)
    ent = st.sampled_from([0.0, 0.0, 0.25, 0.5, -0.5, 1.0, -1.0, 1.5])
    M = draw(st.lists(st.lists(ent, min_size=D, max_size=D), min_size=JM, max_size=JM))
    # every key enters every forward model: make sure no key's columns vanish completely
    o = 0
    for k in keys:
        if all(M[i][o + j] == 0 for i in range(JM) for j in range(JSIZE[k])):
            M[draw(st.integers(0, JM - 1))][o + draw(st.integers(0, JSIZE[k] - 1))] = 0.75
        o += JSIZE[k]
    return {"M": M, "c": draw(st.lists(S.dyadic(-1, 1, 4), min_size=JM, max_size=JM)), "phi": phi,
            "mix": allow_mix and draw(st.integers(0, 2)) == 0}


def _jterm(draw, keys):
    kind = draw(st.sampled_from(["gauss", "gauss", "poisson", "studentt", "vcg"]))
    pos_w = st.lists(S.dyadic_nz(0.25, 4, 4, signed=False), min_size=JM, max_size=JM)
    if kind == "gauss":
        return {"kind": kind, "f": _jfwd(draw, keys, draw(st.sampled_from(JPHI))),
                "data": draw(st.lists(JNUM, min_size=JM, max_size=JM)), "w": draw(pos_w)}
    if kind == "studentt":
        return {"kind": kind, "f": _jfwd(draw, keys, draw(st.sampled_from(JPHI))),
                "data": draw(st.lists(JNUM, min_size=JM, max_size=JM)), "w": draw(pos_w),
                "dof": draw(st.sampled_from([1.0, 2.0, 3.5, 8.0]))}
    if kind == "poisson":
        return {"kind": kind, "f": _jfwd(draw, keys, "posexp", allow_mix=False),
                "data": draw(st.lists(st.integers(0, 5), min_size=JM, max_size=JM))}
    return {"kind": kind, "f": _jfwd(draw, keys, draw(st.sampled_from(JPHI))),
            "g": _jfwd(draw, keys, "posexp", allow_mix=False),
            "data": draw(st.lists(JNUM, min_size=JM, max_size=JM))}


@st.composite
def jax_recipes(draw, tier):
    keys = ["a", "b"] if draw(st.integers(0, 2)) else ["a", "b", "c"]
    model = {"keys": keys, "terms": [_jterm(draw, keys) for _ in range(draw(st.sampled_from([1, 1, 2])))]}
    D = sum(JSIZE[k] for k in keys)

    def subset(max_len):
        states = [draw(st.booleans()) for _ in keys]
        sel = [k for k, s in zip(keys, states) if s]
        return sel[:max_len]
    kind = draw(st.sampled_from(["given", "draw", "draw", "given", "none"]))
    pe = subset(len(keys) - 1)
    const = subset(len(keys) - 1)
    if not draw(st.booleans()) and kind != "none":
        # (this branch is taken for the MINIMAL draw, so the first example of every shard already has the shape)
        # force the interesting shape: non-empty, different constants and point estimates
        pe = [draw(st.sampled_from(keys))]
        const = [draw(st.sampled_from([k for k in keys if k != pe[0]]))]
        if draw(st.booleans()) and len(keys) == 3:
            const = sorted(set(const) | {pe[0]})
    if kind == "draw":
        samples = ["draw", draw(st.sampled_from(["linear_resample", "linear_resample", "nonlinear_resample"])),
                   draw(st.integers(1, 3)), draw(st.integers(0, 2**31 - 1))]
    elif kind == "given":
        n = draw(st.integers(1, 3))
        samples = ["given", [{k: draw(st.lists(S.dyadic(-1.5, 1.5, 8), min_size=JSIZE[k], max_size=JSIZE[k]))
                              for k in keys} for _ in range(n)]]
    else:
        samples = ["none"]
        pe = []
    return {"model": model,
            "pos": {k: draw(st.lists(JNUM, min_size=JSIZE[k], max_size=JSIZE[k])) for k in keys},
            "pos2": {k: draw(st.lists(JNUM, min_size=JSIZE[k], max_size=JSIZE[k])) for k in keys},
            "samples": samples, "pe": pe, "const": const,
            "jit": draw(st.integers(0, 3)) == 3, "map": draw(st.sampled_from(["vmap", "vmap", "lmap", "smap"])),
            "map2": draw(st.sampled_from(["vmap", "lmap", "smap"])),
            "maxiter": draw(st.integers(1, 2)),
            "probe": draw(st.lists(S.dyadic(-2, 2, 4), min_size=D, max_size=D))}


SUBS = [
    Sub(name="classic_splits", check=check_classic, strategy=lambda tier: classic_recipes(tier),
        quick=160, thorough=6000, shards=8, budget_quick=85,
        rule="StandardHamiltonians on 2-3 keys x ALL admissible (constants, point_estimates) splits (12 resp. 56 per "
             "case); non-trivial = some split has non-empty constants and point_estimates that differ, the residuals "
             "are non-zero and the reference is finite"),
    Sub(name="classic_distributed", check=check_distributed,
        strategy=lambda tier: classic_recipes(tier, distributed=True),
        quick=240, thorough=8000, shards=3, budget_quick=85,
        rule="one generated split per case with the samples distributed over 2-4 simulated MPI tasks (greenlet "
             "ranks with their own RNG stacks, generated rendezvous schedule); the same relations hold on every "
             "rank; non-trivial = uneven shares or a non-empty split, non-zero residuals"),
    Sub(name="jax_kl", check=check_jax, strategy=lambda tier: jax_recipes(tier), jax=True,
        quick=70, thorough=2500, shards=5, budget_quick=85,
        rule="nifty.re likelihood zoo (Gaussian, StudentT, Poissonian, VariableCovarianceGaussian, sums; 4 forward "
             "templates over 2-3 keys) with drawn mirrored (linear / nonlinear, with point estimates), hand-made "
             "unmirrored, or no samples; OptimizeVI.kl_value_and_grad / kl_metric (jit or not, vmap/lmap/smap), "
             "module-level _kl_vg / _kl_met, Samples.at, kl_minimize with a recording minimiser for EVERY proper "
             "subset of constant keys and with newton_cg for the generated one; non-trivial = non-empty constants "
             "and point_estimates that differ, non-zero residuals"),
]
