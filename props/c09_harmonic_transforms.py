"""C09 - harmonic transforms follow the volume convention; backends agree (DESIGN 2/C09).

Conventions the oracle is built from (docstrings of FFTOperator / HartleyOperator / SHTOperator /
HarmonicSmoothingOperator, docs/source/user/nifty_cl_volume.rst "Harmonic Transform Convention",
nifty.config.update, ducc0.fft.genuine_fht docstring):

* position -> harmonic:  g(k) = dvol_pos * sum_x f(x) exp(-2 pi i k.x/N)   (zero mode = integral)
* harmonic -> position:  f(x) = dvol_har * sum_k g(k) exp(+2 pi i k.x/N)   (dvol_har = 1/(N dvol_pos))
  so the two directions are inverse to each other, ADJOINT is the conjugate transpose of TIMES,
  INVERSE_TIMES undoes TIMES.
* Hartley: the *genuine* n-D transform Re(FFT_nd) + Im(FFT_nd) ("non_canonical_hartley", default) or
  Re(FFT_nd) - Im(FFT_nd) ("canonical_hartley"), times the volume factor of the input space;
  complex input: real and imaginary part are transformed separately.
* sphere: HEALPix convention divided by sqrt(4 pi) in each direction; LMSpace stores the a_lm of a
  real map as  [a_l0 (l=0..lmax)], then for m=1..mmax, l=m..lmax the pairs sqrt(2) Re a_lm, sqrt(2) Im a_lm.
* smoothing: multiplication of the Fourier modes with exp(-2 pi^2 sigma^2 |k|^2), i.e. periodic
  convolution with the normalised Gaussian of standard deviation sigma.
"""
import numpy as np
from hypothesis import strategies as st

import nifty.cl as ift
import nifty.config as nconfig
from vlib import Sub, Violation, close, require
from vlib import nx
from vlib import strat as S

PROPERTY = "C09"
LEVEL = "exploration"
RULE = ("Generated RG grids (1-3 axes, sizes 1-8, generated distances, position or harmonic) inside 1-3 space "
        "product domains, real and complex input, both Hartley conventions, LM->GL/HP transforms with lmax<=6, "
        "raw arrays for the backend functions; oracle = explicit dense DFT / cas / real-spherical-harmonic / "
        "Gaussian-multiplier matrices built with NumPy+SciPy in the harness (Kronecker products), "
        "F^-1 and F^H obtained from the oracle matrix by numpy.")
LEVEL_TEXT = ("Search over generated grids, sub-space positions, conventions and inputs; every generated case "
              "compares the complete dense matrix of every advertised mode with an independently written "
              "reference matrix, so a wrong factor, sign, conjugate or axis is seen on the first case that "
              "exercises it. Exploration: grids are small (<=512 points) and float32 / device paths are not run.")
LEVEL_NOTE = ("Trusted: numpy (exp, kron, inv, leggauss), scipy.special.sph_harm_y, ducc0 Healpix_Base.pix2ang for "
              "HEALPix pixel centres. The LMSpace storage order is taken from LMSpace.get_k_length_array, the "
              "HEALPix sign/phase convention from the volume documentation ('HEALPix divided by sqrt(4 pi)').")
TECHNIQUE = "PBT: dense reference matrices (DFT, cas, real Y_lm, Gaussian multiplier) + 3-way backend differential"
ASSUMPTIONS = [
    "float64 / complex128 host arrays only (float32 and device arrays are not generated)",
    "FFTOperator/HartleyOperator targets are the default codomain or an explicitly constructed RGSpace with "
    "distances 1/(N d)",
    "Hartley backends are compared on real input only (HartleyOperator splits complex input before calling them)",
    "the zero-mode relation is checked for TIMES and INVERSE_TIMES (the two modes that are harmonic transforms "
    "in the sense of the volume documentation); ADJOINT modes are checked against the conjugate transpose only",
    "smoothing: INVERSE modes are compared only when the smallest kernel value is >= 1e-3",
    "test vectors are dyadic numbers derived deterministically from an integer seed stored in the recipe",
]

CONVS = ("non_canonical_hartley", "canonical_hartley")
ALIAS = {"non_canonical_hartley": "ducc_hartley", "canonical_hartley": "ducc_fht"}


class convention:
    """set nifty.config hartley_convention, always restore"""

    def __init__(self, conv, alias=False):
        self.conv = ALIAS[conv] if alias else conv

    def __enter__(self):
        self.old = nconfig._config["hartley_convention"]
        nconfig.update("hartley_convention", self.conv)

    def __exit__(self, *a):
        nconfig.update("hartley_convention", self.old)
        return False


# ------------------------------------------------------------------ recipe interpretation (oracle side)
def dyvec(seed, n, cplx):
    """deterministic dyadic test vector (multiples of 1/8 in [-4, 4]) from the recipe's seed"""
    g = np.random.default_rng(int(seed))
    v = g.integers(-32, 33, size=n) / 8.0
    if cplx:
        v = v + 1j * (g.integers(-32, 33, size=n) / 8.0)
    return v


def own_distances(spec):
    """distances of an RG spec in its own (position or harmonic) space, as documented in RGSpace"""
    shape = spec["shape"]
    d = spec["dist"]
    if d is None:
        return [1.0] * len(shape) if spec["harm"] else [1.0 / s for s in shape]
    if isinstance(d, list):
        return [float(x) for x in d]
    return [float(d)] * len(shape)


def mk_space(spec):
    if spec["t"] == "un":
        return ift.UnstructuredDomain(tuple(spec["shape"]))
    d = spec["dist"]
    if isinstance(d, list):
        d = tuple(d)
    return ift.RGSpace(tuple(spec["shape"]), distances=d, harmonic=spec["harm"])


def spec_size(spec):
    return int(np.prod(spec["shape"], dtype=np.int64))


def phase_nd(shape, sign):
    """kron over axes of exp(sign * 2 pi i k x / N): unnormalised n-D DFT matrix on the C-ordered flat index"""
    E = np.ones((1, 1), dtype=np.complex128)
    for n in shape:
        kx = np.outer(np.arange(n), np.arange(n)) / n
        E = np.kron(E, np.exp(sign * 2j * np.pi * kx))
    return E


def cas_nd(shape, conv):
    """genuine n-D Hartley kernel: Re(FFT_nd) + Im(FFT_nd) (non canonical) / Re - Im (canonical)"""
    E = phase_nd(shape, -1)
    return E.real + E.imag if conv == "non_canonical_hartley" else E.real - E.imag


def embed(specs, idx, M1):
    nb = int(np.prod([spec_size(s) for s in specs[:idx]], dtype=np.int64))
    na = int(np.prod([spec_size(s) for s in specs[idx + 1:]], dtype=np.int64))
    return np.kron(np.kron(np.eye(nb), M1), np.eye(na))


def zero_index(specs, idx):
    sl = []
    for i, s in enumerate(specs):
        sl += [0 if i == idx else slice(None)] * len(s["shape"])
    return tuple(sl)


def build_domain(rec):
    specs = rec["spaces"]
    idx = rec["space"]
    spaces = [mk_space(s) for s in specs]
    dom = ift.DomainTuple.make(tuple(spaces))
    sp = specs[idx]
    dd = own_distances(sp)
    cod_d = [1.0 / (n * d) for n, d in zip(sp["shape"], dd)]
    return specs, idx, spaces, dom, sp, dd, cod_d


def sub_integral(arr, specs, idx, dvol):
    """oracle: volume weighted sum over the axes of space idx"""
    ofs = sum(len(s["shape"]) for s in specs[:idx])
    axes = tuple(range(ofs, ofs + len(specs[idx]["shape"])))
    return dvol * np.sum(arr, axis=axes)


def nifty_integral(fld, nspaces, idx):
    if nspaces == 1:
        return np.asarray(fld.s_integrate())
    return np.asarray(fld.integrate(spaces=idx).asnumpy())


def common_classes(rec, specs, idx):
    sp = specs[idx]
    cl = [f"axes_{len(sp['shape'])}", f"spaces_{len(specs)}"]
    if len(specs) > 1:
        cl.append(f"subspace_pos{idx}")
    if any(s["t"] == "un" for s in specs):
        cl.append("with_unstructured")
    if 1 in sp["shape"]:
        cl.append("size1_axis")
    if sp["harm"]:
        cl.append("harmonic_domain")
    cl.append("dist_" + ("default" if sp["dist"] is None else "tuple" if isinstance(sp["dist"], list) else "scalar"))
    if rec.get("conv") == "canonical_hartley":
        cl.append("canonical")
    cl.append("complex_input" if rec.get("cplx") else "real_input")
    n = int(np.prod([spec_size(s) for s in specs], dtype=np.int64))
    cl.append("points_le16" if n <= 16 else "points_17_128" if n <= 128 else "points_gt128")
    return cl


def is_nontrivial(rec, specs, idx):
    return (len(specs[idx]["shape"]) >= 2 or len(specs) >= 2 or rec.get("conv") == "canonical_hartley")


# ------------------------------------------------------------------ FFTOperator / HartleyOperator
def check_rg(rec):
    kind = rec["op"]                       # "fft" | "hartley"
    specs, idx, spaces, dom, sp, dd, cod_d = build_domain(rec)
    conv = rec["conv"]
    shape = sp["shape"]
    n1 = spec_size(sp)
    dv_dom = float(np.prod(dd))
    dv_cod = float(np.prod(cod_d))
    # ---- oracle matrices
    if kind == "fft":
        sign = +1 if sp["harm"] else -1
        M1 = dv_dom * phase_nd(shape, sign)
        M1inv_first_principles = dv_cod * phase_nd(shape, -sign)
    else:
        M1 = dv_dom * cas_nd(shape, conv)
        M1inv_first_principles = dv_cod * cas_nd(shape, conv)
    M1inv = np.linalg.inv(M1)
    # oracle self-test (harness error if the two derivations of the inverse disagree)
    assert np.max(np.abs(M1inv - M1inv_first_principles)) <= 1e-9 * max(1.0, np.max(np.abs(M1inv)))
    M = embed(specs, idx, M1)
    Mi = embed(specs, idx, M1inv)
    mats = {1: M, 2: M.conj().T, 4: Mi, 8: Mi.conj().T}

    with convention(conv, rec.get("alias", False)):
        target = None
        if rec.get("explicit_target"):
            target = ift.RGSpace(tuple(shape), distances=tuple(cod_d), harmonic=not sp["harm"])
        sparg = idx
        if len(specs) == 1 and rec.get("space_none"):
            sparg = None
        wrap_ht = kind == "hartley" and sp["harm"] and rec.get("via_ht", False)
        if kind == "fft":
            op = ift.FFTOperator(dom, target=target, space=sparg)
        elif wrap_ht:
            op = ift.HarmonicTransformOperator(dom, target=target, space=sparg)
        else:
            op = ift.HartleyOperator(dom, target=target, space=sparg)
        # ---- domains
        require(op.domain is dom, "domain", f"{op.domain}")
        tsp = op.target[idx]
        require(isinstance(tsp, ift.RGSpace) and tsp.harmonic == (not sp["harm"]) and tuple(tsp.shape) == tuple(shape),
                "target_space", repr(tsp))
        close(np.array(tsp.distances), np.array(cod_d), "target_distances", tol=1e-12)
        for i, s in enumerate(spaces):
            if i != idx:
                require(op.target[i] == s, "target_other_space", f"{op.target[i]} vs {s}")
        if target is not None:
            require(op.target[idx] == target, "target_explicit", repr(op.target[idx]))
        cap = op.capability
        want = 3 if wrap_ht else 15
        require(cap == want, "capability", f"{cap} != {want}")
        classes = common_classes(rec, specs, idx)
        classes.append(kind + ("_via_HarmonicTransformOperator" if wrap_ht else ""))
        if target is not None:
            classes.append("explicit_target")
        # ---- all modes: dense matrix on real basis vectors, and one generated (real/complex) vector
        v_dom = dyvec(rec["seed"], dom.size, rec["cplx"])
        v_tgt = dyvec(rec["seed"] + 1, dom.size, rec["cplx"])
        for mode in nx.MODES:
            if not cap & mode:
                try:
                    nx.apply_flat(op, np.zeros(dom.size), mode)
                except NotImplementedError:
                    continue
                raise Violation("unadvertised_mode_applies", f"mode {mode}")
            Mm = mats[mode]
            scale = max(1e-300, float(np.max(np.abs(Mm))))
            R = nx.dense(op, mode, dtype=np.float64)
            close(R, Mm, f"{kind}_matrix_{nx.MODE_NAME[mode]}", tol=1e-10, scale=scale * (1 + np.log2(n1 + 1)))
            vin = v_dom if mode & 9 else v_tgt
            fin = nx.unflat(nx.op_dom(op, mode), vin)
            fout = op.apply(fin, mode)
            require(fout.domain is nx.op_tgt(op, mode), "output_domain", f"mode {mode}")
            out = np.asarray(fout.asnumpy())
            ref = (Mm @ vin).reshape(out.shape)
            close(out, ref, f"{kind}_vector_{nx.MODE_NAME[mode]}", tol=1e-10,
                  scale=scale * max(1.0, float(np.sum(np.abs(vin)))))
            # documented result types
            if kind == "fft":
                require(np.iscomplexobj(out), "fft_output_not_complex", str(out.dtype))
            else:
                require(out.dtype == fin.dtype, "hartley_dtype_changed", f"{fin.dtype} -> {out.dtype}")
            # ---- volume convention: zero mode of the transform == integral of the input (and vice versa)
            if mode in (1, 4):
                din = nx.op_dom(op, mode)
                dv_in = dv_dom if mode == 1 else dv_cod
                dv_out = dv_cod if mode == 1 else dv_dom
                zi = zero_index(specs, idx)
                a_in = vin.reshape(din.shape)
                integ_in = nifty_integral(fin, len(specs), idx)
                integ_in_ref = sub_integral(a_in, specs, idx, dv_in)
                sc = dv_in * max(1.0, float(np.sum(np.abs(vin))))
                close(integ_in, integ_in_ref, "integrate_vs_weighted_sum", tol=1e-11, scale=sc)
                close(out[zi], integ_in, f"{kind}_zero_mode_is_integral_{nx.MODE_NAME[mode]}", tol=1e-10, scale=sc)
                integ_out = nifty_integral(fout, len(specs), idx)
                close(integ_out, a_in[zi], f"{kind}_integral_is_zero_mode_{nx.MODE_NAME[mode]}", tol=1e-10,
                      scale=max(1.0, float(np.sum(np.abs(out))) * dv_out))
                classes.append("zero_mode")
            classes.append(nx.MODE_NAME[mode])
        # ---- documented round trip
        if cap & 4:
            x = nx.unflat(dom, v_dom)
            back = op.inverse_times(op.times(x))
            close(np.asarray(back.asnumpy()).reshape(-1), v_dom, f"{kind}_round_trip", tol=1e-10,
                  scale=max(1.0, float(np.sum(np.abs(v_dom)))))
    return dict(nontrivial=is_nontrivial(rec, specs, idx), classes=classes)


# ------------------------------------------------------------------ sphere
def lm_layout(lmax, mmax):
    """(l, m, part) per LMSpace index; part 0: m=0 coefficient, 1: sqrt2 Re, 2: sqrt2 Im"""
    lay = [(l, 0, 0) for l in range(lmax + 1)]
    for m in range(1, mmax + 1):
        for l in range(m, lmax + 1):
            lay.append((l, m, 1))
            lay.append((l, m, 2))
    return lay


def pixel_centres(tgt):
    if tgt["t"] == "gl":
        nlat, nlon = tgt["nlat"], tgt["nlon"]
        x, w = np.polynomial.legendre.leggauss(nlat)
        theta = np.arccos(x)[::-1]          # north to south
        w = w[::-1]
        th = np.repeat(theta, nlon)
        ph = np.tile(2 * np.pi * np.arange(nlon) / nlon, nlat)
        wt = np.repeat(w * 2 * np.pi / nlon, nlon)
        return th, ph, wt
    import ducc0
    nside = tgt["nside"]
    npix = 12 * nside * nside
    ang = ducc0.healpix.Healpix_Base(nside, "RING").pix2ang(np.arange(npix))
    return ang[:, 0], ang[:, 1], np.full(npix, 4 * np.pi / npix)


def ylm_matrix(lmax, mmax, th, ph):
    from scipy.special import sph_harm_y
    cols = []
    for (l, m, part) in lm_layout(lmax, mmax):
        y = sph_harm_y(l, m, th, ph)
        if part == 0:
            c = y.real
        elif part == 1:
            c = np.sqrt(2.0) * y.real
        else:
            c = -np.sqrt(2.0) * y.imag
        cols.append(c / np.sqrt(4 * np.pi))
    return np.stack(cols, axis=1)


def check_sht(rec):
    lmax, mmax = rec["lmax"], rec["mmax"]
    tgt = rec["tgt"]
    lm = ift.LMSpace(lmax, mmax)
    lay = lm_layout(lmax, mmax)
    require(lm.size == len(lay), "lm_size", f"{lm.size} vs {len(lay)}")
    close(np.asarray(lm.get_k_length_array().asnumpy()), np.array([float(t[0]) for t in lay]), "lm_k_lengths")
    if tgt is None:
        tgt = {"t": "gl", "nlat": lmax + 1, "nlon": 2 * mmax + 1}      # documented default codomain
        tspace = None
    elif tgt["t"] == "gl":
        tspace = ift.GLSpace(tgt["nlat"], tgt["nlon"])
    else:
        tspace = ift.HPSpace(tgt["nside"])
    others = rec["others"]                  # list of [position, unstructured-shape]
    pos = rec["pos"]
    specs = [{"t": "un", "shape": s} for s in others]
    lmspec = {"t": "lm", "shape": [lm.size]}
    specs = specs[:pos] + [lmspec] + specs[pos:]
    spaces = [lm if s["t"] == "lm" else mk_space(s) for s in specs]
    dom = ift.DomainTuple.make(tuple(spaces))
    cls = ift.SHTOperator if rec["cls"] == "SHT" else ift.HarmonicTransformOperator
    sparg = None if (len(spaces) == 1 and rec.get("space_none")) else pos
    op = cls(dom, target=tspace, space=sparg)
    tsp = op.target[pos]
    if tgt["t"] == "gl":
        require(isinstance(tsp, ift.GLSpace) and tsp.nlat == tgt["nlat"] and tsp.nlon == tgt["nlon"],
                "sht_target", repr(tsp))
    else:
        require(isinstance(tsp, ift.HPSpace) and tsp.nside == tgt["nside"], "sht_target", repr(tsp))
    require(op.capability == 3, "sht_capability", str(op.capability))
    th, ph, wt = pixel_centres(tgt)
    Y = ylm_matrix(lmax, mmax, th, ph)
    npix = Y.shape[0]
    require(tsp.size == npix, "sht_npix", f"{tsp.size} vs {npix}")
    M = embed(specs, pos, Y)
    scale = float(np.max(np.abs(Y)))
    classes = [f"lmax_{lmax}", "mmax_lt_lmax" if mmax < lmax else "mmax_eq_lmax", "target_" + (
        "default" if tspace is None else tgt["t"]), rec["cls"], f"spaces_{len(spaces)}",
        "complex_input" if rec["cplx"] else "real_input"]
    R = nx.dense(op, 1, dtype=np.float64)
    close(R, M, "sht_synthesis_vs_real_ylm", tol=1e-10, scale=scale)
    Ra = nx.dense(op, 2, dtype=np.float64)
    close(Ra, M.T, "sht_adjoint_vs_transpose", tol=1e-10, scale=scale)
    for mode in (4, 8):
        try:
            nx.apply_flat(op, np.zeros(op.target.size if mode == 4 else dom.size), mode)
        except NotImplementedError:
            continue
        raise Violation("unadvertised_mode_applies", f"mode {mode}")
    # generated (complex) vectors: real and imaginary parts separately
    v = dyvec(rec["seed"], dom.size, rec["cplx"])
    fin = nx.unflat(dom, v)
    fout = op.times(fin)
    out = np.asarray(fout.asnumpy())
    require(out.dtype == fin.dtype, "sht_dtype_changed", f"{fin.dtype} -> {out.dtype}")
    close(out.reshape(-1), M @ v, "sht_vector_times", tol=1e-10, scale=scale * max(1.0, float(np.sum(np.abs(v)))))
    w = dyvec(rec["seed"] + 1, op.target.size, rec["cplx"])
    gout = np.asarray(op.adjoint_times(nx.unflat(op.target, w)).asnumpy())
    close(gout.reshape(-1), M.T @ w, "sht_vector_adjoint", tol=1e-10,
          scale=scale * max(1.0, float(np.sum(np.abs(w)))))
    # documented normalisation: unit monopole coefficient -> constant 1/(4 pi) ("HEALPix / sqrt(4 pi)")
    e = np.zeros(lm.size)
    e[0] = 1
    mono = np.asarray(ift.SHTOperator(lm, tsp)(ift.makeField(lm, e)).asnumpy())
    close(mono, np.full(npix, 1 / (4 * np.pi)), "sht_monopole_amplitude", tol=1e-12)
    # volume convention: integral of the synthesised map == a_00 * (quadrature of the basis functions)
    integ = nifty_integral_sphere(fout, len(spaces), pos)
    a = v.reshape(dom.shape)
    zi = zero_index(specs, pos)
    ofs = sum(len(s["shape"]) for s in specs[:pos])
    integ_ref = np.tensordot(wt @ Y, a, axes=([0], [ofs]))
    close(integ, integ_ref, "sht_integral_vs_quadrature", tol=1e-10, scale=max(1.0, float(np.sum(np.abs(v)))))
    exact = tgt["t"] == "gl" and lmax <= 2 * tgt["nlat"] - 1 and mmax < tgt["nlon"]
    if exact:
        close(integ, a[zi], "sht_integral_is_zero_mode", tol=1e-10, scale=max(1.0, float(np.sum(np.abs(v)))))
        classes.append("gl_integral_exact")
    # orthonormality on a sufficiently fine GL grid: adjoint(weight(synthesis(a))) == a / (4 pi)
    if tgt["t"] == "gl" and tgt["nlat"] >= lmax + 1 and tgt["nlon"] >= 2 * mmax + 1:
        back = np.asarray(op.adjoint_times(fout.weight(1, spaces=pos)).asnumpy())
        close(back.reshape(-1), v / (4 * np.pi), "sht_gl_orthonormality", tol=1e-10,
              scale=max(1.0, float(np.sum(np.abs(v)))))
        classes.append("gl_orthonormal")
    return dict(nontrivial=lmax >= 1 and (len(spaces) >= 2 or mmax >= 1), classes=classes)


def nifty_integral_sphere(fld, nspaces, pos):
    if nspaces == 1:
        return np.asarray(fld.s_integrate())
    return np.asarray(fld.integrate(spaces=pos).asnumpy())


# ------------------------------------------------------------------ backends (ducc / scipy / jax)
def apply_axes(a, mats):
    """oracle: apply matrix mats[ax] along axis ax for every ax in mats"""
    out = a.astype(np.complex128)
    for ax, m in mats.items():
        out = np.moveaxis(np.tensordot(m, out, axes=([1], [ax])), 0, ax)
    return out


def check_backends(rec):
    from nifty.cl import ducc_dispatch as dd
    from nifty.re.correlated_field import hartley as jax_hartley
    import jax.numpy as jnp
    shape = tuple(rec["shape"])
    axes = rec["axes"]
    ax = tuple(range(len(shape))) if axes is None else tuple(axes)
    axarg = None if axes is None else tuple(axes)
    n = int(np.prod(shape))
    ntr = int(np.prod([shape[i] for i in ax]))
    a = dyvec(rec["seed"], n, rec["cplx"]).reshape(shape)
    ar = np.ascontiguousarray(a.real)
    fw = {i: np.exp(-2j * np.pi * np.outer(np.arange(shape[i]), np.arange(shape[i])) / shape[i]) for i in ax}
    bw = {i: np.conj(m) for i, m in fw.items()}
    F = apply_axes(a, fw)
    Fi = apply_axes(a, bw) / ntr
    Fr = apply_axes(ar, fw)
    sc = max(1.0, float(np.sum(np.abs(a))))
    classes = [f"ndim_{len(shape)}", f"naxes_{len(ax)}", "axes_none" if axes is None else "axes_given",
               "complex_input" if rec["cplx"] else "real_input"]
    if axes is not None and len(ax) < len(shape):
        classes.append("partial_axes")

    def run(fn, arr, kind):
        x = ift.AnyArray(arr.copy())
        before = arr.tobytes()
        res = fn(x, axes=axarg)
        require(isinstance(res, ift.AnyArray), kind + ":result_type", str(type(res)))
        require(np.asarray(x.asnumpy()).tobytes() == before, kind + ":input_modified")
        return np.asarray(res.asnumpy())

    for conv in CONVS:
        with convention(conv, rec.get("alias", False)):
            # Fourier transforms do not depend on the Hartley convention
            r_d, r_s = run(dd.fftn, a, "ducc_fftn"), run(dd._scipy_fftn, a, "scipy_fftn")
            close(r_d, F, "ducc_fftn_vs_dft", tol=1e-11, scale=sc)
            close(r_s, F, "scipy_fftn_vs_dft", tol=1e-11, scale=sc)
            close(r_d, r_s, "fftn_ducc_vs_scipy", tol=1e-11, scale=sc)
            r_d, r_s = run(dd.ifftn, a, "ducc_ifftn"), run(dd._scipy_ifftn, a, "scipy_ifftn")
            close(r_d, Fi, "ducc_ifftn_vs_dft", tol=1e-11, scale=sc / ntr)
            close(r_s, Fi, "scipy_ifftn_vs_dft", tol=1e-11, scale=sc / ntr)
            close(r_d, r_s, "ifftn_ducc_vs_scipy", tol=1e-11, scale=sc / ntr)
            H = Fr.real + Fr.imag if conv == "non_canonical_hartley" else Fr.real - Fr.imag
            h_d, h_s = run(dd.hartley, ar, "ducc_hartley"), run(dd._scipy_hartley, ar, "scipy_hartley")
            h_j = np.asarray(jax_hartley(jnp.asarray(ar), axes=axarg))
            require(h_d.dtype == np.float64 and h_s.dtype == np.float64 and h_j.dtype == np.float64,
                    "hartley_dtype", f"{h_d.dtype} {h_s.dtype} {h_j.dtype}")
            tag = "canonical" if conv == "canonical_hartley" else "non_canonical"
            close(h_d, H, f"ducc_hartley_vs_cas_{tag}", tol=1e-11, scale=sc)
            close(h_s, H, f"scipy_hartley_vs_cas_{tag}", tol=1e-11, scale=sc)
            close(h_j, H, f"jax_hartley_vs_cas_{tag}", tol=1e-11, scale=sc)
            close(h_d, h_s, f"hartley_ducc_vs_scipy_{tag}", tol=1e-11, scale=sc)
            close(h_d, h_j, f"hartley_ducc_vs_jax_{tag}", tol=1e-11, scale=sc)
    require(nconfig._config["hartley_convention"] == "non_canonical_hartley", "config_default_changed")
    return dict(nontrivial=len(ax) >= 2 or len(ax) < len(shape), classes=classes)


# ------------------------------------------------------------------ smoothing
def klen2(shape, pos_d):
    """|k|^2 on the harmonic partner grid of a position grid (signed frequencies, distances 1/(N d))"""
    k2 = np.zeros(())
    for n, d in zip(shape, pos_d):
        i = np.arange(n)
        k = np.minimum(i, n - i) / (n * d)
        k2 = np.add.outer(k2, k * k)
    return k2.reshape(-1)


def check_smoothing(rec):
    if rec.get("kind") == "resolved":
        return check_smoothing_resolved(rec)
    specs, idx, spaces, dom, sp, dd, cod_d = build_domain(rec)
    sigma = rec["sigma"]
    shape = sp["shape"]
    classes = common_classes(rec, specs, idx)
    with convention(rec["conv"]):
        domarg = dom if rec.get("dom_as_tuple") is not True else tuple(spaces)
        sparg = None if (len(specs) == 1 and rec.get("space_none")) else idx
        # documented input checks
        try:
            ift.HarmonicSmoothingOperator(domarg, -abs(sigma) - 0.125, space=sparg)
            raise Violation("negative_sigma_accepted", "")
        except ValueError:
            pass
        op = ift.HarmonicSmoothingOperator(domarg, sigma, space=sparg)
        require(op.domain is dom and op.target is dom, "smoothing_domain", f"{op.domain} / {op.target}")
        v = dyvec(rec["seed"], dom.size, rec["cplx"])
        if sigma == 0:
            classes.append("sigma_zero")
            for mode in nx.MODES:
                require(op.capability & mode, "identity_capability", str(op.capability))
                out = nx.apply_flat(op, v, mode)
                require(np.array_equal(out, v), "sigma_zero_not_identity", f"mode {mode}")
            return dict(nontrivial=is_nontrivial(rec, specs, idx), classes=classes)
        mult = np.exp(-2 * np.pi ** 2 * sigma ** 2 * klen2(shape, dd))
        Fm = phase_nd(shape, -1)
        K1 = (np.linalg.inv(Fm) @ (mult[:, None] * Fm))
        assert np.max(np.abs(K1.imag)) < 1e-12
        K1 = K1.real
        K = embed(specs, idx, K1)
        mats = {1: K, 2: K.T}
        if float(np.min(mult)) >= 1e-3:
            Ki = embed(specs, idx, np.linalg.inv(K1))
            mats[4] = Ki
            mats[8] = Ki.T
            classes.append("inverse_checked")
        require(op.capability & 3 == 3, "smoothing_capability", str(op.capability))
        for mode, Mm in mats.items():
            if not op.capability & mode:
                continue
            scale = max(1.0, float(np.max(np.abs(Mm))))
            R = nx.dense(op, mode, dtype=np.float64)
            close(R, Mm, f"smoothing_matrix_{nx.MODE_NAME[mode]}", tol=1e-10, scale=scale)
            out = nx.apply_flat(op, v, mode)
            close(out, Mm @ v, f"smoothing_vector_{nx.MODE_NAME[mode]}", tol=1e-10,
                  scale=scale * max(1.0, float(np.sum(np.abs(v)))))
            if not rec["cplx"]:
                require(not np.iscomplexobj(out), "smoothing_dtype_changed", str(out.dtype))
        # smoothing conserves the integral
        fin = nx.unflat(dom, v)
        i0 = nifty_integral(fin, len(specs), idx)
        i1 = nifty_integral(op(fin), len(specs), idx)
        close(i1, i0, "smoothing_changes_integral", tol=1e-10,
              scale=max(1.0, float(np.sum(np.abs(v))) * float(np.prod(dd))))
    return dict(nontrivial=is_nontrivial(rec, specs, idx), classes=classes)


def check_smoothing_resolved(rec):
    """closed form: response to a unit pixel == dvol * periodised normal density with std sigma"""
    shape, dist, ratio, p0 = rec["shape"], rec["dist"], rec["ratio"], rec["at"]
    sigma = ratio * max(dist)
    sp = ift.RGSpace(tuple(shape), distances=tuple(dist))
    with convention(rec["conv"]):
        op = ift.HarmonicSmoothingOperator(sp, sigma)
        e = np.zeros(shape)
        e[tuple(p0)] = 1.0
        out = np.asarray(op(ift.makeField(sp, e)).asnumpy())
    ref = np.ones(())
    for n, d, j0 in zip(shape, dist, p0):
        x = (np.arange(n) - j0) * d
        L = n * d
        img = np.arange(-12, 13)[:, None] * L
        g = np.sum(np.exp(-0.5 * ((x[None, :] + img) / sigma) ** 2), axis=0) / (np.sqrt(2 * np.pi) * sigma) * d
        ref = np.multiply.outer(ref, g)
    # aliasing bound of the sampled kernel: exp(-pi^2 ratio^2 / 2) <= 3e-9 for ratio >= 2
    close(out, ref, "smoothing_is_not_gaussian_of_width_sigma", tol=1e-6, scale=1.0)
    cl = ["resolved_gaussian", f"axes_{len(shape)}"]
    if rec["conv"] == "canonical_hartley":
        cl.append("canonical")
    return dict(nontrivial=len(shape) >= 2 or rec["conv"] == "canonical_hartley", classes=cl)


# ------------------------------------------------------------------ strategies
DIST = S.dyadic_nz(0.25, 4.0, 8, signed=False)
SEED = st.integers(0, 2 ** 31 - 1)
CONV = st.sampled_from(CONVS)


def _rg(draw, budget, harm, max_axes=3, max_size=8):
    nax = draw(st.integers(1, max_axes))
    shape = []
    for _ in range(nax):
        s = draw(st.integers(1, max(1, min(max_size, budget))))
        shape.append(s)
        budget //= s
    how = draw(st.sampled_from(["none", "scalar", "tuple", "tuple"]))
    if how == "none":
        dist = None
    elif how == "scalar":
        dist = draw(DIST)
    else:
        dist = [draw(DIST) for _ in shape]
    return {"t": "rg", "shape": shape, "dist": dist, "harm": harm}, budget


def _other(draw, budget):
    if draw(st.booleans()):
        nax = draw(st.integers(1, 2))
        shape = []
        for _ in range(nax):
            s = draw(st.integers(1, max(1, min(3, budget))))
            shape.append(s)
            budget //= s
        return {"t": "un", "shape": shape}, budget
    return _rg(draw, budget, draw(st.booleans()), max_axes=2, max_size=3)


def _product(draw, total, harm):
    main, budget = _rg(draw, total, harm)
    nsp = draw(st.sampled_from([1, 2, 2, 3]))
    idx = draw(st.integers(0, nsp - 1))
    others = []
    for _ in range(nsp - 1):
        o, budget = _other(draw, budget)
        others.append(o)
    specs = others[:idx] + [main] + others[idx:]
    return specs, idx


def rg_recipes(kind):
    def strategy(tier):
        total = 384 if tier == "quick" else 768

        @st.composite
        def rec(draw):
            harm = draw(st.sampled_from([False, False, True]))
            specs, idx = _product(draw, total, harm)
            r = {"op": kind, "conv": draw(CONV), "spaces": specs, "space": idx, "cplx": draw(st.booleans()),
                 "explicit_target": draw(st.booleans()), "space_none": draw(st.booleans()),
                 "alias": draw(st.booleans()), "seed": draw(SEED)}
            if kind == "hartley":
                r["via_ht"] = draw(st.sampled_from([False, False, True]))
            return r
        return rec()
    return strategy


def sht_recipes(tier):
    @st.composite
    def rec(draw):
        lmax = draw(st.integers(0, 6))
        mmax = draw(st.sampled_from([lmax, lmax, draw(st.integers(0, lmax))]))
        t = draw(st.sampled_from(["gl", "gl", "hp", "hp", None]))
        if t == "gl":
            if draw(st.booleans()):
                tgt = {"t": "gl", "nlat": draw(st.integers(lmax + 1, lmax + 3)),
                       "nlon": draw(st.integers(2 * mmax + 1, 2 * mmax + 4))}
            else:
                tgt = {"t": "gl", "nlat": draw(st.integers(1, 8)), "nlon": draw(st.integers(1, 14))}
        elif t == "hp":
            tgt = {"t": "hp", "nside": draw(st.sampled_from([1, 2, 4]))}
        else:
            tgt = None
        nother = draw(st.sampled_from([0, 0, 1, 1, 2]))
        others = [[draw(st.integers(1, 3))] if draw(st.booleans()) else [draw(st.integers(1, 2)), draw(st.integers(1, 2))]
                  for _ in range(nother)]
        return {"lmax": lmax, "mmax": mmax, "tgt": tgt, "others": others, "pos": draw(st.integers(0, nother)),
                "cls": draw(st.sampled_from(["SHT", "HT"])), "cplx": draw(st.booleans()),
                "space_none": draw(st.booleans()), "seed": draw(SEED)}
    return rec()


def backend_recipes(tier):
    @st.composite
    def rec(draw):
        ndim = draw(st.integers(1, 4))
        shape = [draw(st.integers(1, 8)) for _ in range(ndim)]
        if ndim <= 3 and draw(st.integers(0, 3)) == 0:
            axes = None
        else:
            k = draw(st.integers(1, min(3, ndim)))
            axes = sorted(draw(st.lists(st.integers(0, ndim - 1), min_size=k, max_size=k, unique=True)))
        return {"shape": shape, "axes": axes, "cplx": draw(st.booleans()), "alias": draw(st.booleans()),
                "seed": draw(SEED)}
    return rec()


def smoothing_recipes(tier):
    total = 384 if tier == "quick" else 768

    @st.composite
    def rec(draw):
        if draw(st.integers(0, 7)) == 0:
            nax = draw(st.integers(1, 2))
            base = draw(st.sampled_from([0.25, 0.5, 1.0, 2.0]))
            shape = [draw(st.integers(16, 40 if nax == 1 else 24)) for _ in range(nax)]
            dist = [base * draw(st.sampled_from([0.5, 1.0])) for _ in range(nax)]
            return {"kind": "resolved", "shape": shape, "dist": dist,
                    "ratio": draw(S.dyadic(2.0, 4.0, 4)), "at": [draw(st.integers(0, s - 1)) for s in shape],
                    "conv": draw(CONV)}
        specs, idx = _product(draw, total, False)
        sig = draw(st.sampled_from(["zero", "pos", "pos", "pos", "pos"]))
        sigma = 0.0 if sig == "zero" else draw(S.dyadic_nz(1 / 16, 4.0, 16, signed=False))
        return {"kind": "dense", "conv": draw(CONV), "spaces": specs, "space": idx, "sigma": sigma,
                "cplx": draw(st.booleans()), "space_none": draw(st.booleans()),
                "dom_as_tuple": draw(st.booleans()), "seed": draw(SEED)}
    return rec()


NT = "non-trivial = transformed space has >= 2 axes, or it is a sub-space of a product domain, or canonical convention"
SUBS = [
    Sub(name="fft_operator", check=check_rg, strategy=rg_recipes("fft"), quick=640, thorough=20000, shards=16,
        rule="FFTOperator on position/harmonic RG sub-spaces: 4 dense modes vs F, F^H, F^-1, F^-H, zero mode == "
             "integral, round trip; " + NT),
    Sub(name="hartley_operator", check=check_rg, strategy=rg_recipes("hartley"), quick=640, thorough=20000, shards=16,
        rule="HartleyOperator (and HarmonicTransformOperator on RG) under both conventions vs genuine n-D cas "
             "matrices Re(F_nd) +- Im(F_nd) with volume factors; " + NT),
    Sub(name="sht", check=check_sht, strategy=sht_recipes, quick=320, thorough=8000, shards=16,
        rule="SHTOperator/HarmonicTransformOperator LM->GL/HP, lmax<=6: dense synthesis == real Y_lm at pixel "
             "centres / sqrt(4 pi), adjoint == transpose, monopole, GL orthonormality, integral == a_00; "
             "non-trivial = lmax >= 1 and (mmax >= 1 or product domain)"),
    Sub(name="backends", check=check_backends, strategy=backend_recipes, quick=320, thorough=8000, shards=16,
        jax=True,
        rule="ducc_dispatch.{fftn,ifftn,hartley} vs _scipy_* vs nifty.re hartley (JAX) vs explicit DFT/cas, both "
             "conventions in every case; non-trivial = >= 2 transformed axes or partial axes"),
    Sub(name="smoothing", check=check_smoothing, strategy=smoothing_recipes, quick=480, thorough=12000, shards=16,
        rule="HarmonicSmoothingOperator == F^-1 diag(exp(-2 pi^2 sigma^2 k^2)) F (dense), sigma=0 identity, "
             "negative sigma raises, resolved grids: response == periodised normal density; " + NT),
]
