"""C25 - the classic VI driver resumes after a crash with identical results (DESIGN 2/C25).

Recipe: {"cfg": name, "k": int, "when": "before"|"after"|"partial", "cut": float}
"""
from vlib import Sub
from vlib.crashenum import CrashEnum

PROPERTY = "C25"
LEVEL = "fault_enumeration"
TECHNIQUE = "crash-point enumeration with a file-system fault injector; differential oracle: killed+resumed run vs uninterrupted run (byte-identical)"
RULE = ("A small 3-iteration nifty.cl.optimize_kl run (2 mirrored sample pairs, output directory set) is executed in "
        "a child process under a file-system shim numbering every mutating operation below the output directory "
        "(open/truncate, write, close, remove/unlink, makedirs, h5py open/close). For every operation k and when in "
        "{before, after, partial} the child is killed; a fresh child calls optimize_kl(resume=True) with the same "
        "arguments. Oracle: it must finish and return samples and mean byte-identical to the uninterrupted run.")
LEVEL_TEXT = ("Fault enumeration over all Python-visible file-system operations of one small run per configuration "
              "(save_strategy all/latest, operator export via h5py on/off, per-iteration schedules of fresh_stochasticity / "
              "n_samples / constants over 4 iterations); exhaustive in the operation index in the "
              "thorough tier, seeded stratified subset in the quick tier.")
LEVEL_NOTE = ("Python-level operations of one small run; torn writes are flushed prefixes of one write call; kill = "
              "os._exit(137) in the child (unflushed buffers lost, like SIGKILL); comm=None (no MPI).")
ASSUMPTIONS = ["os._exit models SIGKILL: flushed data persists, unflushed buffers are lost",
               "crash model is per Python file operation; plots disabled (they are never read back)"]

CONFIGS = {
    "all": dict(save_strategy="all", export=False, seed=7),
    "latest": dict(save_strategy="latest", export=False, seed=7),
    "all_h5": dict(save_strategy="all", export=True, seed=9),
    # per-iteration option schedules: stochasticity re-used over two consecutive iterations (the resumed run must
    # re-create the same seed sequences), sample number and constants changing with the iteration
    "schedules": dict(save_strategy="all", export=False, seed=5, n_iter=4, schedules=True),
}


def scenario(odir, resume, save_strategy, export, seed, n_iter=3, schedules=False):
    """runs in the child process"""
    import numpy as np

    import nifty.cl as ift
    sp = ift.UnstructuredDomain(4)
    A = ift.FieldAdapter(sp, "a")
    B = ift.FieldAdapter(sp, "b")
    sig = A * B.exp()
    Rm = np.array([[1.0, 0.5, 0.0, 0.0], [0.0, 1.0, -0.5, 0.0], [0.25, 0.0, 1.0, 0.5], [1.0, 1.0, 1.0, 1.0]])
    R = ift.MatrixProductOperator(sp, Rm)
    data = ift.makeField(sp, np.array([0.7, -0.2, 1.1, 0.4]))
    lh = ift.GaussianEnergy(data=data, inverse_covariance=ift.ScalingOperator(sp, 4.0, np.float64)) @ (R @ sig)
    ic = ift.AbsDeltaEnergyController(1e-10, iteration_limit=30)
    mini = ift.NewtonCG(ift.GradientNormController(iteration_limit=3))
    ift.random.push_sseq_from_seed(seed)
    pos0 = ift.MultiField.from_dict({"a": ift.makeField(sp, np.array([0.1, -0.2, 0.3, 0.0])),
                                     "b": ift.makeField(sp, np.array([0.0, 0.1, -0.1, 0.2]))})
    kw = {}
    nsamp = 2
    if schedules:
        kw["fresh_stochasticity"] = lambda i: i not in (1, 2)
        kw["constants"] = lambda i: ["b"] if i == 0 else []
        nsamp = lambda i: 2 if i < 3 else 1     # noqa: E731
    sl, mean = ift.optimize_kl(lh, n_iter, nsamp, mini, ic, output_directory=odir, resume=resume, **kw,
                               save_strategy=save_strategy, return_final_position=True,
                               initial_position=pos0,
                               plot_energy_history=False, plot_minisanity_history=False,
                               export_operator_outputs={"sig": sig} if export else {})
    ift.random.pop_sseq()
    out = {}
    for k in mean.keys():
        out["mean_" + k] = mean[k].asnumpy().tobytes()
    for i, s in enumerate(sl.iterator()):
        for k in s.keys():
            out[f"s{i}_{k}"] = s[k].asnumpy().tobytes()
    out["n"] = sl.n_samples
    return out


def known_window(cfgname, log, k, when):
    """Recorded known finding (known_findings.json: C25 latest-overwrite): with save_strategy='latest' the
    sample/mean files of iteration i are overwritten in place before the commit marker moves, so a kill
    between the first mutation of pickle/latest.* in an iteration >= 1 and that iteration's marker commit
    leaves files of iteration i under a marker that says i-1.  Returns the tag if (k, when) lies in such a
    window, else None."""
    if CONFIGS[cfgname]["save_strategy"] != "latest":
        return None
    # iteration boundaries: commit = the operation that makes the marker visible
    commits = [i for i, lab in enumerate(log, start=1) if lab.startswith(("replace:", "rename:")) and
               "last_finished_iteration" in lab]
    if not commits:   # marker written in place
        commits = [i for i, lab in enumerate(log, start=1) if lab.startswith("close:last_finished_iteration")]
    prev = 0
    for it, c in enumerate(commits):
        if it >= 1:
            muts = [i for i in range(prev + 1, c + 1) if "pickle/latest." in log[i - 1]]
            if muts:
                first = muts[0]
                # state after op `first` .. before op `c` completes
                lo = (first, "after") if not log[first - 1].startswith("write:") else (first, "partial")
                pos = (k, {"before": 0, "partial": 1, "after": 2}[when])
                if (first, 1) <= pos <= (c, 0) or (k == first and when in ("partial", "after")):
                    return "latest_overwrite_window"
        prev = c
    return None


ENUM = CrashEnum("props.c25_cl_resume:scenario", CONFIGS, quick_limit=20, known_window=known_window)
PREPARE = ENUM.prepare

SUBS = [
    Sub(name="crash_points", check=ENUM.check, cases=ENUM.cases, exhaustive=False, shards=16,
        rule="every (operation k, before/after/partial) of each configuration's operation log (quick: seeded "
             "subset covering each operation kind x file x when x third of the run); every case is non-trivial "
             "(kill + resume); distinct = (config, k, when, cut)",
        budget_quick=170, budget_thorough=3000),
]
