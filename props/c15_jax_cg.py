"""C15 - JAX conjugate gradients: accurate; eager and compiled variants agree (DESIGN 2/C15).

Code under test: nifty/re/conjugate_gradient.py  `_cg` (eager Python loop), `_static_cg`
(lax.while_loop), public wrappers `cg`, `static_cg`.

Conventions the oracle is built from (docstring of `cg`, comments in the source):
* `mat` is Hermitian; the solver minimises E(x) = 1/2 x^H M x - Re j^H x, gradient r = M x - j.
* stopping: `resnorm` (norm of the residual, order `norm_ord`, default 2) and/or `absdelta`
  (energy decrease of the last step); if neither is given the SciPy-like fallback
  max(tol*|j|, atol) is the residual threshold; `absdelta`/`resnorm` take precedence over tol/atol;
  never before `miniter`, never beyond `maxiter`.
* return value: info == 0 <=> success (criterion met); info > 0: gave up at that iteration;
  compiled variant flags non-positive curvature with info == -1 where the eager one raises ValueError.

Three sub-checks:
  hpd_stopping   generated HPD systems Q diag(lambda) Q^H x stopping configurations (the main search)
  boundary_exact exactly representable systems whose first iterate sits exactly on / one ulp next to
                 the requested threshold, and exact one-step / zero-step convergence
  nonpd          indefinite / negative (semi)definite integer matrices, _raise_nonposdef both ways

A small textbook CG written in NumPy (float64 and, as a sensitivity probe, 80-bit long double) is used
ONLY to keep the generated stopping configurations inside the regime in which the floating-point CG
iteration is a well-conditioned computation (see ASSUMPTIONS); no verdict is derived from it.
"""
import functools
import math
import os
from fractions import Fraction

import numpy as np
from hypothesis import strategies as st

from vlib import Discard, Sub, Violation, close, require

PROPERTY = "C15"
LEVEL = "exploration"
RULE = ("Generated Hermitian systems on pytree-shaped unknowns (array, 2-D array, jft.Vector of array / dict / "
        "nested dict with scalar leaf / tuple; real and complex) with generated stopping configurations "
        "(default, tol, atol, resnorm, absdelta, both; norm_ord None/1/2/inf; miniter; maxiter None / ample / "
        "exactly the calibrated iteration count / one below / small; with and without x0). Oracle: NumPy "
        "re-evaluation of the requested criterion on the true residual M x - j / true quadratic energy "
        "whenever info == 0, differential comparison of _cg against _static_cg (x to 1e-9*scale, info, nit, "
        "success), and for non-positive-definite integer matrices the exact sign of the first curvature, "
        "energy non-increase and collinearity of the returned step with -r.")
LEVEL_TEXT = ("Search over generated systems and stopping configurations; every case is decided by an oracle that "
              "does not share code with the solvers (dense NumPy residual / energy, exact integer curvature) plus "
              "the eager-vs-compiled differential that is itself the property. Exploration: n <= 24, kappa <= 2^10 "
              "(quick) and only float64/complex128; stopping decisions are confined to the iterations in which "
              "CG is numerically well conditioned, so a defect that only shows deep in the round-off regime is "
              "not searched for.")
LEVEL_NOTE = ("Trusted: numpy.linalg (solve, eigvalsh, norm, qr), jax.tree_util flatten order, jax.jit of a wrapper "
              "around _static_cg (the documented way of using the compiled variant; a fraction of the cases calls "
              "it un-jitted as well). The textbook-CG horizon only restricts which configurations are generated.")
TECHNIQUE = "PBT: true-residual/energy oracle + eager/compiled differential + exact-arithmetic boundary cases"
ASSUMPTIONS = [
    "float64 / complex128 only; all leaves of the unknown share one dtype (the matrix acts complex-linearly)",
    "the unknown is an array or a jft.Vector (a bare dict has no arithmetic and is rejected by cg's "
    "assert_arithmetics: outside the domain)",
    "maxiter >= 1 (maxiter=0: the eager loop body never runs and info becomes 0, the compiled loop runs once; "
    "treated as degenerate input, reported separately)",
    "healthy-regime restriction: a stopping configuration is generated only if a textbook CG (NumPy) predicts "
    "that the run ends within the horizon K_h = the leading iterations in which (a) the float64 and the 80-bit "
    "iterates agree to 1e-12*scale, (b) the energy decrease of a step is >= 1e-11 * sum|terms| of the energy "
    "dot product (otherwise the solvers' own 'energy increased' test, threshold 6 eps |E|, is decided by "
    "round-off), (c) |r|^2 >= 1e-14 |r0|^2. Beyond it eager and compiled legitimately differ (observed: "
    "tol=1e-12 on kappa=1e3 raises 'energy increased' in the eager solver in 40% of HPD systems)",
    "slack of the accuracy oracle: the solvers test the recursively updated residual (re-synchronised every 20 "
    "iterations); |r_true - r_rec| <= 50 eps (nit+1)(n+10) |M|_2 Xmax with Xmax = |x*| + |x0-x*|_M/sqrt(lambda_min) "
    "(Greenbaum 1997 with a generous constant; every iterate lies in the energy sub-level set of x0); "
    "energy slack = drift*Xmax + 100 n eps (|M| Xmax^2/2 + |j| Xmax)",
    "stopping thresholds are derived from the textbook run (1.25 x the value at the target iteration) and "
    "recipes in which any visited iterate is within 1e-6 relative of a threshold are discarded, so eager and "
    "compiled cannot legitimately take different decisions; the boundary_exact sub-check covers exact ties "
    "with dyadic data where every operation of the first iteration is exact in both variants",
    "boundary_exact: the absdelta tie is probed with maxiter=1 only - the second iterate of these systems is the "
    "exact solution and whether its residual is exactly zero (gamma <= tiny) or 1e-17 is decided by round-off "
    "(observed: exactly zero in the eager, 1e-17 in the compiled variant)",
    "not demanded because the statement is silent: CGResults.nfev, the iteration at which the residual is "
    "re-synchronised (N_RESET), logging via name=, time_threshold (eager only)",
    "non-PD: matrices, right-hand sides and starts are small integers / dyadics, so the sign of the first "
    "curvature r0^H M r0 is known exactly; later curvatures are classified with a 1e-9 relative margin and "
    "maxiter is capped in front of an ambiguous or numerically unstable iteration",
    "non-PD without raising: equality of the returned x of both variants is demanded, equality of info is only "
    "recorded (class nonpd_info_differs) because the statement does not fix a verdict there",
]

EPS = float(np.finfo(np.float64).eps)
HAVE_EXT = float(np.finfo(np.longdouble).eps) < 1e-17


# ------------------------------------------------------------------ lazy jax / nifty.re
@functools.lru_cache(maxsize=None)
def _jx():
    import os
    import jax
    jax.config.update("jax_enable_x64", True)
    run_tmp = os.environ.get("VERIF_RUN_TMP")
    if run_tmp and os.path.isdir(run_tmp):
        # the shards of one run compile the same small XLA programs: share them through the run's
        # temporary directory (removed by the runner at the end of the run); speed only
        try:
            jax.config.update("jax_compilation_cache_dir", os.path.join(run_tmp, "xla_cache"))
            jax.config.update("jax_persistent_cache_min_compile_time_secs", 0.0)
            jax.config.update("jax_persistent_cache_min_entry_size_bytes", -1)
        except Exception:  # noqa: BLE001  (option names differ between jax versions)
            pass
    import jax.numpy as jnp
    import nifty.re as jft
    from nifty.re import conjugate_gradient as cgm
    import logging
    logging.getLogger("nifty.re.logger").setLevel(logging.CRITICAL)   # "gamma=0, converged!" warnings
    return jax, jnp, jft, cgm


# ------------------------------------------------------------------ recipe numbers
def _num(v):
    if isinstance(v, dict):
        return complex(v["re"], v["im"])
    return float(v)


def _vec(lst, cplx):
    a = np.array([_num(v) for v in lst])
    return a.astype(np.complex128 if cplx else np.float64)


def _mat(rows, cplx):
    a = np.array([[_num(v) for v in row] for row in rows])
    return a.astype(np.complex128 if cplx else np.float64)


def _cj(z):
    """JSON form of a (possibly complex) exactly representable number"""
    z = complex(z)
    if z.imag == 0:
        return float(z.real)
    return {"re": float(z.real), "im": float(z.imag)}


# ------------------------------------------------------------------ pytrees
KINDS = ("arr1", "arr2", "vec_arr", "vec_dict", "vec_nested", "vec_tuple")


def _leaf_shapes(kind, n):
    """(template builder, list of leaf shapes in jax flatten order)"""
    n1 = max(1, n // 3)
    if kind == "arr2" and n >= 4 and (n % 2 == 0 or n % 3 == 0):
        a = 2 if n % 2 == 0 else 3
        return "arr", [(a, n // a)]
    if kind in ("arr1", "arr2"):
        return "arr", [(n,)]
    if kind == "vec_arr" or n < 2:
        return "vec_arr", [(n,)]
    if kind == "vec_nested" and n >= 3:
        return "vec_nested", [(n1,), (n - n1 - 1,), ()]
    if kind == "vec_tuple":
        return "vec_tuple", [(n1,), (n - n1,)]
    # vec_dict (also the fallback of vec_nested for n == 2)
    m = n - n1
    if m >= 4 and m % 2 == 0:
        return "vec_dict", [(n1,), (2, m // 2)]
    return "vec_dict", [(n1,), (m,)]


def kind_class(kind, n):
    form, shapes = _leaf_shapes(kind, n)
    if form == "arr":
        return "tree_arr2" if len(shapes[0]) == 2 else "tree_arr1"
    return "tree_" + form + ("_2dleaf" if any(len(sh) == 2 for sh in shapes) else "")


def make_tree(kind, n, flat):
    """pytree of jnp arrays carrying the entries of `flat` in jax flatten order"""
    jax, jnp, jft, _ = _jx()
    form, shapes = _leaf_shapes(kind, n)
    leaves, o = [], 0
    for s in shapes:
        k = int(np.prod(s, dtype=np.int64))
        leaves.append(jnp.asarray(flat[o:o + k].reshape(s)))
        o += k
    assert o == n
    if form == "arr":
        return leaves[0]
    if form == "vec_arr":
        return jft.Vector(leaves[0])
    if form == "vec_nested":
        return jft.Vector({"a": leaves[0], "c": {"d": leaves[1], "e": leaves[2]}})
    if form == "vec_tuple":
        return jft.Vector((leaves[0], leaves[1]))
    return jft.Vector({"a": leaves[0], "b": leaves[1]})


def flat_np(tree):
    jax = _jx()[0]
    return np.concatenate([np.asarray(l).reshape(-1) for l in jax.tree_util.tree_leaves(tree)])


def tree_shapes(tree):
    jax = _jx()[0]
    return [tuple(np.shape(l)) for l in jax.tree_util.tree_leaves(tree)]


def matvec(M, x):
    """y = M @ flatten(x), reshaped like x (closure free: M is data)"""
    jax, jnp, _, _ = _jx()
    leaves, td = jax.tree_util.tree_flatten(x)
    v = jnp.concatenate([jnp.reshape(l, (-1,)) for l in leaves])
    y = M @ v
    out, o = [], 0
    for l in leaves:
        k = int(np.prod(np.shape(l), dtype=np.int64))
        out.append(jnp.reshape(y[o:o + k], np.shape(l)))
        o += k
    return jax.tree_util.tree_unflatten(td, out)


# ------------------------------------------------------------------ running the two solvers
KW_ARR = ("resnorm", "absdelta", "tol", "atol")
KW_INT = ("miniter", "maxiter")


class Outcome:
    def __init__(self, raised=None, res=None):
        self.raised = raised
        if res is not None:
            self.x = flat_np(res.x)
            self.shapes = tree_shapes(res.x)
            self.xtype = type(res.x).__name__
            self.info = int(res.info)
            self.nit = int(res.nit)
            self.success = bool(res.success)
            self.nfev = int(res.nfev)


def _ord(o):
    return np.inf if o == "inf" else o


def run_eager(M, j, x0, cfg, raise_=True):
    """cfg: dict of python numbers (None entries are not passed)"""
    _, jnp, _, cgm = _jx()
    kw = {k: v for k, v in cfg.items() if v is not None}
    if "norm_ord" in kw:
        kw["norm_ord"] = _ord(kw["norm_ord"])
    if not raise_:
        kw["_raise_nonposdef"] = False
    Mj = jnp.asarray(M)
    try:
        res = cgm._cg(functools.partial(matvec, Mj), j, x0, **kw)
    except ValueError as e:
        return Outcome(raised=str(e))
    return Outcome(res=res)


@functools.lru_cache(maxsize=None)
def _static_fn(has_x0, present, norm_ord, raise_):
    """jitted wrapper around _static_cg; one compilation per (pytree structure, option structure)"""
    jax, jnp, _, cgm = _jx()

    def f(M, j, x0, vals):
        kw = dict(zip(present, vals))
        if norm_ord is not None:
            kw["norm_ord"] = _ord(norm_ord)
        if not raise_:
            kw["_raise_nonposdef"] = False
        return cgm._static_cg(functools.partial(matvec, M), j, x0 if has_x0 else None, **kw)
    return jax.jit(f)


def run_static(M, j, x0, cfg, raise_=True, direct=False):
    jax, jnp, _, cgm = _jx()
    Mj = jnp.asarray(M)
    if direct:
        kw = {k: v for k, v in cfg.items() if v is not None}
        if "norm_ord" in kw:
            kw["norm_ord"] = _ord(kw["norm_ord"])
        if not raise_:
            kw["_raise_nonposdef"] = False
        return Outcome(res=cgm._static_cg(functools.partial(matvec, Mj), j, x0, **kw))
    present = tuple(k for k in KW_ARR + KW_INT if cfg.get(k) is not None)
    vals = tuple(jnp.asarray(cfg[k], dtype=(jnp.float64 if k in KW_ARR else jnp.int64)) for k in present)
    fn = _static_fn(x0 is not None, present, cfg.get("norm_ord"), bool(raise_))
    dummy = x0 if x0 is not None else j
    return Outcome(res=fn(Mj, j, dummy, vals))


# ------------------------------------------------------------------ harness-side numerics
def energy(M, j, x):
    return 0.5 * float(np.real(np.vdot(x, M @ x))) - float(np.real(np.vdot(j, x)))


def energy_scale(M, j, x):
    return 0.5 * float(np.abs(x) @ (np.abs(M) @ np.abs(x))) + float(np.abs(j) @ np.abs(x))


def vnorm(v, o):
    o = 2 if o is None else _ord(o)
    return float(np.linalg.norm(np.asarray(v).reshape(-1), ord=o))


def ref_trace(M, j, x0, K, ext):
    """textbook CG (no residual re-synchronisation); float64 or long double.  Returns (start, steps):
    step k has curv, dn2 and - if the curvature was positive - x, gam, E, dE, T, norms after the step."""
    cplx = np.iscomplexobj(M) or np.iscomplexobj(j)
    if ext:
        dt = np.clongdouble if cplx else np.longdouble
    else:
        dt = np.complex128 if cplx else np.float64
    M = M.astype(dt)
    j = j.astype(dt)
    x = np.zeros(j.shape, dtype=dt) if x0 is None else x0.astype(dt)
    r = M @ x - j
    d = r.copy()
    gam = np.real(np.vdot(r, r))
    E = np.real(np.vdot((r - j) / 2, x))
    start = dict(x=x.copy(), gam=gam, E=E, r=r.copy())
    steps = []
    for k in range(1, K + 1):
        if gam == 0:
            break
        q = M @ d
        curv = np.real(np.vdot(d, q))
        rec = dict(k=k, curv=curv, dn2=np.real(np.vdot(d, d)))
        steps.append(rec)
        if not curv > 0:
            break
        alpha = gam / curv
        x = x - alpha * d
        r = r - alpha * q
        g2 = np.real(np.vdot(r, r))
        h = (r - j) / 2
        En = np.real(np.vdot(h, x))
        rec.update(x=x.copy(), gam=g2, E=En, dE=E - En, T=np.sum(np.abs(h) * np.abs(x)),
                   n1=np.sum(np.abs(r)), n2=np.sqrt(g2), ninf=np.max(np.abs(r)))
        d = d * (g2 / gam) + r
        gam, E = g2, En
    return start, steps


def _stepnorm(rec, o):
    o = 2 if o is None else o
    return float(rec["n1"] if o == 1 else rec["ninf"] if o == "inf" else rec["n2"])


def trace_pair(M, j, x0, K):
    s64 = ref_trace(M, j, x0, K, False)
    s80 = ref_trace(M, j, x0, K, True) if HAVE_EXT else s64
    return s64, s80


def deviation(a, b, xs):
    return float(np.max(np.abs(a["x"].astype(np.complex128) - b["x"].astype(np.complex128)))) / xs


def healthy_horizon(t64, t80, xs):
    """number of leading iterations in which CG is a well-conditioned computation (see ASSUMPTIONS)"""
    g0 = float(t64[0]["gam"])
    K = 0
    for a, b in zip(t64[1], t80[1]):
        if "x" not in a or "x" not in b:
            break
        if deviation(a, b, xs) > 1e-12:
            break
        if not float(a["dE"]) >= 1e-11 * max(float(a["T"]), 1e-300):
            break
        if not float(a["gam"]) >= 1e-14 * g0:
            break
        K = a["k"]
    return K


def compare_variants(eg, stt, xs, prefix="", kappa=1.0):
    """the differential half of the property: same x, info, nit, success"""
    require(stt.shapes == eg.shapes and stt.xtype == eg.xtype, prefix + "result_structure_differs",
            f"eager {eg.xtype}{eg.shapes} static {stt.xtype}{stt.shapes}")
    # (the two variants evaluate the same recurrences with different operation fusion: their round-off difference is
    #  amplified by the conditioning of the system; 1e-9 is kept up to kappa = 32 and grows linearly beyond)
    close(stt.x, eg.x, prefix + "x_eager_vs_compiled", tol=1e-9 * max(1.0, kappa / 32.0), scale=xs,
          detail=f"eager(info={eg.info},nit={eg.nit}) static(info={stt.info},nit={stt.nit})")
    require(eg.nit == stt.nit, prefix + "nit_eager_vs_compiled", f"eager nit={eg.nit} info={eg.info}; "
            f"static nit={stt.nit} info={stt.info}")
    require(eg.info == stt.info, prefix + "verdict_eager_vs_compiled",
            f"eager info={eg.info} success={eg.success} nit={eg.nit}; static info={stt.info} "
            f"success={stt.success} nit={stt.nit}")
    require(eg.success == stt.success, prefix + "success_eager_vs_compiled", f"{eg.success} vs {stt.success}")


def self_consistent(o, who):
    require(o.success == (o.info == 0), who + "_success_flag_vs_info", f"info={o.info} success={o.success}")
    if o.info >= 0:       # after a reported failure (info < 0) the returned x is unspecified
        require(np.all(np.isfinite(o.x)), who + "_nonfinite_solution", f"info={o.info}")


# ------------------------------------------------------------------ accuracy oracle (HPD)
class Problem:
    def __init__(self, M, j, x0):
        self.M, self.j, self.x0 = M, j, x0
        self.n = j.size
        self.xstart = np.zeros_like(j) if x0 is None else x0
        lam = np.linalg.eigvalsh(M)
        self.lmin, self.lmax = float(lam[0]), float(lam[-1])
        self.xstar = np.linalg.solve(M, j)
        e0 = self.xstart - self.xstar
        self.Xmax = float(np.linalg.norm(self.xstar)) + math.sqrt(max(0.0, float(np.real(np.vdot(e0, M @ e0)))) / self.lmin)
        self.xs = max(1.0, float(np.max(np.abs(self.xstar))), float(np.max(np.abs(self.xstart))))
        self.jn = float(np.linalg.norm(j))
        self.Tmax = 0.5 * self.lmax * self.Xmax ** 2 + self.jn * self.Xmax

    def slacks(self, nit):
        drift = 50 * EPS * (nit + 1) * (self.n + 10) * self.lmax * self.Xmax
        return math.sqrt(self.n) * drift + 1e-13 * self.jn, drift * self.Xmax + 100 * self.n * EPS * self.Tmax


def effective_resnorm(cfg, j):
    """documented fallback: only when neither resnorm nor absdelta is given"""
    if cfg.get("resnorm") is not None:
        return float(cfg["resnorm"])
    if cfg.get("absdelta") is not None:
        return None
    tol = 1e-5 if cfg.get("tol") is None else cfg["tol"]
    atol = 0.0 if cfg.get("atol") is None else cfg["atol"]
    return max(tol * vnorm(j, cfg.get("norm_ord")), atol)


def criterion_holds(P, cfg, out, xprev, who):
    """info == 0  =>  the requested criterion holds on the true residual / true energy"""
    x = out.x
    rtrue = P.M @ x - P.j
    sr, sE = P.slacks(out.nit)
    rn = vnorm(rtrue, cfg.get("norm_ord"))
    res_eff = effective_resnorm(cfg, P.j)
    if res_eff is not None and rn < res_eff + sr:
        return "met_resnorm"
    if float(np.linalg.norm(rtrue)) <= sr:
        return "met_exact"
    detail = f"|r_true|={rn:.6e} resnorm={res_eff} slack={sr:.2e} nit={out.nit}"
    if cfg.get("absdelta") is not None and xprev is not None:
        dE = energy(P.M, P.j, xprev) - energy(P.M, P.j, x)
        if dE < cfg["absdelta"] + sE:
            return "met_absdelta"
        detail += f" dE_true={dE:.6e} absdelta={cfg['absdelta']:.6e} slackE={sE:.2e}"
    raise Violation(who + "_success_without_criterion", detail)


# ------------------------------------------------------------------ sub-check 1: HPD x stopping configurations
def build_hpd(rec):
    n, cplx = rec["n"], rec["cplx"]
    g = np.random.default_rng(int(rec["seed"]))
    A = g.standard_normal((n, n))
    if cplx:
        A = A + 1j * g.standard_normal((n, n))
    Q, _ = np.linalg.qr(A)
    kappa = 2.0 ** rec["kappa_log2"]
    t = np.arange(n) / max(1, n - 1)
    spec = rec["spec"]
    if spec == "geom":
        lam = kappa ** t
    elif spec == "lin":
        lam = 1 + (kappa - 1) * t
    elif spec == "two":
        lam = np.where(np.arange(n) < (n + 1) // 2, 1 + 0.25 * t, kappa * (1 - 0.25 * t))
    else:
        lam = 1 + (kappa - 1) * g.integers(0, 257, size=n) / 256.0
    M = (Q * lam) @ Q.conj().T
    M = (M + M.conj().T) / 2
    j = g.integers(-32, 33, size=n) / 8.0
    x0 = g.integers(-8, 9, size=n) / 4.0
    if cplx:
        j = j + 1j * (g.integers(-32, 33, size=n) / 8.0)
        x0 = x0 + 1j * (g.integers(-8, 9, size=n) / 4.0)
    if not np.any(j):
        j[0] = 1.0
    dt = np.complex128 if cplx else np.float64
    return M.astype(dt), j.astype(dt), (x0.astype(dt) if rec["x0"] else None)


def check_hpd(rec):
    n, kind = rec["n"], rec["kind"]
    M, j, x0 = build_hpd(rec)
    P = Problem(M, j, x0)
    o = rec["ord"]
    t64, t80 = trace_pair(M, j, x0, n + 2)
    Kh = healthy_horizon(t64, t80, P.xs)
    if Kh < 1:
        raise Discard()
    steps = t64[1]

    def level(pct):
        return steps[min(Kh, max(1, math.ceil(pct / 100.0 * Kh))) - 1]

    crit = rec["crit"]
    cfg = dict(resnorm=None, absdelta=None, tol=None, atol=None, miniter=None, maxiter=None, norm_ord=o)
    jn = vnorm(j, o)
    if crit == "tol":
        cfg["tol"] = 1.25 * _stepnorm(level(rec["lev"]), o) / jn
    elif crit == "atol":
        cfg["atol"] = 1.25 * _stepnorm(level(rec["lev"]), o)
    elif crit == "tol_atol":
        cfg["tol"] = 1.25 * _stepnorm(level(rec["lev"]), o) / jn
        cfg["atol"] = 1.25 * _stepnorm(level(rec["lev2"]), o)
    elif crit in ("resnorm", "resnorm_tol"):
        cfg["resnorm"] = 1.25 * _stepnorm(level(rec["lev"]), o)
        if crit == "resnorm_tol":
            cfg["tol"] = 0.5        # must be ignored (documented precedence)
            cfg["atol"] = 0.25 * jn
    elif crit in ("absdelta", "absdelta_tol"):
        cfg["absdelta"] = 1.25 * float(level(rec["lev"])["dE"])
        if crit == "absdelta_tol":
            cfg["tol"] = 0.5
    elif crit == "both":
        cfg["resnorm"] = 1.25 * _stepnorm(level(rec["lev"]), o)
        cfg["absdelta"] = 1.25 * float(level(rec["lev2"])["dE"])
    mi = rec["miniter"]
    if isinstance(mi, list):
        cfg["miniter"] = max(0, min(Kh, int(round(mi[1] / 100.0 * Kh))))
    elif mi is not None:
        cfg["miniter"] = min(int(mi), Kh)
    res_eff = effective_resnorm(cfg, j)

    # ---- keep the configuration inside the healthy horizon (textbook prediction, generator side only)
    def crit_at(s):
        a = res_eff is not None and _stepnorm(s, o) < res_eff
        b = cfg["absdelta"] is not None and float(s["dE"]) < cfg["absdelta"]
        return a or b

    for s in steps[:Kh]:
        if res_eff is not None and abs(_stepnorm(s, o) - res_eff) <= 1e-6 * res_eff:
            raise Discard()
        if cfg["absdelta"] is not None and abs(float(s["dE"]) - cfg["absdelta"]) <= 1e-6 * cfg["absdelta"]:
            raise Discard()
    mi_eff = cfg["miniter"] if cfg["miniter"] is not None else 6
    pred = next((s["k"] for s in steps[:Kh] if s["k"] >= mi_eff and crit_at(s)), None)
    capped = pred is None
    cal_cfg = dict(cfg)
    if capped:
        cal_cfg["maxiter"] = Kh

    jt = make_tree(kind, n, j)
    x0t = None if x0 is None else make_tree(kind, n, x0)
    classes = [kind_class(kind, n), "complex" if rec["cplx"] else "real", "x0_given" if x0 is not None else "x0_none",
               "crit_" + crit, "ord_" + str(o),
               "miniter_" + ("none" if mi is None else "frac" if isinstance(mi, list) else str(mi)),
               "n_le4" if n <= 4 else "n_5_12" if n <= 12 else "n_13_24", "kappa_2^%d" % (2 * (rec["kappa_log2"] // 2)),
               "spec_" + rec["spec"]]
    if capped:
        classes.append("capped_to_horizon")

    # ---- calibration run (eager): iteration count of the configuration without an iteration limit
    cal = run_eager(M, jt, x0t, cal_cfg)
    require(cal.raised is None, "eager_raises_on_hpd", f"{cal.raised}; cfg={cal_cfg}")
    runs = [("none", cal_cfg)]
    if rec["limit"] == "set":
        # the same compiled function serves all of these (maxiter is a traced argument)
        runs = []
        if cal.info == 0:
            runs.append(("ample", dict(cal_cfg, maxiter=cal.nit + 2)))
        if cal.nit >= 1:
            runs.append(("exact", dict(cal_cfg, maxiter=cal.nit)))
        if cal.nit >= 2:
            runs.append(("minus1", dict(cal_cfg, maxiter=cal.nit - 1)))
        runs.append(("fixed", dict(cal_cfg, maxiter=max(1, min(rec["fixed"], Kh)))))
    first = next((s["k"] for s in steps[:Kh] if crit_at(s)), None)
    nontrivial = False
    eg = None
    for limit, run_cfg in runs:
        classes.append("limit_" + limit)
        eg = cal if run_cfg == cal_cfg else run_eager(M, jt, x0t, run_cfg)
        require(eg.raised is None, "eager_raises_on_hpd", f"{eg.raised}; cfg={run_cfg}")
        stt = run_static(M, jt, x0t, run_cfg)
        self_consistent(eg, "eager")
        self_consistent(stt, "compiled")
        require(eg.shapes == tree_shapes(jt) and eg.xtype == type(jt).__name__, "eager_result_structure",
                f"{eg.xtype}{eg.shapes} for rhs {type(jt).__name__}{tree_shapes(jt)}")
        # ---- accuracy: success => requested criterion on the true residual / energy
        for who, out in (("eager", eg), ("compiled", stt)):
            if out.info == 0:
                xprev = None
                if cfg["absdelta"] is not None:
                    if out.nit <= 1:
                        xprev = P.xstart
                    else:
                        pc = dict(run_cfg, miniter=out.nit - 1, maxiter=out.nit - 1)
                        pr = run_eager(M, jt, x0t, pc) if who == "eager" else run_static(M, jt, x0t, pc)
                        if pr.raised is None and pr.nit == out.nit - 1:
                            xprev = pr.x
                classes.append(who + "_" + criterion_holds(P, cfg, out, xprev, who))
            else:
                require(out.info == out.nit, who + "_info_is_not_the_iteration_count",
                        f"info={out.info} nit={out.nit}")
                require(run_cfg["maxiter"] is not None and out.nit == run_cfg["maxiter"],
                        who + "_gave_up_before_the_iteration_limit",
                        f"info={out.info} nit={out.nit} maxiter={run_cfg['maxiter']} cfg={run_cfg}")
        if limit in ("none", "ample") and not capped:
            require(eg.info == 0, "eager_not_converged_with_ample_iterations",
                    f"info={eg.info} nit={eg.nit} cfg={run_cfg}")
            require(stt.info == 0, "compiled_not_converged_with_ample_iterations",
                    f"info={stt.info} nit={stt.nit} cfg={run_cfg}")
        # ---- differential
        compare_variants(eg, stt, P.xs, kappa=2.0 ** rec["kappa_log2"])
        limit_exact = eg.info == 0 and run_cfg["maxiter"] is not None and eg.nit == run_cfg["maxiter"]
        if limit_exact:
            classes.append("converged_exactly_at_maxiter")
        if eg.info != 0:
            classes.append("stopped_by_limit")
        mi_run = run_cfg["miniter"] if run_cfg["miniter"] is not None else min(
            6, run_cfg["maxiter"] if run_cfg["maxiter"] is not None else 20 * n)
        if eg.info == 0 and first is not None and first < eg.nit == mi_run:
            classes.append("miniter_binding")
        if eg.nit >= 20:
            classes.append("residual_resync_passed")
        classes.append("nit_0_2" if eg.nit <= 2 else "nit_3_9" if eg.nit <= 9 else "nit_ge10")
        nontrivial = nontrivial or eg.nit >= 3 or limit_exact

    # ---- un-jitted compiled variant and the public wrappers (fraction of the cases; last configuration)
    if rec["direct"]:
        sd = run_static(M, jt, x0t, run_cfg, direct=True)
        self_consistent(sd, "compiled")
        compare_variants(eg, sd, P.xs, prefix="unjitted_", kappa=2.0 ** rec["kappa_log2"])
        classes.append("static_unjitted")
    if rec["public"]:
        _, jnp, jft, _ = _jx()
        kw = {k: v for k, v in run_cfg.items() if v is not None}
        if "norm_ord" in kw:
            kw["norm_ord"] = _ord(kw["norm_ord"])
        mat = functools.partial(matvec, jnp.asarray(M))
        xe, ie = jft.cg(mat, jt, x0t, **kw)
        xc, ic = jft.static_cg(mat, jt, x0t, **kw)
        close(flat_np(xe), eg.x, "public_cg_x", tol=1e-12, scale=P.xs)
        close(flat_np(xc), eg.x, "public_static_cg_x", tol=1e-9, scale=P.xs)
        require(int(ie) == eg.info, "public_cg_info", f"{int(ie)} vs {eg.info}")
        require(int(ic) == eg.info, "public_static_cg_info", f"{int(ic)} vs eager {eg.info}")
        classes.append("public_wrappers")
    return dict(nontrivial=nontrivial, classes=classes)


# few (size, pytree layout) combinations: every distinct leaf shape costs ~30 small XLA compilations in the
# eager solver and one large one in the compiled solver
HPD_LAYOUTS = [(2, "arr1"), (3, "vec_nested"), (5, "vec_tuple"), (8, "arr2"), (8, "vec_dict"), (12, "vec_arr"),
               (12, "vec_nested"), (24, "arr1"), (24, "vec_dict"), (24, "vec_tuple")]
NONPD_LAYOUTS = [(2, "arr1"), (2, "vec_dict"), (3, "vec_nested"), (4, "arr2"), (8, "vec_dict"), (8, "vec_tuple")]
BOUNDARY_LAYOUTS = [(2, "arr1"), (2, "vec_dict"), (3, "vec_nested"), (3, "vec_nested")]


# (the rare value sits in the middle: Hypothesis favours the ends of a range)
ONE_IN_6 = st.sampled_from([False, False, True, False, False, False])
ONE_IN_10 = st.sampled_from([False] * 4 + [True] + [False] * 5)


def hpd_recipes(tier):
    kmax = 10 if tier == "quick" else 16

    @st.composite
    def rec(draw):
        long_run = draw(ONE_IN_6)      # n = 24, slowly converging spectrum: >= 20 iterations
        n, kind = draw(st.sampled_from(HPD_LAYOUTS[-3:] if long_run else HPD_LAYOUTS))
        crit = draw(st.sampled_from(["default", "tol", "atol", "tol_atol", "resnorm", "resnorm", "resnorm_tol",
                                     "absdelta", "absdelta", "absdelta_tol", "both", "both"]))
        mi = draw(st.sampled_from([None, None, None, 0, 1, 3, ["frac", 50], ["frac", 100], ["frac", 75]]))
        if isinstance(mi, list):
            mi = ["frac", draw(st.integers(20, 100))]
        lev = draw(st.integers(10, 100))
        if long_run:
            lev = draw(st.integers(92, 100))
            crit = draw(st.sampled_from(["tol", "resnorm", "absdelta", "both", "atol"]))
        return {"n": n, "cplx": draw(st.booleans()), "kind": kind,
                "kappa_log2": draw(st.integers(6, 10)) if long_run else draw(st.integers(1, kmax)),
                "spec": "lin" if long_run else draw(st.sampled_from(["geom", "geom", "lin", "two", "rand"])),
                "seed": draw(st.integers(0, 2 ** 31 - 1)),
                "x0": draw(st.booleans()), "crit": crit, "ord": draw(st.sampled_from([None, None, 1, 2, "inf"])),
                "lev": lev, "lev2": draw(st.integers(92, 100)) if long_run else draw(st.integers(10, 100)),
                "miniter": mi, "limit": draw(st.sampled_from(["none", "set", "set"])),
                "fixed": draw(st.integers(1, 4)), "direct": draw(ONE_IN_10),
                "public": draw(ONE_IN_10)}
    return rec()


# ------------------------------------------------------------------ sub-check 2: exact boundary cases
def _frac(x):
    return Fraction(x)


def check_boundary(rec):
    """diagonal dyadic systems in which every operation of the first CG iteration is exact.

    family "pair": two active coordinates with lambda_p + lambda_q a power of two and |j_p| = |j_q| = c:
        alpha_1 = 2/(lambda_p+lambda_q) dyadic, x_1, r_1, E_1 dyadic -> |r_1|_1, |r_1|_inf and the energy
        decrease D_1 are computed without rounding by both variants; the threshold is put exactly on /
        one ulp above / one ulp below that value.
    family "scaled_identity": M = c I, one step reaches r == 0 exactly (gamma <= tiny branch, miniter irrelevant)
    family "zero_start": r0 == 0 exactly (j == 0 without x0, or x0 the exact solution): nit == 0, info == 0
    """
    cplx, kind, fam = rec["cplx"], rec["kind"], rec["family"]
    lam = np.array(rec["lam"], dtype=np.float64)
    n = lam.size
    dt = np.complex128 if cplx else np.float64
    M = np.diag(lam).astype(dt)
    j = _vec(rec["j"], cplx)
    x0 = None if rec["x0"] is None else _vec(rec["x0"], cplx)
    jt = make_tree(kind, n, j)
    x0t = None if x0 is None else make_tree(kind, n, x0)
    xs = max(1.0, float(np.max(np.abs(j / lam))), 0.0 if x0 is None else float(np.max(np.abs(x0))))
    classes = ["family_" + fam, "complex" if cplx else "real", kind_class(kind, n)]
    cfg = dict(resnorm=None, absdelta=None, tol=None, atol=None, miniter=rec["miniter"], maxiter=rec["maxiter"],
               norm_ord=rec["ord"])
    nontrivial = False
    if fam == "pair":
        # exact first iterate by rational arithmetic (harness side)
        jf = [(_frac(z.real), _frac(z.imag)) for z in j.astype(np.complex128)]
        lf = [_frac(v) for v in lam]
        gam = sum(a * a + b * b for a, b in jf)
        curv = sum(l * (a * a + b * b) for l, (a, b) in zip(lf, jf))
        alpha = gam / curv
        r1 = [((alpha * l - 1) * a, (alpha * l - 1) * b) for l, (a, b) in zip(lf, jf)]
        mags = [abs(a) + abs(b) for a, b in r1]          # exact: entries are axis aligned (a == 0 or b == 0)
        assert all(a == 0 or b == 0 for a, b in r1)
        N = {1: sum(mags), "inf": max(mags)}[rec["ord"]]
        D1 = alpha * gam / 2                                # E_0 - E_1 = gamma^2 / (2 curv)
        val = float(N if rec["what"] == "resnorm" else D1)
        assert Fraction(val) == (N if rec["what"] == "resnorm" else D1)      # representable
        thr = {"eq": val, "above": float(np.nextafter(val, np.inf)), "below": float(np.nextafter(val, 0.0))}[rec["side"]]
        cfg[rec["what"]] = thr
        classes += ["threshold_" + rec["side"], "on_" + rec["what"], "maxiter_%d" % rec["maxiter"],
                    "miniter_" + str(rec["miniter"])]
        nontrivial = rec["side"] == "eq"
    eg = run_eager(M, jt, x0t, cfg)
    require(eg.raised is None, "eager_raises_on_hpd", f"{eg.raised}; cfg={cfg}")
    stt = run_static(M, jt, x0t, cfg)
    self_consistent(eg, "eager")
    self_consistent(stt, "compiled")
    compare_variants(eg, stt, xs)
    if rec["direct"]:
        sd = run_static(M, jt, x0t, cfg, direct=True)
        compare_variants(eg, sd, xs, prefix="unjitted_")
        classes.append("static_unjitted")
    xstart = np.zeros(n, dtype=dt) if x0 is None else x0
    if fam == "pair":
        # one ulp above the exact value the criterion is met at iteration 1 (statement: requested criterion)
        mi_eff = rec["miniter"] if rec["miniter"] is not None else min(6, rec["maxiter"])
        if rec["side"] == "above" and mi_eff <= 1:
            for who, out in (("eager", eg), ("compiled", stt)):
                require(out.info == 0 and out.nit == 1, who + "_criterion_met_but_not_reported",
                        f"threshold one ulp above the exact first-iterate value; info={out.info} nit={out.nit}")
        if eg.info == 0:
            # success => criterion on the true residual (two active eigen-directions: exact after 2 steps)
            x = eg.x
            rn = vnorm(M @ x - j, rec["ord"])
            if rec["what"] == "resnorm":
                require(rn < cfg["resnorm"] * (1 + 1e-12) + 1e-13, "eager_success_without_criterion",
                        f"|r|={rn!r} resnorm={cfg['resnorm']!r} nit={eg.nit}")
        classes.append("nit_%d" % eg.nit)
        classes.append("converged" if eg.info == 0 else "limit")
        if eg.info == 0 and eg.nit == rec["maxiter"]:
            classes.append("converged_exactly_at_maxiter")
    elif fam == "scaled_identity":
        for who, out in (("eager", eg), ("compiled", stt)):
            require(out.info == 0 and out.nit == 1, who + "_exact_one_step_solution_not_reported",
                    f"info={out.info} nit={out.nit}")
            close(out.x, j / lam, who + "_exact_one_step_solution", tol=1e-15, scale=xs)
        nontrivial = rec["miniter"] is not None and rec["miniter"] > 1
        classes.append("miniter_%s" % rec["miniter"])
    else:
        for who, out in (("eager", eg), ("compiled", stt)):
            require(out.info == 0 and out.nit == 0, who + "_zero_residual_start_not_reported",
                    f"info={out.info} nit={out.nit}")
            require(np.array_equal(out.x, xstart), who + "_zero_residual_start_moved", "")
        nontrivial = x0 is not None
        classes.append("x0_exact_solution" if x0 is not None else "zero_rhs")
    return dict(nontrivial=nontrivial, classes=classes)


PAIRS = [(1, 3), (3, 1), (1, 7), (3, 5), (5, 3), (2, 6), (1, 15), (5, 11), (0.5, 1.5), (0.25, 0.75), (0.5, 3.5),
         (6, 10), (1.5, 2.5), (9, 7)]
UNITS = [1, -1, 1j, -1j]


def boundary_recipes(tier):
    @st.composite
    def rec(draw):
        fam = draw(st.sampled_from(["pair"] * 6 + ["scaled_identity", "zero_start"]))
        cplx = draw(st.booleans())
        n, kind = draw(st.sampled_from(BOUNDARY_LAYOUTS))
        units = UNITS if cplx else UNITS[:2]
        base = {"family": fam, "cplx": cplx, "kind": kind, "direct": draw(ONE_IN_10), "x0": None,
                "ord": None, "miniter": None, "maxiter": None}
        if fam == "pair":
            lp, lq = draw(st.sampled_from(PAIRS))
            pos = sorted(draw(st.lists(st.integers(0, n - 1), min_size=2, max_size=2, unique=True)))
            lam = [draw(st.sampled_from([0.5, 1.0, 2.0, 3.0, 4.0])) for _ in range(n)]
            lam[pos[0]], lam[pos[1]] = float(lp), float(lq)
            c = draw(st.sampled_from([1.0, 2.0, 0.5, 3.0, 0.75]))
            j = [0.0] * n
            for p in pos:
                j[p] = _cj(c * draw(st.sampled_from(units)))
            base.update(lam=lam, j=j, what=draw(st.sampled_from(["resnorm", "resnorm", "absdelta"])),
                        side=draw(st.sampled_from(["eq", "eq", "above", "below"])),
                        ord=draw(st.sampled_from([1, "inf"])), miniter=draw(st.sampled_from([0, 1, 1, None])),
                        maxiter=draw(st.sampled_from([1, 2])))
            if base["what"] == "absdelta":
                # the second iterate is the exact solution (two active eigen-directions): whether its residual
                # is exactly zero (gamma <= tiny) is decided by round-off, so the energy criterion is only
                # probed at the first, exact, iteration
                base["maxiter"] = 1
        elif fam == "scaled_identity":
            c = draw(st.sampled_from([0.5, 1.0, 2.0, 4.0]))
            base.update(lam=[c] * n, j=[_cj(draw(st.integers(-16, 16)) / 4.0 * draw(st.sampled_from(units)))
                                        for _ in range(n)],
                        miniter=draw(st.sampled_from([None, 0, 1, 3, 5])), maxiter=draw(st.sampled_from([None, 8])))
            if not any(v != 0 for v in base["j"]):
                base["j"][0] = 1.0
        else:
            lam = [draw(st.sampled_from([0.5, 1.0, 2.0, 4.0, 8.0])) for _ in range(n)]
            if draw(st.booleans()):
                base.update(lam=lam, j=[0.0] * n)
            else:
                x0 = [draw(st.integers(-8, 8)) / 2.0 * draw(st.sampled_from(units)) for _ in range(n)]
                base.update(lam=lam, x0=[_cj(v) for v in x0], j=[_cj(l * v) for l, v in zip(lam, x0)])
            base.update(miniter=draw(st.sampled_from([None, 0, 2])), maxiter=draw(st.sampled_from([None, 3])))
        return base
    return rec()


# ------------------------------------------------------------------ sub-check 3: not positive definite
def check_nonpd(rec):
    cplx, kind, raise_ = rec["cplx"], rec["kind"], rec["raise"]
    M = _mat(rec["M"], cplx)
    require_h = np.array_equal(M, M.conj().T)
    assert require_h, "recipe matrix must be Hermitian"
    n = M.shape[0]
    j = _vec(rec["j"], cplx)
    x0 = None if rec["x0"] is None else _vec(rec["x0"], cplx)
    xstart = np.zeros_like(j) if x0 is None else x0
    lam = np.linalg.eigvalsh(M)
    lsc = max(1.0, float(np.max(np.abs(lam))))
    npos, nneg = int(np.sum(lam > 1e-9 * lsc)), int(np.sum(lam < -1e-9 * lsc))
    if nneg == 0 and npos == n:
        raise Discard()       # positive definite: not this sub-check's domain
    inertia = ("negative_definite" if nneg == n else "negative_semidefinite" if npos == 0 else
               "positive_semidefinite" if nneg == 0 else "indefinite")
    classes = [inertia, "complex" if cplx else "real", kind_class(kind, n), "raise" if raise_ else "no_raise",
               "x0_given" if x0 is not None else "x0_none", "crit_" + rec["crit"]]
    o = rec["ord"]
    cfg = dict(resnorm=None, absdelta=None, tol=None, atol=None, miniter=rec["miniter"], maxiter=rec["maxiter"],
               norm_ord=o)
    if rec["crit"] == "resnorm":
        cfg["resnorm"] = rec["thr"]
    elif rec["crit"] == "absdelta":
        cfg["absdelta"] = rec["thr"]
    elif rec["crit"] == "both":
        cfg["resnorm"] = rec["thr"]
        cfg["absdelta"] = rec["thr"] / 4
    res_eff = effective_resnorm(cfg, j)

    # ---- exact facts about the start (all data are small dyadics: float arithmetic is exact here)
    r0 = M @ xstart - j
    gam0 = float(np.real(np.vdot(r0, r0)))
    c0 = float(np.real(np.vdot(r0, M @ r0)))
    xs = max(1.0, float(np.max(np.abs(xstart))))
    jt = make_tree(kind, n, j)
    x0t = None if x0 is None else make_tree(kind, n, x0)

    # ---- walk the textbook recurrences to classify what the solver will meet (generator side: caps)
    maxiter_eff = cfg["maxiter"] if cfg["maxiter"] is not None else max(min(200, 20 * n), cfg["miniter"] or 0)
    K = min(maxiter_eff, n + 3)
    (s0, st64), (_, st80) = trace_pair(M, j, x0, K)
    normM = lsc
    event, kev, cap = None, None, None
    xscale = xs
    for a, b in zip(st64, st80):
        k = a["k"]
        sc = normM * float(a["dn2"])
        cv = float(a["curv"])
        if k == 1:      # exact arithmetic: the sign is known
            if c0 == 0.0:
                event, kev = "zero", 1
                break
            cv = math.copysign(max(abs(c0), sc), c0)
        if cv < -1e-9 * sc:
            event, kev = "neg", k
            break
        if not cv > 1e-9 * sc or "x" not in a or "x" not in b:
            cap = k - 1
            break
        xscale = max(xscale, float(np.max(np.abs(a["x"]))))
        if deviation(a, b, xscale) > 1e-11 or not float(a["gam"]) >= 1e-14 * gam0 \
                or not float(a["dE"]) >= 1e-11 * max(float(a["T"]), 1e-300):
            cap = k - 1
            break
    else:
        if gam0 != 0.0 and len(st64) >= K and K < maxiter_eff:
            cap = K
    if gam0 != 0.0 and event is None and cap is None and len(st64) < K:
        cap = len(st64)       # exact zero residual reached in the textbook run
    if cap is not None:
        if cap < 1:
            raise Discard()
        cfg["maxiter"] = cap if cfg["maxiter"] is None else min(cfg["maxiter"], cap)
        classes.append("capped")
    maxiter_run = cfg["maxiter"] if cfg["maxiter"] is not None else maxiter_eff
    mi_eff = cfg["miniter"] if cfg["miniter"] is not None else min(6, maxiter_run)
    # does a (robust) convergence stop come before the non-positive curvature?
    stop_before = None
    last = (kev - 1) if event is not None else min(maxiter_run, len(st64))
    for a in st64[:max(0, last)]:
        if "x" not in a:
            break
        if res_eff is not None and res_eff > 0 and abs(_stepnorm(a, o) - res_eff) <= 1e-6 * res_eff:
            raise Discard()
        if cfg["absdelta"] is not None and abs(float(a["dE"]) - cfg["absdelta"]) <= 1e-6 * cfg["absdelta"]:
            raise Discard()
        hit = (res_eff is not None and _stepnorm(a, o) < res_eff) or \
              (cfg["absdelta"] is not None and float(a["dE"]) < cfg["absdelta"])
        if hit and a["k"] >= mi_eff and a["k"] <= maxiter_run:
            stop_before = a["k"]
            break
    meets = event is not None and kev <= maxiter_run and stop_before is None and gam0 != 0.0
    if gam0 == 0.0:
        classes.append("zero_residual_start")
    elif meets:
        classes.append(f"{event}_curvature_at_" + ("first" if kev == 1 else "later"))
    elif stop_before is not None:
        classes.append("converges_before_nonpositive_curvature")
    else:
        classes.append("limit_before_nonpositive_curvature")

    eg = run_eager(M, jt, x0t, cfg, raise_=raise_)
    stt = run_static(M, jt, x0t, cfg, raise_=raise_, direct=rec["direct"])
    self_consistent(stt, "compiled")
    if raise_:
        if meets:
            require(eg.raised is not None, "eager_no_failure_on_nonpositive_curvature",
                    f"{event} curvature at iteration {kev}; returned info={getattr(eg, 'info', None)}")
            require(stt.info < 0 and not stt.success, "compiled_no_failure_on_nonpositive_curvature",
                    f"{event} curvature at iteration {kev}; info={stt.info} success={stt.success}")
        else:
            require((eg.raised is not None) == (stt.info == -1), "failure_report_eager_vs_compiled",
                    f"eager raised={eg.raised!r}; static info={stt.info}")
            if eg.raised is None:
                self_consistent(eg, "eager")
    else:
        require(eg.raised is None, "eager_raises_although_told_not_to", str(eg.raised))
        self_consistent(eg, "eager")
        E0 = energy(M, j, xstart)
        for who, out in (("eager", eg), ("compiled", stt)):
            require(np.all(np.isfinite(out.x)), who + "_nonfinite_result", "")
            E1 = energy(M, j, out.x)
            sc = energy_scale(M, j, xstart) + energy_scale(M, j, out.x) + 1e-300
            require(E1 <= E0 + 1e-9 * sc, who + "_energy_above_start",
                    f"E(x_ret)={E1!r} > E(x_start)={E0!r} (info={out.info}, nit={out.nit})")
            if meets and event == "neg" and kev == 1:
                dx = out.x - xstart
                t = -float(np.real(np.vdot(r0, dx))) / gam0
                dsc = max(xs, float(np.max(np.abs(dx))))
                require(t > 0, who + "_no_descent_step_on_negative_first_curvature",
                        f"x_ret - x_start = -t r with t={t!r} (info={out.info})")
                close(dx, -t * r0, who + "_fallback_step_not_along_gradient", tol=1e-9, scale=dsc)
        close(stt.x, eg.x, "x_eager_vs_compiled", tol=1e-9, scale=max(xscale, float(np.max(np.abs(eg.x)))),
              detail=f"eager(info={eg.info},nit={eg.nit}) static(info={stt.info},nit={stt.nit})")
        classes.append("nonpd_info_agrees" if (eg.info, eg.nit) == (stt.info, stt.nit) else "nonpd_info_differs")
    if rec["direct"]:
        classes.append("static_unjitted")
    return dict(nontrivial=bool(meets), classes=classes)


def _herm(B, s):
    B = np.array(B)
    return (B * np.array(s)) @ B.conj().T


def nonpd_recipes(tier):
    @st.composite
    def rec(draw):
        cplx = draw(st.booleans())
        n, kind = draw(st.sampled_from(NONPD_LAYOUTS))
        flavour = draw(st.sampled_from(["negdef", "indef", "indef", "indef", "semi", "zero_first", "diag", "diag_half"]))
        ent = st.integers(-2, 2)
        if flavour == "diag":
            dg = [draw(st.integers(-4, 4)) for _ in range(n)]
            if all(v > 0 for v in dg):
                dg[draw(st.integers(0, n - 1))] = -draw(st.integers(0, 3))
            M = np.diag(np.array(dg, dtype=float))
        elif flavour == "diag_half":
            # start with r0 = j/2 (x0 = 1.5 M^-1 j): the compiled solver's energy bookkeeping after the
            # fallback step uses the residual of the start (see the report / class nonpd_info_differs)
            dg = [draw(st.sampled_from([-4, -2, -1, -1, 1, 2])) for _ in range(n)]
            if all(v > 0 for v in dg):
                dg[draw(st.integers(0, n - 1))] = -2
            M = np.diag(np.array(dg, dtype=float))
        elif flavour == "zero_first":
            a = draw(st.integers(1, 4))
            dg = [draw(st.integers(-3, 3)) for _ in range(n)]
            dg[0], dg[1] = a, -a
            M = np.diag(np.array(dg, dtype=float))
        else:
            if cplx:
                B = [[complex(draw(st.integers(-1, 1)), draw(st.integers(-1, 1))) for _ in range(n)] for _ in range(n)]
            else:
                B = [[draw(ent) for _ in range(n)] for _ in range(n)]
            if flavour == "negdef":
                M = -(_herm(B, [1] * n) + draw(st.integers(1, 3)) * np.eye(n))
            else:
                lo = -1 if flavour == "indef" else 0
                s = [draw(st.integers(lo, 1)) for _ in range(n)]
                if all(v > 0 for v in s):
                    s[draw(st.integers(0, n - 1))] = lo
                M = _herm(B, s)
        units = UNITS if cplx else UNITS[:2]
        if flavour == "zero_first":
            c = draw(st.integers(1, 8)) / 4.0
            j = [0.0] * n
            j[0], j[1] = c * draw(st.sampled_from(units)), c * draw(st.sampled_from(units))
            x0 = None
        else:
            j = [draw(st.integers(-16, 16)) / 4.0 * draw(st.sampled_from(units)) for _ in range(n)]
            if not any(v != 0 for v in j):
                j[0] = 1.0
            x0 = None if draw(st.booleans()) else [draw(st.integers(-4, 4)) / 2.0 * draw(st.sampled_from(units))
                                                   for _ in range(n)]
            if flavour == "diag_half":
                x0 = [1.5 * v / d for v, d in zip(j, dg)]
        crit = draw(st.sampled_from(["default", "default", "resnorm", "absdelta", "both"]))
        return {"cplx": cplx, "kind": kind,
                "M": [[_cj(v) for v in row] for row in np.asarray(M, dtype=np.complex128)],
                "j": [_cj(v) for v in j], "x0": None if x0 is None else [_cj(v) for v in x0],
                "raise": draw(st.booleans()), "crit": crit, "thr": draw(st.sampled_from([2.0 ** -20, 2.0 ** -10, 0.125, 1.0])),
                "ord": draw(st.sampled_from([None, 1, "inf"])), "miniter": draw(st.sampled_from([None, None, 0, 1, 2])),
                "maxiter": draw(st.sampled_from([None, None, 1, 2, 3, 5])), "direct": draw(ONE_IN_10)}
    return rec()


# seconds per shard before the remaining cases are skipped (never a violation); VERIF_C15_BUDGET lets a run on a
# heavily shared machine finish all cases
_BUDGET = float(os.environ.get("VERIF_C15_BUDGET", "50"))

SUBS = [
    Sub(name="hpd_stopping", check=check_hpd, strategy=hpd_recipes, quick=128, thorough=2400, shards=16, jax=True,
        budget_quick=_BUDGET,
        rule="HPD Q diag(lambda) Q^H (n<=24, kappa<=2^10 quick) x stopping configuration x pytree kind; success => "
             "criterion re-evaluated on the true residual/energy; _cg vs _static_cg on x, info, nit, success; "
             "non-trivial = >= 3 iterations or convergence exactly at maxiter"),
    Sub(name="boundary_exact", check=check_boundary, strategy=boundary_recipes, quick=56, thorough=560, shards=7,
        jax=True, budget_quick=_BUDGET,
        rule="exact dyadic diagonal systems: first iterate exactly on / one ulp above / below the resnorm or absdelta "
             "threshold with maxiter 1 or 2, exact one-step and zero-step convergence; eager and compiled must take "
             "the same decision; non-trivial = threshold exactly equal to the iterate's value, miniter beyond an "
             "exact solution, or x0 the exact solution"),
    Sub(name="nonpd", check=check_nonpd, strategy=nonpd_recipes, quick=128, thorough=2000, shards=8, jax=True,
        budget_quick=_BUDGET,
        rule="integer Hermitian B diag(s) B^H with some s<=0 (indefinite, negative (semi)definite, singular), "
             "_raise_nonposdef both ways: raise -> eager ValueError and compiled info<0 when a non-positive "
             "curvature is met; no raise -> E(x_ret) <= E(x_start), x_ret - x_start = -t r0 with t>0 if the first "
             "curvature is negative, same x in both variants; non-trivial = the run meets a non-positive curvature"),
]
