"""C07 - fields are immutable once constructed (DESIGN 2/C07): model-based HISTORY check.

Recipe: {"dom": "u"|"rg"|"2d"|"s", "n": int, "ops": [op, ...]};  every op is a JSON list
    ["new",    ctor, [srckind, i], dtype, vals]      Field / Field.from_raw / makeField / Field.scalar from an array
                                                     (srckind: SRC_KINDS - plain, views, AnyArray wrappers, read-only,
                                                     non-native byte order, ndarray subclasses: memmap, masked,
                                                     matrix, user subclass; dom "s" = scalar domain, 0-d sources)
    ["full",   which, value]                         ift.full / Field.full / scalar makeField / from_raw / Field.scalar
    ["random", which, seed, rtype, dtype]            ift.from_random / Field.from_random (seed pushed + popped)
    ["cast",   f]                                    Field.cast_domain
    ["unary",  f, name]                              -f, abs, .real, .imag, .conjugate(), +f, astype, ptw, map, ...
    ["binary", f, g, name, scalar]                   f+g, f*g, f-g, f*s, s+f, f**2, unite, flexible_addsub
    ["mf",     how, [src, src], dtype, vals, f, g]   MultiField.from_raw / makeField(dict) / from_dict / full / random
    ["mfpart", f, key, how]                          mf[key], mf.to_dict()[key], mf.values(), extract_by_keys
    ["handle", f, kind, key]                         .val .val.val .raw .asnumpy() .val_rw() .asnumpy_rw() ...
    ["derive", a, kind]                              views / reshapes / slices / wrappers of a registered array
    ["write",  a, wkind, pos, v]                     write attempt through a registered array (source or handle)
    ["op",     f, okind]                             makeOp / DiagonalOperator / Adder / GaussianEnergy / VdotOperator
    ["copy",   f, how]                               pickle round trip / copy.deepcopy / copy.copy of a field
    ["reject", how, [srckind, i], dtype, vals]       constructor call that must be REJECTED (wrong shape / domain /
                                                     type), made with a registered source or handle (or a fresh array)
    ["ffail",  f, how]                               failing operation on a field (mismatching domains, bad cast, ...)
    ["hfail",  a, how]                               failing operation on a registered array / AnyArray handle
Indices f, g, a are taken modulo the number of registered fields / arrays (so every list is a valid
history and the list shrinks as one value); an op whose precondition cannot be met degrades to a
documented fallback (e.g. .imag of a real field -> .real).

Model: for every field the bytes (dtype, shape, C-order content) observed when it was constructed
(for array constructors additionally the bytes computed by the harness from the recipe); for every
derived operator the bytes of its output on a fixed probe when it was built.
Invariant after every step: every field and every derived operator still reproduces its bytes.
A rejected / failing call has to raise one of the documented exception types and - like every other step -
must leave every snapshot intact; whether the arrays involved are writable afterwards is NOT prescribed
(Field.__init__ locks its argument before it validates the shape), only that later writes cannot change a field.
The observation goes through `Field.val.val` (no side effects; `Field.asnumpy()` switches the wrapped
array to read-only as a side effect and would mask the defect it is looking for) - `asnumpy()` is
used as a second observation channel once, at the end of the history.
"""
import copy
import operator
import os
import pickle
import tempfile

import numpy as np
from hypothesis import strategies as st

import nifty.cl as ift
from vlib import Sub, Violation, require
from vlib import strat as S

PROPERTY = "C07"
LEVEL = "exploration"
RULE = ("Histories (lists of <= 30 op-tuples, quick) interleaving every public (Multi)Field constructor "
        "(keeping the source object: plain / Fortran / view / strided / read-only / non-native-byte-order ndarray, "
        "ndarray subclasses np.memmap (temp file), np.ma.MaskedArray, np.matrix, a user subclass, AnyArray wrappers "
        "of those (also locked beforehand), 0-d arrays and 0-d AnyArrays on the scalar domain), pickle / deepcopy / "
        "copy round trips of fields, REJECTED constructor calls (wrong shape / domain / type, made with any "
        "registered source or handle) and other failing operations on fields and handles (mismatching domains, "
        "bad shapes, bad indices), handle acquisition (.val, .val.val, .raw, "
        ".asnumpy(), .val_rw(), .asnumpy_rw(), AnyArray wrappers, views/slices/reshapes of those), write "
        "attempts through the source object and through every handle (item/slice assignment, in-place "
        "operators, ufunc out=, fill, sort, partition, put, flat, copyto, putmask, place, byteswap, setfield, "
        "nditer, buffer protocol, "
        "AnyArray.__setitem__/__i*__/__array_ufunc__/__array_function__ with out=) and construction of "
        "operators holding a field (makeOp, DiagonalOperator, Adder, GaussianEnergy, VdotOperator). "
        "Oracle = model of snapshot bytes: after every step each field and each derived operator (on a "
        "fixed probe) reproduces the bytes recorded when it was built; a rejected call must raise a documented "
        "exception type; plus a complete finite enumeration "
        "constructor x access path x write kind of three-step histories and constructor x rejected/failing call x "
        "argument path x write path of four-step histories. Classes count histories.")
LEVEL_TEXT = ("Generated search over construction/handle/write histories with an exact byte-level model; "
              "every write attempt is first performed on a harness-owned twin array, so 'refused', "
              "'wrote to a copy' and 'not applicable for this dtype' are told apart without trusting NIFTy; "
              "the single-write space constructor x access path x write kind is enumerated completely. "
              "Exploration, not proof: longer interleavings are sampled.")
LEVEL_NOTE = ("Trusted: numpy's own enforcement of ndarray.flags.writeable and np.shares_memory. In scope: the "
              "array object a field was built from and everything reachable from the field or from that "
              "object afterwards. Out of scope and not generated: ndarray.setflags(write=True), .base of a "
              "view, writing through an alias of the source memory that existed before construction and was "
              "not itself given to the constructor (this includes the file behind an np.memmap source and the mask of a "
              "MaskedArray), cupy arrays (no GPU). Whether a rejected call leaves its argument writable is not "
              "prescribed; only snapshots are compared.")
TECHNIQUE = "model-based history PBT (snapshot-bytes model, differential twin writes) + exhaustive single-write matrix"
ASSUMPTIONS = [
    "a field may be built from an already registered array only if that array aliases an existing field or "
    "is the only registered reference to its memory: an older user-held view of the same memory is a "
    "pre-existing alias that was never given to NIFTy (outside the statement)",
    "hidden base arrays of 'view'/'strided' sources are never written (pre-existing alias)",
    "val_rw()/asnumpy_rw()/AnyArray.copy() are documented as writable copies: a write that numpy accepts on "
    "a plain copy but that is refused by such a handle (before the handle was itself used to build a field) "
    "is reported as rw_copy_refuses_write",
    "a write attempt may raise ValueError/TypeError/RuntimeError (refusal); it must never change a snapshot",
    "a write attempt executed by numpy on an instance of an ndarray SUBCLASS (memmap, MaskedArray, matrix, user "
    "subclass) may raise any Exception (numpy's subclass code, e.g. MaskedArray has no .real setter); arithmetic, "
    "operators and copies built from a field whose buffer is such a subclass instance may raise (np.matrix '*' is a "
    "matrix product): the step is then skipped - C07 only demands that nothing changes",
    "for a MaskedArray the field's values are the data buffer (np.asarray); the mask is not part of the model",
    "a rejected constructor call must raise ValueError/TypeError/KeyError; it may leave its array argument "
    "read-only (Field.__init__ locks before validating) - a val_rw()/asnumpy_rw() copy that was handed to any "
    "constructor call, accepted or rejected, is no longer required to accept writes",
    "np.memmap sources live in a TemporaryDirectory of the history that is removed when the history ends; the "
    "backing file is never written directly (pre-existing alias outside NIFTy)",
    "fields are observed through Field.val.val (side-effect free); Field.asnumpy() is cross-checked at the end",
    "excluded by construction (defects of numpy itself, re-checked on every run by KNOWN_PROBES when listed in "
    "known_findings.json): ufunc.at and the .real=/.imag= setters of 0-d arrays (also reached by round(out=) of a "
    "0-d complex array) write into read-only ndarrays",
    "not generated (deliberate circumvention, like setflags): deprecated in-place metadata setters a.shape= / "
    "a.dtype= / a.strides= and ndarray.resize(refcheck=False) on the source object",
]

DT = {"f8": np.float64, "c16": np.complex128, "i8": np.int64, "f4": np.float32}
REFUSAL = (ValueError, TypeError, RuntimeError)

ARR_CTORS = ["Field", "from_raw", "makeField"]
ARR_CTORS_S = ARR_CTORS + ["Field.scalar"]          # Field.scalar(0-d array): scalar domain only, else -> Field
SRC_KINDS0 = ["own", "fortran", "view", "strided", "anyarray", "anyarray_view"]
SRC_KINDS_NEW = ["readonly", "byteswapped", "anyarray_locked", "memmap", "masked", "masked_m", "matrix", "subclass",
                 "anyarray_subclass"]
SRC_KINDS = SRC_KINDS0 + SRC_KINDS_NEW
AA_SRC = ("anyarray", "anyarray_view", "anyarray_locked", "anyarray_subclass")
COPY_KINDS = ["pickle", "pickle5", "deepcopy", "copy"]
# rejected constructor calls taking an array argument: how -> admissible exception types
REJECT = {"Field_wrongshape": (ValueError,), "from_raw_wrongshape": (ValueError,), "makeField_wrongshape": (ValueError,),
          "Field_scalar_nonscalar": (ValueError,), "Field_domain_not_tuple": (TypeError,), "Field_mdom": (TypeError,),
          "from_raw_mdom": (TypeError,), "makeField_mdom_nondict": (TypeError,),
          "mf_from_raw_missing_key": (KeyError, ValueError), "mf_from_raw_wrongshape": (ValueError,),
          "MultiField_ctor_array": (TypeError,), "full_array": (TypeError,), "DiagonalOperator_array": (TypeError,)}
REJECT_KINDS = list(REJECT)
REJECT_SHAPE = REJECT_KINDS[:4]
# failing operations on a field
FFAIL = {"cast_wrongshape": (ValueError,), "add_mismatch": (ValueError,), "mul_mismatch": (ValueError,),
         "vdot_mismatch": (ValueError,), "unite_mismatch": (ValueError,), "flexible_addsub_mismatch": (ValueError,),
         "makeOp_wrong_input": (ValueError,), "Adder_wrong_input": (ValueError,), "extract_wrong": (ValueError,),
         "bool": (TypeError,), "astype_bad": (TypeError,), "mf_ctor_wrongdom": (ValueError, TypeError),
         "from_dict_wrongdom": (ValueError,), "getitem_badkey": (KeyError, TypeError, IndexError)}
FFAIL_KINDS = list(FFAIL)
# failing operations on a registered array object (ndarray: numpy's business; AnyArray: NIFTy code)
HFAIL_ND = ["setitem_badshape", "iadd_badshape", "copyto_badshape", "setitem_oob", "put_oob", "reshape_bad",
            "setitem_str", "ufunc_out_badshape"]
HFAIL_AA = ["add_badshape", "setitem_badshape", "setitem_ndarray", "index_ndarray", "reshape_bad", "iadd_badshape",
            "astype_bad", "ufunc_out_badshape", "setitem_oob"]
HFAIL_KINDS = sorted(set(HFAIL_ND + HFAIL_AA))
HFAIL_EXC = (ValueError, TypeError, IndexError, RuntimeError)
FULL_KINDS = ["ift.full", "Field.full", "makeField_scalar", "from_raw_scalar", "Field.scalar"]
RANDOM_KINDS = ["ift.from_random", "Field.from_random"]
UNARY = ["neg", "abs", "pos", "real", "imag", "conjugate", "scale1", "at", "astype_same", "astype_c",
         "ptw_exp", "map_id", "map_view", "weight", "extract"]
BINARY = ["add", "sub", "mul", "mul_scalar", "radd_scalar", "pow2", "unite", "flexible_addsub"]
MF_HOW = ["from_raw", "makeField_dict", "from_dict", "from_dict_nodomain", "from_dict_missing", "full",
          "MultiField.full", "random", "ctor"]
MFPART_HOW = ["getitem", "to_dict", "values", "extract_by_keys"]
TOP_HANDLES = ["val", "val.val", "raw", "asnumpy", "val_rw", "asnumpy_rw", "val.asnumpy", "val.copy"]
RW_HANDLES = ("val_rw", "asnumpy_rw", "val.copy")
ND_DERIVE = ["view", "reshape", "slice", "rev", "ellipsis", "T", "real", "imag", "ravel", "asarray", "wrap",
             "bytes_view", "frombuffer", "expand"]
AA_DERIVE = ["val", "asnumpy", "view", "reshape", "slice", "rev", "ellipsis", "T", "real", "imag", "at", "copy",
             "astype_nocopy", "conj", "np_reshape", "rewrap"]
ND_WRITES = ["setitem", "setall", "iadd", "imul", "fill", "ufunc_out", "sort", "sort_rev",
             "partition", "put", "flat_set", "copyto", "putmask", "place", "byteswap", "negative_out",
             "real_set", "setfield", "buffer_write", "nditer", "round_out"]
AA_WRITES = ["setitem", "setall", "setitem_arr", "iadd", "isub", "imul", "itruediv", "ipow", "iadd_scalar",
             "ufunc_out", "copyto", "putmask", "round_out", "negative_out"]
# Implemented but NOT generated (recorded numpy defects, see KNOWN_PROBES): numpy 2.x `ufunc.at` and the
# `.real=` / `.imag=` setters of 0-d arrays ignore ndarray.flags.writeable, so they write into ANY read-only
# array (also a plain numpy one).  No NIFTy-side repair exists short of never handing out the live buffer.
NUMPY_HOLES = ["ufunc_at", "real_set_0d"]
OP_KINDS = ["makeOp", "DiagonalOperator", "Adder", "Adder_neg", "GaussianEnergy", "VdotOperator"]
WFAMILY = {"setitem": "item", "setall": "item", "setitem_arr": "item", "flat_set": "item", "put": "item",
           "iadd": "iop", "isub": "iop", "imul": "iop", "itruediv": "iop", "ipow": "iop", "iadd_scalar": "iop",
           "ufunc_out": "ufunc", "ufunc_at": "ufunc", "negative_out": "ufunc", "round_out": "func_out",
           "copyto": "func_out", "putmask": "func_out", "place": "func_out",
           "fill": "method", "sort": "method", "sort_rev": "method", "partition": "method", "byteswap": "method",
           "nditer": "item", "real_set": "method", "real_set_0d": "method", "setfield": "method", "buffer_write": "buffer"}


# ------------------------------------------------------------------ observation (harness side)
class TaggedArray(np.ndarray):
    """trivial user-defined ndarray subclass (module level: picklable)"""


def _raw(x):
    return x.val if isinstance(x, ift.AnyArray) else x


def _plain(a):
    """is `a` an instance of exactly np.ndarray with native byte order (else: 'exotic', see ASSUMPTIONS)"""
    return type(a) is np.ndarray and a.dtype.isnative


def _bytes(a):
    """content bytes of the data buffer (MaskedArray.tobytes would substitute the fill value)"""
    return np.asarray(a).tobytes()


def _shares(a, b):
    """exact overlap test with a work bound; 'too hard' counts as overlapping (conservative)"""
    try:
        return bool(np.shares_memory(a, b, max_work=2000))
    except np.exceptions.TooHardError:
        return True


def _asig(a):
    a = np.asarray(a)
    return (a.dtype.str, tuple(a.shape), a.tobytes())


def _sig(f):
    """bytes of a Field / MultiField, read without side effects"""
    if isinstance(f, ift.MultiField):
        return tuple((k,) + _asig(f[k].val.val) for k in f.domain.keys())
    return _asig(f.val.val)


def _sig_pub(f):
    """the same through the public numpy accessor"""
    if isinstance(f, ift.MultiField):
        d = f.asnumpy()
        return tuple((k,) + _asig(d[k]) for k in f.domain.keys())
    return _asig(f.asnumpy())


def _native(sig):
    """the same values in native byte order (numpy unpickles a non-native array as a native one)"""
    if sig and isinstance(sig[0], tuple):
        return tuple((s[0],) + _native(s[1:]) for s in sig)
    dt = np.dtype(sig[0])
    if dt.isnative:
        return tuple(sig)
    return _asig(np.frombuffer(sig[2], dtype=dt).reshape(sig[1]).astype(dt.newbyteorder("=")))


def _show(sig):
    if sig and isinstance(sig[0], tuple):
        return {s[0]: _show(s[1:]) for s in sig}
    return np.frombuffer(sig[2], dtype=np.dtype(sig[0])).reshape(sig[1]).tolist().__repr__()


def _values(vals, shape, dt):
    size = int(np.prod(shape, dtype=int))
    base = np.resize(np.array(list(vals) or [0.5], dtype=np.float64), size).reshape(shape)
    if dt == "c16":
        return (base + 1j * (0.5 - base[..., ::-1] if base.ndim else 0.5 - base)).astype(np.complex128)
    if dt == "i8":
        return np.round(base * 8).astype(np.int64)
    return base.astype(DT[dt])


def _probe_arr(shape, cplx):
    size = int(np.prod(shape, dtype=int))
    x = ((np.arange(size) % 5 - 2) * 0.5 + 0.25).reshape(shape)
    return x + 1j * (0.5 - x) if cplx else x


def _is_cplx(f):
    if isinstance(f, ift.MultiField):
        return any(np.iscomplexobj(f[k].val.val) for k in f.domain.keys())
    return np.iscomplexobj(f.val.val)


def _is_int(f):
    if isinstance(f, ift.MultiField):
        return any(f[k].val.val.dtype.kind in "iub" for k in f.domain.keys())
    return f.val.val.dtype.kind in "iub"


# ------------------------------------------------------------------ write kinds
def _adapt(raw, v):
    k = raw.dtype.kind
    if k == "u":
        return (abs(int(round(v * 8))) % 100) or 1
    if k == "i":
        return int(round(v * 8)) or 1
    if k == "b":
        return True
    if k == "c":
        return complex(v, 0.5 * v)
    return float(v)


def _ix(raw, pos):
    if raw.ndim == 0:
        return ()
    return tuple(int(i) for i in np.unravel_index(pos % raw.size, raw.shape))


def _w_nd(kind, a, pos, v, contig):
    """in-place write `kind` on ndarray a"""
    x = _adapt(a, v)
    if a.size == 0:
        a[...] = x
        return
    if kind in ("sort", "sort_rev", "partition") and a.ndim == 0:
        kind = "fill"
    if kind == "buffer_write" and not contig:
        kind = "setall"
    if kind == "real_set" and a.ndim == 0:
        kind = "setall"         # numpy hole (NUMPY_HOLES), excluded by construction
    if kind == "round_out" and a.ndim == 0 and a.dtype.kind == "c":
        kind = "negative_out"   # complex round goes through the 0-d .real/.imag setters: same numpy hole
    if kind == "real_set_0d":
        kind = "real_set"
    if kind == "setitem":
        a[_ix(a, pos)] = x
    elif kind == "setall":
        a[...] = x
    elif kind == "iadd":
        operator.iadd(a, x)
    elif kind == "imul":
        operator.imul(a, 2 if a.dtype.kind in "iu" else 1.5)
    elif kind == "fill":
        a.fill(x)
    elif kind == "ufunc_out":
        np.add(a, x, out=a)
    elif kind == "ufunc_at":
        np.add.at(a, _ix(a, pos) if a.ndim else (), x)
    elif kind == "sort":
        a.sort()
    elif kind == "sort_rev":
        a[..., ::-1].sort()
    elif kind == "partition":
        a[..., ::-1].partition(0)
    elif kind == "put":
        a.put(pos % a.size, x)
    elif kind == "flat_set":
        a.flat[pos % a.size] = x
    elif kind == "copyto":
        np.copyto(a, x)
    elif kind == "putmask":
        np.putmask(a, np.ones(a.shape, dtype=bool), x)
    elif kind == "place":
        np.place(a, np.ones(a.shape, dtype=bool), [x])
    elif kind == "byteswap":
        a.byteswap(inplace=True)
    elif kind == "negative_out":
        np.negative(a, out=a) if a.dtype.kind != "b" else np.logical_not(a, out=a)
    elif kind == "real_set":
        a.real = _adapt(a.real, v)
    elif kind == "setfield":
        a.setfield(x, a.dtype)
    elif kind == "buffer_write":
        mv = memoryview(a).cast("B")
        mv[0] = mv[0] ^ 0xFF
    elif kind == "nditer":
        with np.nditer(a, op_flags=["readwrite"]) as it:
            for cell in it:
                cell[...] = x
    elif kind == "round_out":
        np.round(a, 0, out=a) if a.dtype.kind != "b" else np.logical_not(a, out=a)
    else:
        raise KeyError(kind)


def _w_aa(kind, h, pos, v, contig):
    """write attempt `kind` through AnyArray h (goes through NIFTy's AnyArray code)"""
    a = h.val
    x = _adapt(a, v)
    if kind == "setitem":
        h[_ix(a, pos)] = x
    elif kind == "setall":
        h[...] = x
    elif kind == "setitem_arr":
        h[...] = ift.AnyArray(np.full(a.shape, x, dtype=a.dtype))
    elif kind in ("iadd", "isub", "imul", "itruediv", "ipow"):
        y = 2 if kind in ("imul", "itruediv", "ipow") else x
        getattr(operator, kind)(h, ift.AnyArray(np.full(a.shape, y, dtype=a.dtype)))
    elif kind == "iadd_scalar":
        operator.iadd(h, x)         # AnyArray.__iadd__ -> NotImplemented -> h + x (a new object, no write)
    elif kind == "ufunc_out":
        np.add(h, x, out=h)
    elif kind == "ufunc_at":
        np.add.at(h, _ix(a, pos) if a.ndim else (), x)
    elif kind == "copyto":
        np.copyto(h, x)
    elif kind == "putmask":
        np.putmask(h, ift.AnyArray(np.ones(a.shape, dtype=bool)), x)
    elif kind == "round_out":
        if a.ndim == 0 and a.dtype.kind == "c":
            np.negative(h, out=h)   # see _w_nd: numpy hole, excluded by construction
        else:
            np.round(h, 0, out=h)
    elif kind == "negative_out":
        np.negative(h, out=h) if a.dtype.kind != "b" else np.logical_not(h, out=h)
    else:
        raise KeyError(kind)


ALL_WRITES = sorted(set(ND_WRITES + AA_WRITES))


def _wkind_for(obj, name):
    """write kind by name; a name that does not exist for this target type maps to one that does"""
    lst = AA_WRITES if isinstance(obj, ift.AnyArray) else ND_WRITES
    if name == "ufunc_at" or (name == "real_set_0d" and lst is ND_WRITES):
        return name       # only reachable from hand-written recipes / probes (NUMPY_HOLES)
    if name in lst:
        return name
    return lst[ALL_WRITES.index(name) % len(lst)] if name in ALL_WRITES else lst[0]


# ------------------------------------------------------------------ derived handles
def _derive_nd(a, kind):
    if type(a) is not np.ndarray:
        try:
            return _derive_nd0(a, kind)
        except Exception:       # e.g. np.matrix cannot become 3-d
            return a.view()
    return _derive_nd0(a, kind)


def _derive_nd0(a, kind):
    small = a.ndim == 0 or a.size <= 1
    if kind == "view":
        return a.view()
    if kind == "reshape":
        return a.reshape(-1)
    if kind == "slice":
        return a[...] if small else a[1:]
    if kind == "rev":
        return a[...] if a.ndim == 0 else a[::-1]
    if kind == "ellipsis":
        return a[...]
    if kind == "T":
        return a.T
    if kind == "real":
        return a.real
    if kind == "imag":
        return a.imag if a.dtype.kind == "c" else a.real
    if kind == "ravel":
        return a.ravel()
    if kind == "asarray":
        return np.asarray(a)
    if kind == "wrap":
        return ift.AnyArray(a)
    if kind == "bytes_view":
        try:
            return a.view(np.uint8) if a.ndim else a.reshape(1).view(np.uint8)
        except ValueError:      # last axis not contiguous
            return a.view()
    if kind == "frombuffer":
        if a.flags.c_contiguous and a.size:
            return np.frombuffer(a, dtype=a.dtype).reshape(a.shape)
        return a.view()
    if kind == "expand":
        return a[None]
    raise KeyError(kind)


def _derive_aa(h, kind):
    if type(h.val) is not np.ndarray:
        try:
            return _derive_aa0(h, kind)
        except Exception:
            return h.view()
    return _derive_aa0(h, kind)


def _derive_aa0(h, kind):
    a = h.val
    small = a.ndim == 0 or a.size <= 1
    if kind == "val":
        return h.val
    if kind == "asnumpy":
        return h.asnumpy()
    if kind == "view":
        return h.view()
    if kind == "reshape":
        return h.reshape(-1)
    if kind == "slice":
        return h[...] if small else h[1:]
    if kind == "rev":
        return h[...] if a.ndim == 0 else h[::-1]
    if kind == "ellipsis":
        return h[...]
    if kind == "T":
        return h.T
    if kind == "real":
        return h.real
    if kind == "imag":
        return h.imag if a.dtype.kind == "c" else h.real
    if kind == "at":
        return h.at(-1)
    if kind == "copy":
        return h.copy()
    if kind == "astype_nocopy":
        return h.astype(a.dtype, copy=False)
    if kind == "conj":
        return h.conj()
    if kind == "np_reshape":
        return np.reshape(h, (-1,))
    if kind == "rewrap":
        return ift.AnyArray(h.val)
    raise KeyError(kind)


def _cgroup(ctor):
    """constructor group used in the constructor x handle x write-family histogram"""
    c = ctor.split("<")[0]
    if c in ARR_CTORS_S or c == "cast_domain":
        return c
    if c == "rejected" or c.startswith("copy_"):
        return c.split("_")[0]
    if c in FULL_KINDS:
        return "full"
    if c in RANDOM_KINDS or c == "mf_from_random":
        return "from_random"
    if c in ("real", "imag", "conjugate", "map_view"):
        return "view_of_field"
    if c in ("pos", "scale1", "at", "extract", "map_id", "mf_at"):
        return "same_field"
    if c.startswith("mf_part"):
        return "mf_part"
    if c.startswith("mf_from_dict"):
        return "mf_from_dict"
    if c in ("mf_from_raw", "mf_makeField_dict"):
        return "mf_from_raw"
    if c.startswith("mf_"):
        return "mf_full"
    return "arithmetic"


# ------------------------------------------------------------------ the history interpreter
class _Rec:
    """a registered array object: a construction source or a handle"""

    def __init__(self, obj, root, path, ctor, fidx, rwfam=None):
        self.obj, self.root, self.path, self.ctor, self.fidx, self.rwfam = obj, root, path, ctor, fidx, rwfam
        self.after_reject = False       # was (an alias of) this object the argument of a rejected call?
        # does this object, or an object it was derived from, wrap an ndarray SUBCLASS instance (its views and
        # conversions follow numpy's subclass rules, e.g. np.asarray(masked_0d) may be read-only)?
        self.exo = type(_raw(obj)) is not np.ndarray


class History:
    def __init__(self, rec):
        n = int(rec["n"])
        k = rec["dom"]
        if k == "u":
            self.main = ift.DomainTuple.make(ift.UnstructuredDomain(n))
            self.alt = ift.DomainTuple.make(ift.RGSpace(n))
        elif k == "rg":
            self.main = ift.DomainTuple.make(ift.RGSpace(n, distances=0.5))
            self.alt = ift.DomainTuple.make(ift.UnstructuredDomain(n))
        elif k == "s":
            self.main = ift.DomainTuple.scalar_domain()
            self.alt = ift.DomainTuple.make(())
        else:
            self.main = ift.DomainTuple.make((ift.RGSpace(n), ift.UnstructuredDomain(2)))
            self.alt = ift.DomainTuple.make((ift.UnstructuredDomain(n), ift.RGSpace(2)))
        self.bdom = ift.DomainTuple.make(ift.UnstructuredDomain(2))
        self.mdom = ift.MultiDomain.make({"a": self.main, "b": self.bdom})
        # domains no registered array / field of this history fits (sizes n+5 >= 6 never occur)
        self.wrong = [ift.DomainTuple.make(ift.UnstructuredDomain(n + 5)),
                      ift.DomainTuple.make((ift.UnstructuredDomain(n + 5), ift.RGSpace(3)))]
        self.tmp = None       # TemporaryDirectory of the memmap sources (created on demand, see close())
        self.nmm = 0
        self.fields = []      # dict(obj, snap, ctor)
        self.arrs = []        # _Rec
        self.keep = []        # hidden bases of view sources (never written)
        self.ops = []         # dict(op, kind, probe, snap, fidx)
        self.rw_consumed = set()
        self.classes = set()
        self.nontrivial = False
        self.nwrites = 0

    def close(self):
        """drop every reference to memory-mapped sources, then remove their directory"""
        self.fields, self.arrs, self.keep, self.ops = [], [], [], []
        if self.tmp is not None:
            self.tmp.cleanup()
            self.tmp = None

    def _exotic(self, *fields):
        return any(not _plain(leaf) for f in fields for leaf in self._leaves(f))

    def _tolerant(self, fields, label, fn):
        """run a NIFTy computation on fields; if one of them wraps an ndarray subclass / non-native dtype the
        computation itself may be unsupported (ASSUMPTIONS): then -> None"""
        if not self._exotic(*fields):
            return fn()
        try:
            return fn()
        except Exception:
            self.classes.add("exotic_unsupported:" + label)
            return None

    # ---------- registration
    def add_field(self, obj, ctor, expect=None):
        require(isinstance(obj, (ift.Field, ift.MultiField)), "constructor_result_type", f"{ctor}: {type(obj)}")
        snap = _sig(obj)
        if expect is not None:
            require(snap == expect, "constructed_value_differs_from_input",
                    f"{ctor}: field holds {_show(snap)} but was built from {_show(expect)}")
        self.fields.append(dict(obj=obj, snap=snap, ctor=ctor))
        self.classes.add("ctor:" + ctor)
        return len(self.fields) - 1

    def _field(self, i, want=None):
        """i-th field modulo; optionally the next one (cyclically) of the wanted type; None if absent"""
        n = len(self.fields)
        if n == 0:
            return None, None
        for d in range(n):
            j = (i + d) % n
            if want is None or isinstance(self.fields[j]["obj"], want):
                return j, self.fields[j]
        return None, None

    def _partner(self, j, g):
        """a field on the identical domain as fields[j], starting the search at g; None if there is none"""
        n = len(self.fields)
        dom = self.fields[j]["obj"].domain
        for d in range(n):
            c = (g + d) % n
            if self.fields[c]["obj"].domain is dom:
                return self.fields[c]["obj"]
        return None

    # ---------- sources
    def _fresh_source(self, kind, arr):
        """-> (object for the constructor, expected plain array, [(further object given to NIFTy, path)])"""
        extras = []
        if kind == "matrix" and arr.ndim != 2:
            kind = "subclass"
        if kind in ("view", "anyarray_view", "strided") and arr.ndim == 0:
            big = np.zeros(3, dtype=arr.dtype)
            big[1] = arr
            self.keep.append(big)
            src = big[1:2].reshape(())
        elif kind in ("view", "anyarray_view"):
            big = np.zeros((arr.shape[0] + 2,) + arr.shape[1:], dtype=arr.dtype)
            big[1:-1] = arr
            self.keep.append(big)
            src = big[1:-1]
        elif kind == "strided":
            big = np.zeros((2 * arr.shape[0],) + arr.shape[1:], dtype=arr.dtype)
            big[::2] = arr
            self.keep.append(big)
            src = big[::2]
        elif kind == "fortran":
            src = np.array(arr, order="F")
        elif kind == "byteswapped":
            arr = arr.astype(arr.dtype.newbyteorder("S"))
            src = np.array(arr)
        elif kind == "memmap":
            if self.tmp is None:
                self.tmp = tempfile.TemporaryDirectory(prefix="verif_c07_")
            self.nmm += 1
            src = np.memmap(os.path.join(self.tmp.name, f"src{self.nmm}.bin"), dtype=arr.dtype, mode="w+",
                            shape=arr.shape)
            src[...] = arr
        elif kind in ("masked", "masked_m"):
            mask = np.zeros(arr.shape, dtype=bool)
            if kind == "masked_m":
                mask[(0,) * arr.ndim] = True
            src = np.ma.masked_array(np.array(arr), mask=mask)
        elif kind == "matrix":
            src = np.matrix(np.array(arr))
        elif kind in ("subclass", "anyarray_subclass"):
            src = np.array(arr).view(TaggedArray)
        else:
            src = np.array(arr)
        if kind == "readonly":
            src.flags.writeable = False
        if kind in AA_SRC:
            if kind in ("anyarray_locked", "anyarray_subclass"):
                extras.append((src, "src.wrapped"))     # the array object that was handed to AnyArray(...)
            src = ift.AnyArray(src)
            if kind == "anyarray_locked":
                src.lock()
        return src, arr, extras, kind

    def _reusable(self, rec, shape):
        """may registered array `rec` be handed to a constructor? (see ASSUMPTIONS[0])"""
        raw = _raw(rec.obj)
        if tuple(raw.shape) != tuple(shape):
            return False
        for f in self.fields:
            for leaf in self._leaves(f["obj"]):
                if _shares(raw, leaf):
                    return True
        for other in self.arrs:
            if other is not rec and other.obj is not rec.obj and np.may_share_memory(raw, _raw(other.obj)):
                return False
        return True

    @staticmethod
    def _leaves(f):
        if isinstance(f, ift.MultiField):
            return [f[k].val.val for k in f.domain.keys()]
        return [f.val.val]

    def source(self, spec, shape, dt, vals):
        """-> (object handed to the constructor, expected array, record or list of extras, label)"""
        kind, i = spec[0], int(spec[1])
        if kind in ("reuse", "handle") and self.arrs:
            # "reuse": prefer construction sources, "handle": prefer handles
            n = len(self.arrs)
            order = [(i + d) % n for d in range(n)]
            pref = [j for j in order if (self.arrs[j].root == "src") == (kind == "reuse")]
            for j in pref[:1] or order[:1]:
                rec = self.arrs[j]
                if self._reusable(rec, shape):
                    if rec.rwfam is not None:
                        self.rw_consumed.add(rec.rwfam)
                    return (rec.obj, np.array(np.asarray(_raw(rec.obj))), rec,
                            ("from_source" if rec.root == "src" else "from_handle:" + rec.root))
            kind = "own"
        if kind not in SRC_KINDS:
            kind = "own"
        return self._fresh_source(kind, _values(vals, shape, dt))

    def _register_source(self, obj, rec, label, ctor, fidx):
        if not isinstance(rec, _Rec):
            for x, path in rec:
                self.arrs.append(_Rec(x, "src", path, f"{ctor}<{label}>", fidx))
            self.arrs.append(_Rec(obj, "src", "src", f"{ctor}<{label}>", fidx))
        self.classes.add(f"source:{label}" + ("(0d)" if _raw(obj).ndim == 0 else ""))

    # ---------- constructors
    def op_new(self, ctor, spec, dt, vals):
        if ctor not in ARR_CTORS_S or (ctor == "Field.scalar" and self.main.shape != ()):
            ctor = "Field"
        dt = dt if dt in DT else "f8"
        obj, arr, rec, label = self.source(spec, self.main.shape, dt, vals)
        if ctor == "Field":
            f = ift.Field(self.main, obj)
        elif ctor == "Field.scalar":
            f = ift.Field.scalar(obj)
        elif ctor == "from_raw":
            f = ift.Field.from_raw(self.main, obj)
        else:
            f = ift.makeField(self.main, obj)
        j = self.add_field(f, ctor, expect=_asig(arr))
        self._register_source(obj, rec, label, ctor, j)

    def op_full(self, which, v):
        if isinstance(v, dict):
            v = complex(v["re"], v["im"])
        if which == "Field.full":
            f, shape = ift.Field.full(self.main, v), self.main.shape
        elif which == "makeField_scalar":
            f, shape = ift.makeField(self.main, v), self.main.shape
        elif which == "from_raw_scalar":
            f, shape = ift.Field.from_raw(self.main, v), self.main.shape
        elif which == "Field.scalar":
            f, shape = ift.Field.scalar(v), ()
        else:
            which = "ift.full"
            f, shape = ift.full(self.main, v), self.main.shape
        self.add_field(f, which, expect=_asig(np.full(shape, v)))

    def op_random(self, which, seed, rtype, dt):
        dtype = DT.get(dt, np.float64)
        if rtype not in ("normal", "pm1", "uniform"):
            rtype = "normal"
        if rtype == "uniform":
            dtype = np.float64 if np.dtype(dtype).kind != "f" else dtype
        elif rtype == "normal" and np.dtype(dtype).kind == "i":
            dtype = np.float64
        kw = dict(low=-1., high=2.) if rtype == "uniform" else {}
        ift.random.push_sseq_from_seed(abs(int(seed)))
        try:
            if which == "Field.from_random":
                f = ift.Field.from_random(self.main, rtype, dtype, **kw)
            else:
                which = "ift.from_random"
                f = ift.from_random(self.main, rtype, dtype, **kw)
        finally:
            ift.random.pop_sseq()
        self.add_field(f, which)

    def op_cast(self, i):
        j, ent = self._field(i, ift.Field)
        if ent is None:
            return
        f = ent["obj"]
        tgt = self.alt if f.domain is self.main else (self.main if f.domain is self.alt else f.domain)
        self.add_field(f.cast_domain(tgt), "cast_domain", expect=(ent["snap"][0], tuple(tgt.shape), ent["snap"][2]))

    def op_copy(self, i, how):
        """pickle round trip / deepcopy / copy of a field: a new field with the same bytes"""
        j, ent = self._field(i)
        if ent is None:
            return
        f = ent["obj"]
        if how not in COPY_KINDS:
            how = "pickle"
        if how == "pickle":
            g = self._tolerant([f], how, lambda: pickle.loads(pickle.dumps(f)))
        elif how == "pickle5":
            def rt():
                bufs = []
                data = pickle.dumps(f, protocol=5, buffer_callback=bufs.append)
                return pickle.loads(data, buffers=[bytearray(b.raw()) for b in bufs])   # as if received
            g = self._tolerant([f], how, rt)
        elif how == "deepcopy":
            g = self._tolerant([f], how, lambda: copy.deepcopy(f))
        else:
            g = self._tolerant([f], how, lambda: copy.copy(f))
        if g is not None:
            jj = self.add_field(g, "copy_" + how)
            got = self.fields[jj]["snap"]
            require(_native(got) == _native(ent["snap"]), "constructed_value_differs_from_input",
                    f"copy_{how} of field #{j} ({ent['ctor']}): copy holds {_show(got)}, original {_show(ent['snap'])}")

    def op_unary(self, i, name):
        j, ent = self._field(i)
        if ent is None:
            return
        f = ent["obj"]
        if name not in UNARY:
            name = "neg"
        if name == "imag" and not all(np.iscomplexobj(x) for x in self._leaves(f)):
            name = "real"
        if name == "weight" and (_is_int(f) or isinstance(f, ift.MultiField)
                                 or not all(isinstance(d, ift.StructuredDomain) for d in f.domain)):
            name = "neg"     # no volume on unstructured domains; weight on integer fields: recorded C06 finding
        if name == "ptw_exp" and _is_int(f):
            name = "abs"
        mf = isinstance(f, ift.MultiField)
        if mf and name in ("scale1", "at", "astype_same", "astype_c", "map_id", "map_view", "pos"):
            name = {"at": "mf_at", "astype_same": "mf_astype"}.get(name, "conjugate")
        g = self._tolerant([f], "unary_" + name, lambda: self._unary(f, name))
        if g is not None:
            self.add_field(g, name if name in UNARY or name.startswith("mf_") else "extract")

    @staticmethod
    def _unary(f, name):
        if name == "neg":
            g = -f
        elif name == "abs":
            g = abs(f)
        elif name == "pos":
            g = +f
        elif name == "real":
            g = f.real
        elif name == "imag":
            g = f.imag
        elif name == "conjugate":
            g = f.conjugate()
        elif name == "scale1":
            g = f.scale(1)
        elif name == "at":
            g = f.at(-1)
        elif name == "mf_at":
            g = f.at(-1)
        elif name == "astype_same":
            g = f.astype(f.dtype)
        elif name == "mf_astype":
            g = f.astype(f.dtype)
        elif name == "astype_c":
            g = f.astype(np.complex128)
        elif name == "ptw_exp":
            g = f.ptw("exp")
        elif name == "map_id":
            g = f.map(lambda x: x)
        elif name == "map_view":
            g = f.map(lambda x: x.reshape(x.shape))
        elif name == "weight":
            g = f.weight(1)
        else:
            g = f.extract(f.domain)
        return g

    def op_binary(self, i, k, name, s):
        j, ent = self._field(i)
        if ent is None:
            return
        f = ent["obj"]
        if name not in BINARY:
            name = "add"
        g = self._partner(j, k)
        r = self._tolerant([f, g], "binary_" + name, lambda: self._binary(f, g, name, s))
        if r is not None:
            self.add_field(r, "binary_" + name)

    @staticmethod
    def _binary(f, g, name, s):
        if name == "add":
            r = f + g
        elif name == "sub":
            r = f - g
        elif name == "mul":
            r = f * g
        elif name == "mul_scalar":
            r = f * s
        elif name == "radd_scalar":
            r = s + f
        elif name == "pow2":
            r = f ** 2
        elif name == "unite":
            r = f.unite(g)
        else:
            r = f.flexible_addsub(g, True)
        return r

    def op_mf(self, how, specs, dt, vals, i, k):
        if how not in MF_HOW:
            how = "from_raw"
        dt = dt if dt in DT else "f8"
        if how in ("full", "MultiField.full"):
            v = float(vals[0]) if vals else 0.5
            f = ift.full(self.mdom, v) if how == "full" else ift.MultiField.full(self.mdom, v)
            exp = tuple((kk,) + _asig(np.full(self.mdom[kk].shape, v)) for kk in self.mdom.keys())
            return self.add_field(f, "mf_" + how, expect=exp)
        if how == "random":
            ift.random.push_sseq_from_seed(abs(int(i)) + 1)
            try:
                f = ift.from_random(self.mdom, "normal", DT[dt] if dt != "i8" else np.float64)
            finally:
                ift.random.pop_sseq()
            return self.add_field(f, "mf_from_random")
        if how in ("from_raw", "makeField_dict"):
            oa, aa, ra, la = self.source(specs[0], self.main.shape, dt, vals)
            ob, ab, rb, lb = self.source(specs[1], self.bdom.shape, dt, list(vals)[::-1])
            dct = {"a": oa, "b": ob}
            f = ift.MultiField.from_raw(self.mdom, dct) if how == "from_raw" else ift.makeField(self.mdom, dct)
            j = self.add_field(f, "mf_" + how, expect=(("a",) + _asig(aa), ("b",) + _asig(ab)))
            self._register_source(oa, ra, la, "mf_" + how, j)
            self._register_source(ob, rb, lb, "mf_" + how, j)
            return
        # from_dict variants: parts are existing fields where available, else fresh ones
        parts, exp = {}, []
        for key, dom, idx in (("a", self.main, i), ("b", self.bdom, k)):
            if how == "from_dict_missing" and key == "b":
                exp.append((key,) + _asig(np.zeros(dom.shape)))
                continue
            cand = None
            n = len(self.fields)
            for d in range(n):
                c = self.fields[(idx + d) % n]
                if isinstance(c["obj"], ift.Field) and c["obj"].domain is dom:
                    cand = c
                    break
            if cand is None:
                obj, arr, rec, label = self.source(["own", 0], dom.shape, dt, vals)
                fld = ift.Field.from_raw(dom, obj)
                jj = self.add_field(fld, "from_raw", expect=_asig(arr))
                self._register_source(obj, rec, label, "from_raw", jj)
                cand = self.fields[jj]
            parts[key] = cand["obj"]
            exp.append((key,) + cand["snap"])
        if how == "from_dict_nodomain":
            f = ift.MultiField.from_dict(parts)
        elif how == "ctor":
            f = ift.MultiField(self.mdom, tuple(parts[kk] for kk in self.mdom.keys()))
        else:
            f = ift.MultiField.from_dict(parts, self.mdom)
        self.add_field(f, "mf_" + how, expect=tuple(exp))

    def op_mfpart(self, i, key, how):
        j, ent = self._field(i, ift.MultiField)
        if ent is None:
            return
        f = ent["obj"]
        keys = list(f.domain.keys())
        key = key if key in keys else keys[0]
        if how == "to_dict":
            g = f.to_dict()[key]
        elif how == "values":
            g = f.values()[keys.index(key)]
        elif how == "extract_by_keys":
            g = f.extract_by_keys([key])
        else:
            how = "getitem"
            g = f[key]
        self.add_field(g, "mf_part_" + how)

    # ---------- handles
    def op_handle(self, i, kind, key):
        j, ent = self._field(i)
        if ent is None:
            return
        f = ent["obj"]
        if kind not in TOP_HANDLES:
            kind = "val"
        if isinstance(f, ift.MultiField):
            keys = list(f.domain.keys())
            key = key if key in keys else keys[0]
            if kind == "val":
                h = f.val[key]
            elif kind == "val.val":
                h = f.val[key].val
            elif kind == "raw":
                h = f[key].raw
            elif kind == "asnumpy":
                h = f.asnumpy()[key]
            elif kind == "val_rw":
                h = f.val_rw()[key]
            elif kind == "asnumpy_rw":
                h = f.asnumpy_rw()[key]
            elif kind == "val.asnumpy":
                h = f.val[key].asnumpy()
            else:
                h = f.val[key].copy()
        else:
            if kind == "val":
                h = f.val
            elif kind == "val.val":
                h = f.val.val
            elif kind == "raw":
                h = f.raw
            elif kind == "asnumpy":
                h = f.asnumpy()
            elif kind == "val_rw":
                h = f.val_rw()
            elif kind == "asnumpy_rw":
                h = f.asnumpy_rw()
            elif kind == "val.asnumpy":
                h = f.val.asnumpy()
            else:
                h = f.val.copy()
        want = ift.AnyArray if kind in ("val", "val_rw", "val.copy") else np.ndarray
        require(isinstance(h, want), "handle_type", f"{kind} returned {type(h)}")
        require(_asig(_raw(h)) == (ent["snap"] if isinstance(f, ift.Field) else
                                   [s[1:] for s in ent["snap"] if s[0] == key][0]),
                "handle_value_differs_from_field", f"{kind} of a field built by {ent['ctor']}")
        rwfam = len(self.arrs) if kind in RW_HANDLES else None
        self.arrs.append(_Rec(h, kind, kind, ent["ctor"], j, rwfam))
        self.classes.add("handle:" + kind)

    def op_derive(self, i, kind):
        if not self.arrs:
            return
        rec = self.arrs[i % len(self.arrs)]
        if isinstance(rec.obj, ift.AnyArray):
            kind = kind if kind in AA_DERIVE else AA_DERIVE[0]
            h = _derive_aa(rec.obj, kind)
        else:
            kind = kind if kind in ND_DERIVE else ND_DERIVE[0]
            h = _derive_nd(rec.obj, kind)
        if not isinstance(h, (np.ndarray, ift.AnyArray)):
            self.classes.add("derive_gave_scalar")
            return
        self.arrs.append(_Rec(h, rec.root, rec.path + "~" + kind, rec.ctor, rec.fidx, rec.rwfam))
        self.arrs[-1].exo = self.arrs[-1].exo or rec.exo
        self.arrs[-1].after_reject = rec.after_reject
        self.classes.add(("derive_aa:" if isinstance(rec.obj, ift.AnyArray) else "derive_nd:") + kind)

    # ---------- derived operators
    def op_op(self, i, kind):
        j, ent = self._field(i)
        if ent is None:
            return
        f = ent["obj"]
        if kind not in OP_KINDS:
            kind = "makeOp"
        mf = isinstance(f, ift.MultiField)
        if kind == "GaussianEnergy" and _is_int(f):
            kind = "Adder_neg"               # documented: data of a Gaussian energy must be floating
        if mf and kind in ("DiagonalOperator", "VdotOperator"):
            kind = "makeOp"
        cplx = _is_cplx(f)
        dom = f.domain
        if isinstance(dom, ift.MultiDomain):
            probe = ift.MultiField.from_raw(dom, {k: _probe_arr(dom[k].shape, cplx) for k in dom.keys()})
        else:
            probe = ift.Field.from_raw(dom, _probe_arr(dom.shape, cplx))

        def build():
            if kind == "makeOp":
                op = ift.makeOp(f)
            elif kind == "DiagonalOperator":
                op = ift.DiagonalOperator(f)
            elif kind == "Adder":
                op = ift.Adder(f)
            elif kind == "Adder_neg":
                op = ift.Adder(f, neg=True)
            elif kind == "GaussianEnergy":
                op = ift.GaussianEnergy(data=f)
            else:
                op = ift.VdotOperator(f)
            return op, self._eval(kind, op, probe)
        built = self._tolerant([f], "op_" + kind, build)
        if built is None:
            return
        self.ops.append(dict(op=built[0], kind=kind, probe=probe, fidx=j, snap=built[1]))
        self.classes.add("op:" + kind + ("(multi)" if mf else ""))

    @staticmethod
    def _eval(kind, op, probe):
        if kind == "GaussianEnergy":
            lin = op(ift.Linearization.make_var(probe))
            return (_sig(lin.val), _sig(lin.gradient))
        return _sig(op(probe))

    # ---------- rejected constructor calls and other failing operations
    def _wrongdom(self, shape):
        return [d for d in self.wrong if tuple(d.shape) != tuple(shape)][0]

    def op_reject(self, how, spec, dt, vals):
        """a constructor call that has to be rejected, made with a registered array (source or handle; ANY
        registered one - no field results, so no new alias can arise) or with a fresh array (registered afterwards)"""
        if how not in REJECT:
            how = REJECT_KINDS[0]
        kind, i = spec[0], int(spec[1])
        dt = dt if dt in DT else "f8"
        rec = None
        if kind in ("reuse", "handle") and self.arrs:
            n = len(self.arrs)
            order = [(i + d) % n for d in range(n)]
            pref = [j for j in order if (self.arrs[j].root == "src") == (kind == "reuse")]
            rec = self.arrs[(pref or order)[0]]
            obj, label = rec.obj, ("registered_source" if rec.root == "src" else "registered_handle:" + rec.root)
        else:
            obj, _, extras, label = self._fresh_source(kind if kind in SRC_KINDS else "own",
                                                       _values(vals, self.main.shape, dt))
            for x, path in extras:
                self.arrs.append(_Rec(x, "src", path, f"rejected<{label}>", None))
            self.arrs.append(_Rec(obj, "src", "src", f"rejected<{label}>", None))
        shape = tuple(_raw(obj).shape)
        if how == "Field_scalar_nonscalar" and shape == ():
            how = "Field_wrongshape"
        wrong = self._wrongdom(shape)
        allowed = REJECT[how] if _plain(_raw(obj)) else Exception      # ndarray subclass: see ASSUMPTIONS
        try:
            if how == "Field_wrongshape":
                r = ift.Field(wrong, obj)
            elif how == "from_raw_wrongshape":
                r = ift.Field.from_raw(wrong, obj)
            elif how == "makeField_wrongshape":
                r = ift.makeField(wrong, obj)
            elif how == "Field_scalar_nonscalar":
                r = ift.Field.scalar(obj)
            elif how == "Field_domain_not_tuple":
                r = ift.Field(ift.UnstructuredDomain(3), obj)
            elif how == "Field_mdom":
                r = ift.Field(self.mdom, obj)
            elif how == "from_raw_mdom":
                r = ift.Field.from_raw(self.mdom, obj)
            elif how == "makeField_mdom_nondict":
                r = ift.makeField(self.mdom, obj)
            elif how == "mf_from_raw_missing_key":
                r = ift.MultiField.from_raw(self.mdom, {"a": obj})
            elif how == "mf_from_raw_wrongshape":
                r = ift.MultiField.from_raw(self.mdom, {"a": obj, "b": np.zeros(5)})
            elif how == "MultiField_ctor_array":
                r = ift.MultiField(self.mdom, (obj, obj))
            elif how == "full_array":
                r = ift.full(self.main, obj)
            else:
                r = ift.DiagonalOperator(obj)
            exc = None
        except allowed as e:
            exc = e
        what = f"rejected call {how} with {label} ({type(_raw(obj)).__name__}, shape {shape})"
        if exc is None:
            # not C07's business (the statement is about values, not about argument validation): keep going
            self.classes.add("rejectable_call_was_accepted:" + how)
            del r
        else:
            self.classes.add("exc_reject:" + type(exc).__name__)
        # the call may have locked its argument (Field.__init__ locks first): rw copies are released
        if rec is not None and rec.rwfam is not None:
            self.rw_consumed.add(rec.rwfam)
        raw = _raw(obj)
        for other in self.arrs:
            if other.obj is obj or _shares(raw, _raw(other.obj)):
                other.after_reject = True
        self.classes.add("reject:" + how)
        self.classes.add("reject_arg:" + label)
        self.check("by_rejected_call", what)

    def op_ffail(self, i, how):
        """an operation on a field that has to fail (mismatching domain, bad cast, ...)"""
        j, ent = self._field(i)
        if ent is None:
            return
        f = ent["obj"]
        if how not in FFAIL:
            how = "add_mismatch"
        mf = isinstance(f, ift.MultiField)
        if mf and how in ("cast_wrongshape", "unite_mismatch", "flexible_addsub_mismatch", "extract_wrong", "bool",
                          "astype_bad"):
            how = "add_mismatch"
        shape = () if mf else tuple(f.domain.shape)
        wrong = self._wrongdom(shape)
        pw = ift.full(wrong, 1.)
        # a field around an ndarray subclass may fail earlier and differently (ASSUMPTIONS), e.g. makeOp of a
        # scalar-domain field whose value is a masked 0-d array
        allowed = Exception if self._exotic(f) else FFAIL[how]
        try:
            if how == "cast_wrongshape":
                f.cast_domain(wrong)
            elif how == "add_mismatch":
                f + pw
            elif how == "mul_mismatch":
                pw * f
            elif how == "vdot_mismatch":
                f.vdot(pw)
            elif how == "unite_mismatch":
                f.unite(pw)
            elif how == "flexible_addsub_mismatch":
                f.flexible_addsub(pw, False)
            elif how == "makeOp_wrong_input":
                ift.makeOp(f)(pw)
            elif how == "Adder_wrong_input":
                ift.Adder(f)(pw)
            elif how == "extract_wrong":
                f.extract(wrong)
            elif how == "bool":
                bool(f)
            elif how == "astype_bad":
                f.astype("no_such_dtype")
            elif how == "mf_ctor_wrongdom":
                ift.MultiField(self.mdom, (f, pw))
            elif how == "from_dict_wrongdom":
                ift.MultiField.from_dict({"a": pw, "b": f}, self.mdom)
            else:
                f["no_such_key"]
            self.classes.add("failing_op_was_accepted:" + how)
        except allowed as e:
            self.classes.add("exc_ffail:" + type(e).__name__)
        self.classes.add("ffail:" + how + ("(multi)" if mf else ""))
        self.check("by_failing_field_operation", f"failing operation {how} on field #{j} ({ent['ctor']})")

    def op_hfail(self, i, how):
        """an operation on a registered array / AnyArray that has to fail for a reason other than write protection
        (bad shape, bad index, bad type); nothing may change"""
        if not self.arrs:
            return
        rec = self.arrs[i % len(self.arrs)]
        h = rec.obj
        isaa = isinstance(h, ift.AnyArray)
        lst = HFAIL_AA if isaa else HFAIL_ND
        if how not in lst:
            how = lst[HFAIL_KINDS.index(how) % len(lst)] if how in HFAIL_KINDS else lst[0]
        raw = _raw(h)
        bad = np.zeros(tuple(raw.shape) + (raw.size + 3,), dtype=raw.dtype)     # never broadcastable to raw
        allowed = HFAIL_EXC if (isaa and type(raw) is np.ndarray) else Exception
        try:
            if isaa:
                if how == "add_badshape":
                    h + ift.AnyArray(bad)
                elif how == "setitem_badshape":
                    h[...] = ift.AnyArray(bad)
                elif how == "setitem_ndarray":
                    h[...] = np.array(raw, copy=True).view(TaggedArray)
                elif how == "index_ndarray":
                    h[np.zeros(1, dtype=np.int64)]
                elif how == "reshape_bad":
                    h.reshape((raw.size + 3,))
                elif how == "iadd_badshape":
                    operator.iadd(h, ift.AnyArray(bad))
                elif how == "astype_bad":
                    h.astype("no_such_dtype")
                elif how == "ufunc_out_badshape":
                    np.add(h, h, out=ift.AnyArray(bad))
                else:
                    h[(raw.size + 3,) * max(raw.ndim, 1)] = 1
            else:
                if how == "setitem_badshape":
                    h[...] = bad
                elif how == "iadd_badshape":
                    operator.iadd(h, bad)
                elif how == "copyto_badshape":
                    np.copyto(h, bad)
                elif how == "setitem_oob":
                    h[(raw.size + 3,) * max(raw.ndim, 1)] = 1
                elif how == "put_oob":
                    h.put(raw.size + 3, 1)
                elif how == "reshape_bad":
                    h.reshape((raw.size + 3,))
                elif how == "setitem_str":
                    h[...] = "not a number"
                else:
                    np.add(h, h, out=bad)
            self.classes.add("failing_op_was_accepted:" + how)
        except allowed as e:
            self.classes.add("exc_hfail:" + type(e).__name__)
        self.classes.add(("hfail_aa:" if isaa else "hfail_nd:") + how)
        self.check("by_failing_handle_operation",
                   f"failing operation {how} on {rec.path} ({'AnyArray' if isaa else type(raw).__name__}) of a field "
                   f"built by {rec.ctor}")

    # ---------- write attempts
    def op_write(self, i, wkind, pos, v):
        if not self.arrs:
            return
        rec = self.arrs[i % len(self.arrs)]
        tgt = rec.obj
        isaa = isinstance(tgt, ift.AnyArray)
        wkind = _wkind_for(tgt, wkind)
        fn = _w_aa if isaa else _w_nd
        raw = _raw(tgt)
        if raw.size == 0:
            wkind = "setall"        # empty slice: nothing to address
        contig = bool(raw.flags.c_contiguous)
        # twin: would numpy accept this write on a plain writable copy, and would it change anything?
        # ndarray subclass (or derived from one): numpy's subclass code decides how to refuse
        exotic = type(raw) is not np.ndarray or rec.exo
        refusal = Exception if exotic else REFUSAL
        twin_raw = np.array(np.asarray(raw), copy=True)
        twin = ift.AnyArray(twin_raw) if isaa else twin_raw
        t0 = twin_raw.tobytes()
        try:
            fn(wkind, twin, pos, v, contig)
            applicable = True
        except REFUSAL:
            applicable = False
        effective = applicable and twin_raw.tobytes() != t0
        aliases = any(_shares(raw, leaf) for f in self.fields for leaf in self._leaves(f["obj"]))
        pre = _bytes(raw)
        exc = None
        try:
            fn(wkind, tgt, pos, v, contig)
        except refusal as e:
            exc = e
        wrote = _bytes(raw) != pre
        if exc is not None:
            outcome = "refused" if applicable else "inapplicable_dtype"
        elif wrote:
            outcome = "wrote_to_alias" if aliases else "wrote_to_copy"
        else:
            outcome = "no_effect" if effective else "noop"
        self.nwrites += 1
        via = "source" if rec.root == "src" else "handle"
        what = (f"write '{wkind}' through {rec.path} ({'AnyArray' if isaa else 'ndarray'}) of a field built by "
                f"{rec.ctor}: outcome {outcome}" + (f" [{type(exc).__name__}: {exc}]" if exc else ""))
        self.check(f"by_write_via_{via}", what)
        if (exc is not None and applicable and rec.rwfam is not None and rec.rwfam not in self.rw_consumed
                and not exotic):
            raise Violation("rw_copy_refuses_write", what + " - but the handle is a documented writable copy")
        if effective and aliases:
            self.nontrivial = True
        depth = rec.path.count("~")
        root = rec.root + (".aa" if isaa and rec.root == "src" else "") + ("~v" if depth else "")
        self.classes.add(f"{_cgroup(rec.ctor)}|{root}|{WFAMILY[wkind]}")
        self.classes.add(("write_aa:" if isaa else "write_nd:") + wkind)
        if type(raw) is not np.ndarray:
            self.classes.add("write_target:" + type(raw).__name__)
        elif not raw.dtype.isnative:
            self.classes.add("write_target:non_native_dtype")
        if raw.ndim == 0:
            self.classes.add("write_target:0d")
        if rec.after_reject:
            self.classes.add("write_after_rejected_call_with_target" + ("(alias)" if aliases else "(copy)"))
        self.classes.add("outcome:" + outcome + ("(alias)" if aliases else "(copy)"))
        if exc is not None:
            self.classes.add("exc:" + type(exc).__name__)
        if depth <= 2:
            self.classes.add("path:" + rec.path)

    # ---------- invariant
    def check(self, kindsuffix, what, with_ops=True):
        for j, ent in enumerate(self.fields):
            now = _sig(ent["obj"])
            if now != ent["snap"]:
                raise Violation("field_changed_" + kindsuffix,
                                f"field #{j} built by {ent['ctor']} changed from {_show(ent['snap'])} to "
                                f"{_show(now)} after: {what}")
        if with_ops:
            for o in self.ops:
                now = self._eval(o["kind"], o["op"], o["probe"])
                if now != o["snap"]:
                    raise Violation("operator_changed_" + kindsuffix,
                                    f"{o['kind']} built from field #{o['fidx']} "
                                    f"({self.fields[o['fidx']]['ctor']}) maps the probe to a different result "
                                    f"after: {what}")

    def final(self):
        for j, ent in enumerate(self.fields):
            now = _sig_pub(ent["obj"])
            require(now == ent["snap"], "asnumpy_differs_from_snapshot",
                    f"field #{j} built by {ent['ctor']}: asnumpy() gives {_show(now)}, constructed as {_show(ent['snap'])}")
        self.check("at_end", "end of history")

    # ---------- dispatcher
    def step(self, op):
        k = op[0]
        if k == "new":
            self.op_new(op[1], op[2], op[3], op[4])
        elif k == "full":
            self.op_full(op[1], op[2])
        elif k == "random":
            self.op_random(op[1], op[2], op[3], op[4])
        elif k == "cast":
            self.op_cast(op[1])
        elif k == "unary":
            self.op_unary(op[1], op[2])
        elif k == "binary":
            self.op_binary(op[1], op[2], op[3], op[4])
        elif k == "mf":
            self.op_mf(op[1], op[2], op[3], op[4], op[5], op[6])
        elif k == "mfpart":
            self.op_mfpart(op[1], op[2], op[3])
        elif k == "handle":
            self.op_handle(op[1], op[2], op[3])
        elif k == "derive":
            self.op_derive(op[1], op[2])
        elif k == "op":
            self.op_op(op[1], op[2])
        elif k == "copy":
            self.op_copy(op[1], op[2])
        elif k == "reject":
            return self.op_reject(op[1], op[2], op[3], op[4])   # these check the invariant themselves
        elif k == "ffail":
            return self.op_ffail(op[1], op[2])
        elif k == "hfail":
            return self.op_hfail(op[1], op[2])
        elif k == "write":
            return self.op_write(op[1], op[2], op[3], op[4])   # checks the invariant itself
        else:
            raise KeyError(k)
        self.check("by_" + ("construction" if k not in ("handle", "derive", "op") else
                            {"handle": "handle_access", "derive": "handle_access", "op": "operator_construction"}[k]),
                   f"step {list(op)[:3]}")


def check(rec):
    h = History(rec)
    try:
        with np.errstate(all="ignore"):       # exp/pow chains may overflow to inf: irrelevant for byte identity
            for op in rec["ops"]:
                h.step(op)
            h.final()
    finally:
        h.close()
    h.classes.add(f"dom:{rec['dom']}")
    if h.nwrites == 0:
        h.classes.add("no_write_attempt")
    return dict(nontrivial=h.nontrivial, classes=sorted(h.classes))


# ------------------------------------------------------------------ strategies (random histories)
IDX = st.one_of(st.just(-1), st.just(-1), st.integers(0, 11))     # favour the most recent field / array
VALS = st.lists(S.dyadic(-4, 4, 8), min_size=1, max_size=6)
DTS = st.sampled_from(["f8", "f8", "c16", "c16", "i8", "f4"])
VNZ = S.dyadic_nz(0.25, 3.0, 8)
KEY = st.sampled_from(["a", "b"])


def _lst(*parts):
    return st.tuples(*parts).map(list)


def _srcspec():
    return st.one_of(_lst(st.sampled_from(SRC_KINDS), st.just(0)),
                     _lst(st.sampled_from(SRC_KINDS), st.just(0)),
                     _lst(st.just("reuse"), IDX),
                     _lst(st.just("handle"), IDX))


def _argspec():
    """argument of a rejected call: mostly something that is already registered (source / handle)"""
    return st.one_of(_lst(st.just("reuse"), IDX), _lst(st.just("reuse"), IDX), _lst(st.just("handle"), IDX),
                     _lst(st.just("handle"), IDX), _lst(st.sampled_from(SRC_KINDS), st.just(0)))


def _op_strategies(multi):
    new = _lst(st.just("new"), st.sampled_from(ARR_CTORS_S), _srcspec(), DTS, VALS)
    full = _lst(st.just("full"), st.sampled_from(FULL_KINDS),
                st.one_of(S.dyadic(-2, 2, 4), st.integers(-3, 3),
                          st.fixed_dictionaries({"re": S.dyadic(-2, 2, 4), "im": S.dyadic(-2, 2, 4)})))
    rnd = _lst(st.just("random"), st.sampled_from(RANDOM_KINDS), st.integers(0, 2**16),
               st.sampled_from(["normal", "pm1", "uniform"]), DTS)
    cast = _lst(st.just("cast"), IDX)
    unary = _lst(st.just("unary"), IDX, st.sampled_from(UNARY))
    binary = _lst(st.just("binary"), IDX, IDX, st.sampled_from(BINARY), VNZ)
    mf = _lst(st.just("mf"), st.sampled_from(MF_HOW), _lst(_srcspec(), _srcspec()), DTS, VALS, IDX, IDX)
    mfpart = _lst(st.just("mfpart"), IDX, KEY, st.sampled_from(MFPART_HOW))
    handle = _lst(st.just("handle"), IDX, st.sampled_from(TOP_HANDLES), KEY)
    derive = _lst(st.just("derive"), IDX, st.sampled_from(sorted(set(ND_DERIVE + AA_DERIVE))))
    write = _lst(st.just("write"), IDX, st.sampled_from(ALL_WRITES), st.integers(0, 7), VNZ)
    opb = _lst(st.just("op"), IDX, st.sampled_from(OP_KINDS))
    cpy = _lst(st.just("copy"), IDX, st.sampled_from(COPY_KINDS))
    reject = _lst(st.just("reject"), st.sampled_from(REJECT_SHAPE + REJECT_KINDS), _argspec(), DTS, VALS)
    ffail = _lst(st.just("ffail"), IDX, st.sampled_from(FFAIL_KINDS))
    hfail = _lst(st.just("hfail"), IDX, st.sampled_from(HFAIL_KINDS))
    if multi:
        first = st.one_of(new, mf, mf, mf)
        construct = st.one_of(new, full, cast, unary, binary, mf, mf, mf, mfpart, mfpart, cpy)
    else:
        first = st.one_of(new, new, new, full, rnd)
        construct = st.one_of(new, new, new, new, full, rnd, cast, cast, unary, unary, unary, binary, cpy, cpy)
    use = st.one_of(handle, handle, handle, derive, derive, opb, write, write, reject, reject, st.one_of(ffail, hfail))
    return first, construct, use, write


def histories(multi):
    """a history = 1..6 segments [constructor, 0..4 x (handle | derive | operator | write), write, 0..2 x (...)],
    cut at `steps`;
    all indices are free, so a write in a late segment may go through a source or handle of an early one"""
    def strat(tier):
        steps = 30 if tier == "quick" else 60
        first, construct, use, write = _op_strategies(multi)

        @st.composite
        def ops(draw):
            out = []
            for k in range(draw(st.integers(1, 6 if tier == "quick" else 12))):
                out.append(draw(first if k == 0 else construct))
                out += draw(st.lists(use, min_size=0, max_size=4))
                out.append(draw(write))
                out += draw(st.lists(use, min_size=0, max_size=2))
            return out[:steps]

        return st.fixed_dictionaries({
            "dom": st.sampled_from(["u", "u", "rg", "2d", "2d", "s", "s"]),
            "n": st.integers(1, 4),
            "ops": ops(),
        })
    return strat


# ------------------------------------------------------------------ exhaustive single-write matrix
_MV = [0.5, -1.25, 2.0, 0.75]


def _ctor_variants(tier):
    """(name, ops building the field under test as the LAST field, type of the source object arrs[0] or None)"""
    out = []
    dts = ["f8"] if tier == "quick" else ["f8", "c16", "i8", "f4"]
    for ctor in ARR_CTORS:
        for sk in SRC_KINDS0:
            for dt in dts:
                out.append((f"{ctor}<{sk}>{dt}", [["new", ctor, [sk, 0], dt, _MV]], "aa" if sk.startswith("anyarray") else "nd"))
    for how in (COPY_KINDS if tier != "quick" else ["pickle", "deepcopy"]):
        out.append((f"copy_{how}", [["new", "from_raw", ["anyarray", 0], "f8", _MV], ["copy", -1, how]], "aa"))
    for w in FULL_KINDS:
        out.append((w, [["full", w, 1.5]], None))
        out.append((w + "_complex", [["full", w, {"re": 0.5, "im": 0.25}]], None))
    for w in RANDOM_KINDS:
        out.append((w, [["random", w, 7, "normal", "f8"]], None))
    base_c = ["new", "Field", ["own", 0], "c16", _MV]
    base_f = ["new", "from_raw", ["anyarray", 0], "f8", _MV]
    out.append(("cast_domain", [base_f, ["cast", -1]], "aa"))
    for u in UNARY:
        out.append((f"unary_{u}", [base_c if u not in ("weight",) else base_f, ["unary", -1, u]],
                    "nd" if u not in ("weight",) else "aa"))
    for b in BINARY:
        out.append((f"binary_{b}", [base_f, ["binary", -1, -1, b, 1.5]], "aa"))
    for how in MF_HOW:
        out.append((f"mf_{how}", [["mf", how, [["own", 0], ["anyarray", 0]], "f8", _MV, 0, 0]],
                    "nd" if how in ("from_raw", "makeField_dict", "from_dict", "from_dict_nodomain",
                                    "from_dict_missing") else None))
    for how in MFPART_HOW:
        out.append((f"mfpart_{how}", [["mf", "from_raw", [["own", 0], ["own", 0]], "c16", _MV, 0, 0],
                                      ["mfpart", -1, "a", how]], "nd"))
    return out


_DERIVED_WRITES_ND = ["setitem", "iadd", "ufunc_out", "fill", "copyto"]
_DERIVED_WRITES_AA = ["setitem", "iadd", "ufunc_out", "copyto"]
_AA_TOP = ("val", "val_rw", "val.copy")


def _derived_paths(prefix, root_is_aa):
    """[(ops, target_is_aa, is_derived)] for an access path `prefix` (ops that register the root array)"""
    out = [(prefix, root_is_aa, False)]
    for dk in (AA_DERIVE if root_is_aa else ND_DERIVE):
        if root_is_aa:
            is_aa = dk not in ("val", "asnumpy")
        else:
            is_aa = dk == "wrap"
        out.append((prefix + [["derive", -1 if prefix else 0, dk]], is_aa, True))
    return out


_ND_DERIVE_0D = ["view", "reshape", "real", "wrap", "bytes_view", "frombuffer"]
_AA_DERIVE_0D = ["val", "view", "reshape", "real", "copy", "rewrap"]


def _source_cases(tier):
    """every array constructor x every NEW source kind (ndarray subclasses, read-only, non-native, locked
    wrappers) and, on the scalar domain, x every source kind as a 0-d array: all write kinds through every
    object that was handed to NIFTy (the source object, for wrappers also the wrapped array) and through
    their views"""
    cases = []
    dts = ["f8"] if tier == "quick" else ["f8", "c16", "i8"]
    todo = [("u", 3, ARR_CTORS, [k for k in SRC_KINDS_NEW if k != "matrix"]), ("2d", 2, ARR_CTORS, ["matrix"]),
            ("s", 1, ARR_CTORS_S, [k for k in SRC_KINDS if k != "matrix"])]
    if tier != "quick":
        todo.append(("2d", 2, ARR_CTORS, [k for k in SRC_KINDS_NEW if k != "matrix"]))
    ci = 0
    for dom, n, ctors, kinds in todo:
        for ctor in ctors:
            for sk in kinds:
                for dt in dts:
                    ci += 1
                    pre = [["new", ctor, [sk, 0], dt, _MV], ["op", -1, OP_KINDS[ci % len(OP_KINDS)]]]
                    # registered objects: [wrapped array (only anyarray_locked / anyarray_subclass)], source
                    objs = [(0, False), (1, True)] if sk in ("anyarray_locked", "anyarray_subclass") else \
                        [(0, sk in AA_SRC)]
                    for tgt, is_aa in objs:
                        for wk in (AA_WRITES if is_aa else ND_WRITES):
                            cases.append({"dom": dom, "n": n, "ops": pre + [["write", tgt, wk, 1, 0.75]]})
                        dks = AA_DERIVE if is_aa else ND_DERIVE
                        if dom == "s" and tier == "quick":      # most view kinds coincide for a 0-d array
                            dks = _AA_DERIVE_0D if is_aa else _ND_DERIVE_0D
                        for dk in dks:
                            d_aa = (dk not in ("val", "asnumpy")) if is_aa else dk == "wrap"
                            for wk in (_DERIVED_WRITES_AA if d_aa else _DERIVED_WRITES_ND):
                                cases.append({"dom": dom, "n": n,
                                              "ops": pre + [["derive", tgt, dk], ["write", -1, wk, 1, 0.75]]})
    return cases


def _reject_cases(tier):
    """constructor x (rejected constructor call | failing field operation | failing handle operation) made with
    the source object or a handle of the field x later write through the source / raw / val"""
    cases = []
    kinds = ["own", "anyarray", "readonly"] if tier == "quick" else SRC_KINDS
    for dom, n in [("u", 3), ("s", 1)]:
        for ctor in (ARR_CTORS if dom != "s" else ARR_CTORS_S if tier != "quick" else ["makeField", "Field.scalar"]):
            for sk in kinds:
                pre = [["new", ctor, [sk, 0], "f8", _MV], ["op", -1, "makeOp"],
                       ["handle", -1, "raw", "a"], ["handle", -1, "val", "a"], ["handle", -1, "asnumpy", "a"],
                       ["handle", -1, "val.val", "a"], ["handle", -1, "val_rw", "a"]]
                # arrs: 0 = source, 1 = raw, 2 = val, 3 = asnumpy, 4 = val.val, 5 = val_rw
                for how in REJECT_KINDS:
                    for arg in range(6):
                        for tgt in ((0, 1, 2) if tier != "quick" else (0, 1) if arg != 2 else (2,)):
                            cases.append({"dom": dom, "n": n, "ops": pre + [
                                ["reject", how, ["reuse" if arg == 0 else "handle", arg], "f8", _MV],
                                ["write", tgt, "setitem", 1, 0.75]]})
                if sk in ("own", "anyarray"):
                    for how in FFAIL_KINDS:
                        for tgt in (0, 1, 2):
                            cases.append({"dom": dom, "n": n, "ops": pre + [["ffail", -1, how],
                                                                           ["write", tgt, "iadd", 1, 0.75]]})
                    for how in HFAIL_KINDS:
                        for arg in range(6):
                            cases.append({"dom": dom, "n": n, "ops": pre + [["hfail", arg, how],
                                                                           ["write", arg, "setitem", 1, 0.75]]})
    return cases


def matrix_cases(tier, seed):
    cases = _source_cases(tier) + _reject_cases(tier)
    doms = [("u", 3)] if tier == "quick" else [("u", 3), ("2d", 2), ("rg", 1)]
    for dom, n in doms:
        for ci, (name, cops, src) in enumerate(_ctor_variants(tier)):
            okind = OP_KINDS[ci % len(OP_KINDS)]
            pre = list(cops) + [["op", -1, okind]]
            paths = []
            if src is not None:
                # arrs[0] is the source object of the first construction of the history
                for pops, is_aa, derived in _derived_paths([], src == "aa"):
                    paths.append((pops, 0 if not pops else -1, is_aa, derived))
            multi = name.startswith("mf_")
            for hk in TOP_HANDLES:
                for key in (["a", "b"] if multi else ["a"]):
                    for pops, is_aa, derived in _derived_paths([["handle", -1, hk, key]], hk in _AA_TOP):
                        paths.append((pops, -1, is_aa, derived))
            for pops, tgt, is_aa, derived in paths:
                if derived:
                    names = _DERIVED_WRITES_AA if is_aa else _DERIVED_WRITES_ND
                else:
                    names = AA_WRITES if is_aa else ND_WRITES
                for wk in names:
                    cases.append({"dom": dom, "n": n, "ops": pre + pops + [["write", tgt, wk, 1, 0.75]]})
    return cases


# ------------------------------------------------------------------ probes for recorded, excluded regions
def _probe(recipe, tag):
    try:
        check(recipe)
    except Violation as v:
        return f"{tag}: {v.detail[:300]}"
    return None


def probe_numpy_ufunc_at():
    """np.add.at(f.raw, i, v) writes into the read-only array of a field (numpy ignores flags.writeable)"""
    a = np.arange(3.)
    a.flags.writeable = False
    try:
        np.add.at(a, 1, 1.)
    except ValueError:
        return None
    if a[1] == 1.:
        return None
    return _probe({"dom": "u", "n": 3, "ops": [["new", "Field", ["own", 0], "f8", [0.5, -1.25, 2.0]],
                                              ["handle", -1, "raw", "a"], ["write", -1, "ufunc_at", 1, 0.75]]},
                  "plain numpy: ufunc.at writes into a read-only ndarray; consequence for NIFTy")


def probe_numpy_0d_real_setter():
    """f.raw.real = v on a scalar-domain field (numpy: 0-d `.real`/`.imag` setters ignore flags.writeable)"""
    a = np.array(1.5)
    a.flags.writeable = False
    try:
        a.real = 0.75
    except ValueError:
        return None
    if a[()] == 1.5:
        return None
    return _probe({"dom": "u", "n": 1, "ops": [["full", "Field.scalar", 1.5], ["handle", -1, "raw", "a"],
                                              ["write", -1, "real_set_0d", 0, 0.75]]},
                  "plain numpy: `.real = v` writes into a read-only 0-d ndarray; consequence for NIFTy")


KNOWN_PROBES = {"numpy_ufunc_at_ignores_readonly": probe_numpy_ufunc_at,
                "numpy_0d_real_setter_ignores_readonly": probe_numpy_0d_real_setter}


SUBS = [
    Sub(name="single_write_matrix", check=check, cases=matrix_cases, exhaustive=True, shards=8,
        rule="complete enumeration constructor variant x access path (source object, its views, 8 handle kinds "
             "and 16 kinds of views/wrappers of each) x write kind, one derived operator per history; plus array "
             "constructor x source kind (ndarray subclasses memmap / MaskedArray / matrix / user subclass, read-only, "
             "non-native byte order, locked AnyArray, and every kind as a 0-d array on the scalar domain) x every "
             "object handed to NIFTy and its views x write kind; plus constructor x (13 rejected constructor calls "
             "x 6 argument paths | 14 failing field operations | failing handle operations) x later write; "
             "non-trivial = the write is effective on a plain numpy twin and its target shares memory with a "
             "live field (np.shares_memory), i.e. it has to be refused"),
    Sub(name="field_histories", check=check, strategy=histories(False), quick=2400, thorough=60000, shards=6,
        rule="random histories over Field constructors (all source kinds, scalar domain, pickle/deepcopy/copy), "
             "rejected constructor calls and failing operations interleaved; non-trivial = >=1 write attempt that is effective on a "
             "plain numpy twin through a source/handle that shares memory with a live field"),
    Sub(name="multifield_histories", check=check, strategy=histories(True), quick=1600, thorough=40000, shards=4,
        rule="random histories with MultiField constructors (from_raw, makeField(dict), from_dict, full, "
             "from_random, parts); non-trivial as in field_histories"),
]
