"""C31 - multi-grid index maps are consistent at every level (DESIGN 2/C31).

A grid is described by a JSON "desc":
    {"k": "grid",   "shape0": [..], "splits": [[..] per level]}                       nifty Grid (periodic)
    {"k": "open",   "shape0": [..], "splits": [[..]], "padding": [[..]]}              OpenGrid
    {"k": "simple", "min_shape": [..], "window": w, "splits": s, "depth": d|None,
                    "dist": None|x|[..], "size0": n}                                  SimpleOpenGrid
    {"k": "log",    ... as simple (1-D), "rmin": a, "rmax": b}                        LogGrid
    {"k": "blog",   ... as log, "rlin": c}                                            BrokenLogGrid
    {"k": "hp",     "nside0": n, "splits": [4, 1, 16, ..]}                            HEALPixGrid (nest)
    {"k": "hplogr" | "hpblogr", "nside0", "depth", "rn", "rmin", "rmax", ["rlin"], "rw"}   HP(Broken)LogRGrid
    {"k": "mgrid",  "grids": [desc, ...]}                                             MGrid
    {"k": "flat",   "grid": desc, "ordering": "serial"|"nest"}                        FlatGrid
    {"k": "sparse", "grid": desc, "sel": [[ints] per level]}                          SparseGrid (nest)

For every desc the harness builds (a) the NIFTy grid and (b) a reference model `Ref` in plain NumPy integer
arithmetic (closed forms: child j of i on a regular axis is (i - padding) * split + c, the parent is
j // split + padding, the w-neighbourhood is i + (arange(w) - w//2) wrapped (periodic) or clipped (open);
HEALPix nest children of p are p*s .. p*s+s-1, neighbours from ducc0.healpix).  ALL indices of every level are
enumerated and every oracle relation of the property is evaluated on all of them.
"""
import itertools
import os

import numpy as np
from hypothesis import strategies as st

from vlib import Discard, Sub, Violation, require
from vlib import findings as _findings

_KNOWN_TAGS = _findings.known_tags("C31")

# The grid classes dispatch hundreds of tiny jax kernels eagerly, and each new array shape is compiled separately;
# compile time dominates this check.  Compile them without LLVM optimisation passes (semantics-preserving; must be
# set before the XLA CPU client of the worker process is created, i.e. before the first jax computation).
_FAST_COMPILE = "--xla_backend_optimization_level=0 --xla_llvm_disable_expensive_passes=true"
if "xla_backend_optimization_level" not in os.environ.get("XLA_FLAGS", ""):
    os.environ["XLA_FLAGS"] = (os.environ.get("XLA_FLAGS", "") + " " + _FAST_COMPILE).strip()

PROPERTY = "C31"
LEVEL = "exploration"
TECHNIQUE = ("PBT + exhaustive small-parameter sweeps: all indices of every level enumerated against a NumPy "
             "integer-arithmetic reference model; round trips; ducc0.healpix neighbours")
RULE = ("Generated Grid / OpenGrid (padding) / SimpleOpenGrid / LogGrid / BrokenLogGrid / HEALPixGrid (nside0<=2, "
        "splits 1|4|16) / HPLogRGrid / HPBrokenLogRGrid / MGrid products / FlatGrid (serial, nest) / SparseGrid of "
        "depth<=3 and <=~500 indices per level.  For ALL indices of EVERY level: parent(children(i))==i for every "
        "child; children of the refined indices are pairwise disjoint, lie on the next level and cover it exactly; "
        "children equal the closed form; coord2index(index2coord(i))==i; flatindex2index o index2flatindex == id "
        "and index2flatindex is a bijection onto range(size) whose numbering agrees between a level's own maps and "
        "the children/parent maps of the neighbouring levels; neighborhood(i,w) == i+offsets wrapped (periodic), "
        "clipped (open), ducc0 neighbours (HEALPix); sum of children volumes <= parent volume*(1+1e-12); level "
        "totals non-increasing; all maps independent of the batch shape of the index array.")
LEVEL_TEXT = ("Exploration with exhaustive finite sweeps: every 1-D Grid with shape0<=4, depth<=2, splits in "
              "{1..4}; every 1-D OpenGrid with shape0<=5, depth<=2, splits in {1,2,3}, paddings in {0,1,2} (each "
              "plain and flattened); every 2-D Grid with shape0 in {1,2,3}^2, one level, splits in {1,2,3}^2 (plain "
              "and flattened, serial/nest alternating); a fixed list of HEALPix-bearing grids; random compositions of all grid classes "
              "are sampled.  Every index of every level is checked, so a violation anywhere on a generated grid "
              "is found with certainty.")
LEVEL_NOTE = ("The worker processes compile the eagerly dispatched XLA kernels at optimisation level 0 (XLA_FLAGS; "
              "semantics-preserving) because compile time dominates. Trusted base: NumPy integer arithmetic, ducc0.healpix.Healpix_Base.neighbors (nest). The reference "
              "model reads shape0/splits/padding of grids made by the SimpleOpenGrid/LogGrid factories from the "
              "constructed object (they are outputs of the factory) and re-derives all level shapes itself. The "
              "numbering of FlatGrid is not prescribed except for `nest` (children of f are f*K..f*K+K-1, which "
              "`resort` relies on); for `serial` only bijectivity and agreement between levels is demanded.")
ASSUMPTIONS = [
    "index arrays have shape (ndim, *batch); results carry the same batch shape (conventions of "
    "test/test_re/test_indexing.py and of the callers in nifty/re/multi_grid/kernel.py, which pass 1-D indices)",
    "OpenGrid docstring: 'indices used for padding don't have children' - the refined indices of a level are "
    "[padding, shape-padding) per axis and their children cover the complete next level",
    "OpenGridAtLevel.neighborhood documents 'jax-array inspired out of bounds handling' and clips to [0, shape-1]: "
    "a neighbour position outside an open grid is clipped to the border (never wrapped to the other end)",
    "for even window sizes the offset convention is not documented: both arange(w)-w//2 and arange(w)-(w-1)//2 "
    "are accepted (the same one on all axes)",
    "HEALPix neighbourhood(i, 9) is [i, SW, W, NW, N, NE, E, SE, S] (healpy/ducc0 get_all_neighbours order, which "
    "jhealpix.get_all_neighbours mirrors); where a neighbour does not exist (ducc0: -1) any valid pixel is accepted",
    "index2volume returns an array broadcastable against the batch shape with a leading axis of length one; "
    "totals are sums of the broadcast array over all indices of a level",
    "coord2index may return any dtype as long as the values are the integer indices (MGrid of HEALPix and "
    "Cartesian grids returns float64 because uint64 and int64 are concatenated; reported as an observation only)",
    "SparseGrid mappings are generated valid by construction: every entry of level l+1 is a child of an entry of "
    "level l and either all or none of the children of an entry are present; neighbours outside the mapping are "
    "unconstrained",
]

MAX_LEVEL_SIZE = {"quick": 700, "thorough": 4000}
_TIER = ["quick"]


# ------------------------------------------------------------------------------------------ reference models
def _prod_indices(ranges):
    """all index tuples of a product of 1-D integer arrays, C order -> (ndim, N)"""
    if len(ranges) == 0:
        return np.zeros((0, 1), dtype=np.int64)
    g = np.meshgrid(*ranges, indexing="ij")
    return np.stack([x.ravel() for x in g], axis=0).astype(np.int64)


class Ref:
    """reference model of a multi-level grid (plain integers)"""
    free_must_be_in_range = True

    def shape(self, l):
        raise NotImplementedError

    @property
    def ndim(self):
        return len(self.shape(0))

    def size(self, l):
        return int(np.prod(self.shape(l), dtype=np.int64))

    def all_indices(self, l):
        return _prod_indices([np.arange(s) for s in self.shape(l)])

    def lin(self, l, idx):
        return np.ravel_multi_index(tuple(np.asarray(idx)), self.shape(l))

    def nchildren(self, l):
        raise NotImplementedError

    def window_ok(self, w):
        return True


class AxisRef(Ref):
    """regular Cartesian axes, periodic (Grid) or open with padding (OpenGrid)"""

    def __init__(self, shape0, splits, padding=None):
        self.open = padding is not None
        self.shapes = [np.array(shape0, dtype=np.int64).reshape(-1)]
        nd = self.shapes[0].size
        self.splits = [np.broadcast_to(np.array(s, dtype=np.int64), (nd,)).copy() for s in splits]
        if padding is None:
            self.pads = [np.zeros(nd, dtype=np.int64) for _ in self.splits]
        else:
            self.pads = [np.broadcast_to(np.array(p, dtype=np.int64), (nd,)).copy() for p in padding]
        for s, p in zip(self.splits, self.pads):
            self.shapes.append(s * (self.shapes[-1] - 2 * p))
        self.depth = len(self.splits)
        self.kinds = ["open" if self.open else "periodic"] * nd

    def shape(self, l):
        return tuple(int(x) for x in self.shapes[l])

    def nchildren(self, l):
        return int(np.prod(self.splits[l]))

    def refined(self, l):
        return _prod_indices([np.arange(p, s - p) for s, p in zip(self.shapes[l], self.pads[l])])

    def children(self, l, idx):
        s, p = self.splits[l], self.pads[l]
        c = _prod_indices([np.arange(x) for x in s])                      # (nd, K)
        base = (idx - p[:, None]) * s[:, None]                              # (nd, N)
        return base[:, :, None] + c[:, None, :]

    def parent(self, l, idx):
        return idx // self.splits[l - 1][:, None] + self.pads[l - 1][:, None]

    def nbr(self, l, idx, w, conv):
        """-> expected (nd, N, *w), free mask (N, *w)"""
        w = np.asarray(w, dtype=np.int64)
        nd, n = idx.shape
        out = np.zeros((nd, n) + tuple(w), dtype=np.int64)
        shp = self.shapes[l]
        for ax in range(nd):
            start = -(w[ax] // 2) if conv == 0 else -((w[ax] - 1) // 2)
            off = np.arange(w[ax]) + start
            v = idx[ax][:, None] + off[None, :]
            v = np.clip(v, 0, shp[ax] - 1) if self.open else v % shp[ax]
            sl = [slice(None)] + [None] * nd
            sl[1 + ax] = slice(None)
            out[ax] = v[tuple(sl)]
        return out, np.zeros((n,) + tuple(w), dtype=bool)


_HPB = {}


def _hp_base(nside):
    import ducc0
    if nside not in _HPB:
        _HPB[nside] = ducc0.healpix.Healpix_Base(nside, "NEST")
    return _HPB[nside]


class HPRef(Ref):
    """HEALPix nest: shape (12 nside^2,), a split of 4^k quadruples nside k times"""

    def __init__(self, nside0, splits):
        self.splits = [int(s) for s in splits]
        self.sizes = [12 * nside0 * nside0]
        for s in self.splits:
            self.sizes.append(self.sizes[-1] * s)
        self.nsides = [int(round((s / 12) ** 0.5)) for s in self.sizes]
        self.depth = len(self.splits)
        self.kinds = ["hp"]

    def shape(self, l):
        return (self.sizes[l],)

    def nchildren(self, l):
        return self.splits[l]

    def refined(self, l):
        return np.arange(self.sizes[l], dtype=np.int64)[None]

    def children(self, l, idx):
        s = self.splits[l]
        return idx[:, :, None] * s + np.arange(s, dtype=np.int64)[None, None, :]

    def parent(self, l, idx):
        return idx // self.splits[l - 1]

    def window_ok(self, w):
        return len(w) == 1 and w[0] in (1, 9)

    def nbr(self, l, idx, w, conv):
        n = idx.shape[1]
        if int(w[0]) == 1:
            return idx[:, :, None].copy(), np.zeros((n, 1), dtype=bool)
        nb = np.asarray(_hp_base(self.nsides[l]).neighbors(idx[0].astype(np.int64)), dtype=np.int64)  # (N, 8)
        exp = np.concatenate([idx[0][:, None], nb], axis=1)
        free = exp < 0
        exp = np.where(free, 0, exp)
        return exp[None], free


class MRef(Ref):
    """meshgrid product of component grids"""

    def __init__(self, comps):
        self.comps = comps
        self.depth = comps[0].depth
        nds = [c.ndim for c in comps]
        off = np.concatenate([[0], np.cumsum(nds)])
        self.slices = [slice(int(a), int(b)) for a, b in zip(off[:-1], off[1:])]
        self.kinds = [k for c in comps for k in c.kinds]

    def shape(self, l):
        return tuple(x for c in self.comps for x in c.shape(l))

    def nchildren(self, l):
        return int(np.prod([c.nchildren(l) for c in self.comps]))

    def refined(self, l):
        parts = [c.refined(l) for c in self.comps]
        sel = _prod_indices([np.arange(p.shape[1]) for p in parts])
        return np.concatenate([p[:, sel[i]] for i, p in enumerate(parts)], axis=0)

    def children(self, l, idx):
        parts = [c.children(l, idx[s]) for c, s in zip(self.comps, self.slices)]   # (cd, N, Kc)
        sel = _prod_indices([np.arange(p.shape[2]) for p in parts])
        return np.concatenate([p[:, :, sel[i]] for i, p in enumerate(parts)], axis=0)

    def parent(self, l, idx):
        return np.concatenate([c.parent(l, idx[s]) for c, s in zip(self.comps, self.slices)], axis=0)

    def window_ok(self, w):
        return all(c.window_ok(list(w[s])) for c, s in zip(self.comps, self.slices))

    def nbr(self, l, idx, w, conv):
        w = [int(x) for x in w]
        n = idx.shape[1]
        out = np.zeros((len(w), n) + tuple(w), dtype=np.int64)
        free = np.zeros((n,) + tuple(w), dtype=bool)
        for c, s in zip(self.comps, self.slices):
            e, f = c.nbr(l, idx[s], w[s], conv)
            sl = [slice(None), slice(None)] + [None] * len(w)
            for a in range(s.start, s.stop):
                sl[2 + a] = slice(None)
            out[s] = e[tuple(sl)]
            free |= f[tuple(sl[1:])]
        return out, free


class FlatRef(Ref):
    """single global integer index; the numbering tables come from the (verified bijective) flat maps of the
    grid under test at each level, everything else from the underlying reference model"""

    def __init__(self, under, ordering="nest"):
        self.under = under
        self.ordering = ordering
        self.depth = under.depth
        self.i2f = [None] * (under.depth + 1)      # linear id of the structured index -> flat index
        self.f2i = [None] * (under.depth + 1)
        self.kinds = ["flat"]

    def shape(self, l):
        return (self.under.size(l),)

    def nchildren(self, l):
        return self.under.nchildren(l)

    def struct(self, l, f):
        """flat indices (M,) -> structured (nd, M)"""
        return np.stack(np.unravel_index(self.f2i[l][f], self.under.shape(l)), axis=0).astype(np.int64)

    def flat(self, l, idx):
        return self.i2f[l][self.under.lin(l, idx)]

    def refined(self, l):
        return np.sort(self.flat(l, self.under.refined(l)))[None]

    def children(self, l, idx):
        ch = self.under.children(l, self.struct(l, idx[0]))
        return self.flat(l + 1, ch.reshape(ch.shape[0], -1)).reshape(1, idx.shape[1], -1)

    def parent(self, l, idx):
        return self.flat(l - 1, self.under.parent(l, self.struct(l, idx[0])))[None]

    def window_ok(self, w):
        return self.under.window_ok(w)

    def nbr(self, l, idx, w, conv):
        e, f = self.under.nbr(l, self.struct(l, idx[0]), w, conv)
        n = idx.shape[1]
        fl = self.flat(l, e.reshape(e.shape[0], -1)).reshape(1, n, -1)
        return fl, f.reshape(n, -1)


class SparseRef(Ref):
    """array index into the sorted list of modelled flat (nest) indices of each level"""
    free_must_be_in_range = False

    def __init__(self, flat, mappings):
        self.fl = flat
        self.maps = [np.asarray(m, dtype=np.int64) for m in mappings]
        self.depth = flat.depth
        self.kinds = ["sparse"]

    def shape(self, l):
        return (len(self.maps[l]),)

    def nchildren(self, l):
        return self.fl.nchildren(l)

    def _pos(self, l, f):
        m = self.maps[l]
        p = np.clip(np.searchsorted(m, f), 0, len(m) - 1)
        return p, m[p] == f

    def refined(self, l):
        a = np.arange(len(self.maps[l]), dtype=np.int64)[None]
        ch = self.fl.children(l, self.maps[l][None])
        _, ok = self._pos(l + 1, ch[0])
        return a[:, ok.all(axis=-1)]

    def children(self, l, idx):
        ch = self.fl.children(l, self.maps[l][idx[0]][None])
        p, ok = self._pos(l + 1, ch[0])
        if not ok.all():
            raise AssertionError("harness: children of a refined sparse index are missing from the mapping")
        return p[None]

    def parent(self, l, idx):
        par = self.fl.parent(l, self.maps[l][idx[0]][None])
        p, ok = self._pos(l - 1, par[0])
        if not ok.all():
            raise AssertionError("harness: parent of a sparse index is missing from the mapping")
        return p[None]

    def window_ok(self, w):
        return self.fl.window_ok(w)

    def nbr(self, l, idx, w, conv):
        e, f = self.fl.nbr(l, self.maps[l][idx[0]][None], w, conv)
        p, ok = self._pos(l, e[0])
        return p[None], f | ~ok


# ------------------------------------------------------------------------------------------ desc -> grid + ref
def _mg():
    from nifty.re.multi_grid import grid as G
    from nifty.re.multi_grid import grid_impl as GI
    return G, GI


def _tup(x):
    if isinstance(x, list):
        return tuple(_tup(v) for v in x)
    return x


def _simple_kwargs(d):
    kw = dict(min_shape=tuple(d["min_shape"]), window_size=_tup(d["window"]) if isinstance(d["window"], list) else d["window"],
              splits=_tup(d["splits"]) if isinstance(d["splits"], list) else d["splits"], depth=d["depth"])
    if d.get("size0") is not None:
        kw["desired_size0"] = d["size0"]
    return kw


def _open_ref_of(g):
    """reference model of an OpenGrid returned by a factory: shape0/splits/padding are outputs of the factory"""
    return AxisRef([int(x) for x in g.shape0], [np.asarray(s) for s in g.splits], [np.asarray(p) for p in g.padding])


def build(d):
    """-> (nifty grid, Ref)"""
    G, GI = _mg()
    k = d["k"]
    if k == "grid":
        g = G.Grid(shape0=tuple(d["shape0"]), splits=_tup(d["splits"]))
        return g, AxisRef(d["shape0"], d["splits"])
    if k == "open":
        g = G.OpenGrid(shape0=tuple(d["shape0"]), splits=_tup(d["splits"]), padding=_tup(d["padding"]))
        return g, AxisRef(d["shape0"], d["splits"], d["padding"])
    if k == "simple":
        kw = _simple_kwargs(d)
        if d.get("dist") is not None:
            kw["distances"] = _tup(d["dist"]) if isinstance(d["dist"], list) else d["dist"]
        g = GI.SimpleOpenGrid(**kw)
        return g, _open_ref_of(g)
    if k == "log":
        g = GI.LogGrid(r_min=d["rmin"], r_max=d["rmax"], **_simple_kwargs(d))
        return g, _open_ref_of(g)
    if k == "blog":
        g = GI.BrokenLogGrid(r_min=d["rmin"], r_linthresh=d["rlin"], r_max=d["rmax"], **_simple_kwargs(d))
        return g, _open_ref_of(g)
    if k == "hp":
        sp = d["splits"]
        if all(s == 4 for s in sp) and d.get("plain", True):
            g = GI.HEALPixGrid(nside0=d["nside0"], depth=len(sp))
        else:
            g = GI.HEALPixGrid(nside0=d["nside0"], depth=len(sp), splits=tuple(sp))
        return g, HPRef(d["nside0"], sp)
    if k in ("hplogr", "hpblogr"):
        nside = d["nside0"] * 2 ** d["depth"]
        if k == "hplogr":
            g = GI.HPLogRGrid(nside=nside, nside0=d["nside0"], r_min_shape=d["rn"], r_min=d["rmin"], r_max=d["rmax"],
                              r_window_size=d["rw"])
        else:
            g = GI.HPBrokenLogRGrid(nside=nside, nside0=d["nside0"], r_min_shape=d["rn"], r_min=d["rmin"],
                                    r_linthresh=d["rlin"], r_max=d["rmax"], r_window_size=d["rw"])
        return g, MRef([HPRef(d["nside0"], [4] * d["depth"]), _open_ref_of(g.grids[1])])
    if k == "mgrid":
        parts = [build(x) for x in d["grids"]]
        return G.MGrid(*[p[0] for p in parts]), MRef([p[1] for p in parts])
    if k == "flat":
        g, r = build(d["grid"])
        return G.FlatGrid(g, ordering=d["ordering"]), FlatRef(r, d["ordering"])
    if k == "sparse":
        g, r = build(d["grid"])
        maps = sparse_mappings(r, d["sel"])
        return G.SparseGrid(g, tuple(np.array(m) for m in maps)), SparseRef(FlatRef(r), maps)
    raise ValueError(k)


def sparse_mappings(under, sel):
    """valid mappings by construction from the nest rule (children of flat f are f*K .. f*K+K-1): level 0 keeps
    the flat indices selected by sel[0]; the entries selected by sel[l+1] are refined"""
    n0 = under.size(0)
    s0 = sel[0]
    m = sorted({int(x) % n0 for x in s0}) or [0]
    maps = [np.array(m, dtype=np.int64)]
    for l in range(under.depth):
        cur = maps[-1]
        k = under.nchildren(l)
        s = sel[l + 1] if l + 1 < len(sel) else [0]
        pick = sorted({int(x) % len(cur) for x in s}) or [0]
        ch = (cur[pick][:, None] * k + np.arange(k)[None, :]).ravel()
        maps.append(np.sort(ch))
    return maps


def desc_kinds(d, out=None):
    out = [] if out is None else out
    out.append(d["k"])
    if "grid" in d:
        desc_kinds(d["grid"], out)
    for x in d.get("grids", []):
        desc_kinds(x, out)
    return out


# ------------------------------------------------------------------------------------------ helpers for outputs
_PAD = [True]


def ev(fn, arr, *args):
    """evaluate an elementwise map of the grid under test on arr (c, N) -> np.ndarray (c', N, ...).  With padding
    enabled the batch axis is filled up to a power of two with copies of the first column (every map acts
    elementwise on the batch axes, the surplus results are dropped): the eagerly dispatched jax kernels are then
    compiled for few distinct shapes.  Unpadded evaluation is exercised by a share of the recipes."""
    arr = np.asarray(arr)
    n = arr.shape[1]
    m = n
    if _PAD[0]:
        m = 8
        while m < n:
            m *= 2
    if m > n:
        arr = np.concatenate([arr, np.repeat(arr[:, :1], m - n, axis=1)], axis=1)
    out = np.asarray(fn(arr, *args))
    if m > n and out.ndim >= 2 and out.shape[1] == m:
        out = out[:, :n]
    return out


def as_index(x, shape, kind):
    """NIFTy index output -> int64 ndarray of the given shape (values must be integers; dtype is free)"""
    a = np.asarray(x)
    require(a.shape == tuple(shape), kind + ":shape", f"{a.shape} vs expected {tuple(shape)}")
    if a.dtype == bool or not (np.issubdtype(a.dtype, np.integer) or np.issubdtype(a.dtype, np.floating)):
        raise Violation(kind + ":dtype", str(a.dtype))
    if np.issubdtype(a.dtype, np.floating):
        require(bool(np.all(np.isfinite(a))) and bool(np.all(a == np.rint(a))), kind + ":not_integer_valued",
                repr(a.ravel()[:8]))
    if a.dtype == np.uint64:
        require(bool(np.all(a < np.uint64(2 ** 62))), kind + ":out_of_range", repr(a.ravel()[:8]))
    return a.astype(np.int64)


def in_range(idx, shape, kind, detail=""):
    shp = np.asarray(shape, dtype=np.int64).reshape((-1,) + (1,) * (idx.ndim - 1))
    ok = (idx >= 0) & (idx < shp)
    if not ok.all():
        bad = np.argwhere(~ok)[0]
        raise Violation(kind + ":out_of_range", f"index value {int(idx[tuple(bad)])} at {tuple(int(b) for b in bad)} "
                                                f"for level shape {tuple(shape)} {detail}")


def first_bad(mask):
    return tuple(int(b) for b in np.argwhere(mask)[0])


def volumes(ga, idx, kind):
    v = np.asarray(ev(ga.index2volume, idx), dtype=np.float64)
    n = idx.shape[1:]
    try:
        v = np.broadcast_to(v, (1,) + tuple(n))
    except ValueError:
        raise Violation(kind + ":volume_shape", f"{np.shape(v)} not broadcastable to {(1,) + tuple(n)}")
    require(bool(np.all(np.isfinite(v))) and bool(np.all(v >= 0)), kind + ":volume_not_finite_nonnegative",
            repr(v.ravel()[:8]))
    return v[0]


def desc_of(d):
    return str(d)[:400]


# ------------------------------------------------------------------------------------------ the oracle relations
def verify_flat_maps(grid, ref, dd):
    """index2flatindex is a bijection onto range(size) at every level, flatindex2index is its inverse; fills
    the numbering tables of the FlatRef (the `nest` numbering additionally obeys the nest rule)"""
    fr = ref.fl if isinstance(ref, SparseRef) else ref
    un = fr.under
    for l in range(un.depth + 1):
        fa = grid.at(l)
        iu = un.all_indices(l)
        n = iu.shape[1]
        f = as_index(ev(fa.index2flatindex, iu), (1, n), "index2flatindex")
        srt = np.sort(f[0])
        if not np.array_equal(srt, np.arange(n)):
            raise Violation("index2flatindex_not_bijection_onto_range",
                            f"level {l} shape {un.shape(l)}: sorted flat ids {srt[:12].tolist()}.. {dd}")
        back = as_index(ev(fa.flatindex2index, f), iu.shape, "flatindex2index")
        if not np.array_equal(back, iu):
            b = first_bad((back != iu).any(axis=0))
            raise Violation("flatindex2index_of_index2flatindex", f"level {l}: {iu[:, b[0]].tolist()} -> "
                            f"{int(f[0, b[0]])} -> {back[:, b[0]].tolist()} {dd}")
        gl = np.arange(n, dtype=np.int64)[None]
        st_ = as_index(ev(fa.flatindex2index, gl), iu.shape, "flatindex2index")
        in_range(st_, un.shape(l), "flatindex2index")
        f2 = as_index(ev(fa.index2flatindex, st_), (1, n), "index2flatindex")
        if not np.array_equal(f2, gl):
            b = first_bad(f2[0] != gl[0])
            raise Violation("index2flatindex_of_flatindex2index", f"level {l}: {b[0]} -> {st_[:, b[0]].tolist()} -> "
                            f"{int(f2[0, b[0]])} {dd}")
        fr.i2f[l] = f[0]
        inv = np.empty(n, dtype=np.int64)
        inv[f[0]] = np.arange(n)
        fr.f2i[l] = inv
    if fr.ordering == "nest":
        # nested numbering (what `resort` of a nest FlatGrid and every SparseGrid mapping rely on): the children of
        # flat index f are f*K .. f*K+K-1, K = number of children
        for l in range(un.depth):
            k = un.nchildren(l)
            rr = un.refined(l)
            f = fr.flat(l, rr)
            ch = un.children(l, rr)
            fc = np.sort(fr.flat(l + 1, ch.reshape(ch.shape[0], -1)).reshape(rr.shape[1], k), axis=1)
            want = f[:, None] * k + np.arange(k)[None, :]
            if not np.array_equal(fc, want):
                b = first_bad((fc != want).any(axis=1))
                raise Violation("nest_numbering_not_nested", f"level {l}: index {rr[:, b[0]].tolist()} has flat index "
                                f"{int(f[b[0]])} but its {k} children have flat indices {fc[b[0]].tolist()} {dd}")
    if isinstance(ref, SparseRef):
        for l in range(ref.depth + 1):
            sa = grid.at(l)
            a = np.arange(len(ref.maps[l]), dtype=np.int64)[None]
            f = as_index(ev(sa.arrayindex2flatindex, a), a.shape, "arrayindex2flatindex")
            require(np.array_equal(f[0], ref.maps[l]), "arrayindex2flatindex", f"level {l}: {f[0][:10]} vs mapping {ref.maps[l][:10]}")
            b = as_index(ev(sa.flatindex2arrayindex, f), a.shape, "flatindex2arrayindex")
            require(np.array_equal(b, a), "flatindex2arrayindex_roundtrip", f"level {l} {dd}")


def check_neighborhood(ga, ref, l, idx, w, dd):
    n = idx.shape[1]
    raw = ev(ga.neighborhood, idx, tuple(int(x) for x in w))
    got = raw
    exp0, free = ref.nbr(l, idx, w, 0)
    if isinstance(ref, (FlatRef, SparseRef)):
        want_shape = (1, n, int(np.prod(w)))
    else:
        want_shape = (len(w), n) + tuple(int(x) for x in w)
    got = as_index(got, want_shape, "neighborhood")
    exp0 = exp0.reshape(want_shape)
    free = free.reshape(want_shape[1:])
    fixed = ~free[None]
    ok = np.where(fixed, got == exp0, True)
    if not ok.all() and any(int(x) % 2 == 0 for x in w):
        exp1, _ = ref.nbr(l, idx, w, 1)
        exp1 = exp1.reshape(want_shape)
        ok = np.where(fixed, got == exp1, True)
    if not ok.all():
        b = first_bad(~ok)
        nn = b[1]
        kinds = sorted(set(ref.kinds))
        raise Violation("neighborhood:" + "+".join(kinds),
                        f"level {l} shape {ref.shape(l)} index {idx[:, nn].tolist()} window {list(w)}: got "
                        f"{got[:, nn].reshape(got.shape[0], -1).tolist()} expected "
                        f"{exp0[:, nn].reshape(got.shape[0], -1).tolist()} {dd}")
    if free.any() and ref.free_must_be_in_range:
        shp = np.asarray(ref.shape(l)).reshape((-1,) + (1,) * (got.ndim - 1))
        okr = (got >= 0) & (got < shp)
        if not okr.all():
            b = first_bad(~okr)
            raise Violation("neighborhood:out_of_range", f"level {l} index {idx[:, b[1]].tolist()} window {list(w)}: "
                            f"{got[:, b[1]].reshape(got.shape[0], -1).tolist()} {dd}")
    return int(free.sum()), raw


def check_batch_shapes(ga, ref, l, idx, w, probes, dd, res, mode):
    """all maps act elementwise on the batch axes: a 1-D index (the callers' convention) and an index array of
    the level's mgrid shape give the rows of the (ndim, N) evaluation"""
    nd, n = idx.shape
    shp = ref.shape(l)
    forms = [("single", int(p) % n) for p in probes]
    if len(shp) >= 2 and mode == "all":
        forms.append(("mgrid", None))
    for name, pos in forms:
        if name == "single":
            ix = idx[:, pos]
        else:
            ix = idx.reshape((nd,) + tuple(shp))
        bs = ix.shape[1:]

        def sel(full):            # full: (c, N, *trail) -> (c, *bs, *trail)
            full = np.asarray(full)
            if name == "single":
                return full[:, pos]
            return full.reshape((full.shape[0],) + tuple(bs) + full.shape[2:])

        def same(got, exp, what, tol=0.0):
            got, exp = np.asarray(got), sel(exp)
            if got.shape != exp.shape or not bool(np.all(np.abs(got - exp) <= tol * np.maximum(1.0, np.abs(exp)))):
                raise Violation("batch_shape:" + what, f"level {l} shape {shp} batch {name} {tuple(bs)}: result of shape "
                                f"{got.shape} differs from the rows of the (ndim, N) evaluation (shape {exp.shape}) {dd}")

        c = np.asarray(ga.index2coord(ix))
        same(c, res["coord"], "index2coord", 1e-13)      # (vectorised and scalar XLA division differ by an ulp)
        same(ga.coord2index(c), idx, "coord2index")
        v = np.asarray(ga.index2volume(ix), dtype=np.float64)
        try:
            v = np.broadcast_to(v, (1,) + tuple(bs))
        except ValueError:
            raise Violation("batch_shape:index2volume", f"level {l} batch {name}: shape {v.shape} vs {(1,) + tuple(bs)} {dd}")
        same(v, res["vol"][None], "index2volume", 1e-12)
        if w is not None:
            same(ga.neighborhood(ix, tuple(int(x) for x in w)), res["nbr"], "neighborhood")
        if l >= 1:
            same(ga.parent(ix), res["parent"], "parent")
        if l < ref.depth and res.get("children_all") is not None:
            same(ga.children(ix), res["children_all"], "children")


def check_grid(grid, ref, rec, with_batch=True):
    """all oracle relations on all indices of all levels; returns statistics for the class histogram"""
    dd = "desc=" + desc_of(rec["desc"])
    depth = ref.depth
    require(int(grid.depth) == depth, "depth", f"{grid.depth} vs {depth} {dd}")
    cap = MAX_LEVEL_SIZE[_TIER[0]]
    if max(ref.size(l) for l in range(depth + 1)) > cap:
        raise Discard()
    if isinstance(ref, (FlatRef, SparseRef)):
        verify_flat_maps(grid, ref, dd)
    windows = [w for w in rec.get("windows", []) if ref.window_ok(w)]
    probes = rec.get("probes", [0])
    stats = dict(free=0, refined=0, children=0, levels=depth + 1, maxsize=0, padded=0)
    lev = []
    for l in range(depth + 1):
        ga = grid.at(l)
        shp = ref.shape(l)
        require(tuple(int(x) for x in ga.shape) == shp, "level_shape", f"level {l}: {tuple(ga.shape)} vs {shp} {dd}")
        require(int(ga.size) == ref.size(l) and int(ga.ndim) == len(shp), "level_size_ndim",
                f"level {l}: size {ga.size} ndim {ga.ndim} vs {ref.size(l)} {len(shp)} {dd}")
        idx = ref.all_indices(l)
        nd, n = idx.shape
        stats["maxsize"] = max(stats["maxsize"], n)
        res = {}
        # --- index <-> coordinate round trip
        c = ev(ga.index2coord, idx)
        require(c.ndim == 2 and c.shape[1] == n, "index2coord:shape", f"level {l}: {c.shape} for index {idx.shape} {dd}")
        require(bool(np.all(np.isfinite(c))), "index2coord:not_finite", f"level {l} {dd}")
        res["coord"] = c
        j = as_index(ev(ga.coord2index, c), idx.shape, "coord2index")
        if not np.array_equal(j, idx):
            b = first_bad((j != idx).any(axis=0))
            raise Violation("coord2index_of_index2coord", f"level {l} shape {shp}: index {idx[:, b[0]].tolist()} -> coord "
                            f"{c[:, b[0]].tolist()} -> index {j[:, b[0]].tolist()} {dd}")
        # --- volumes
        v = volumes(ga, idx, "index2volume")
        res["vol"] = v
        # --- neighbourhoods
        for wi, w in enumerate(windows):
            nfree, raw = check_neighborhood(ga, ref, l, idx, w, dd)
            stats["free"] += nfree
            if wi == 0:
                res["nbr"] = raw
        lev.append(dict(ga=ga, idx=idx, vol=v, res=res))
    # --- cross-level relations
    for l in range(depth):
        ga, gb = lev[l]["ga"], lev[l + 1]["ga"]
        shp, shpn = ref.shape(l), ref.shape(l + 1)
        nd = len(shp)
        rr = ref.refined(l)
        r = as_index(np.asarray(ga.refined_indices()).reshape(nd, -1), (nd, rr.shape[1]), "refined_indices")
        in_range(r, shp, "refined_indices")
        if not np.array_equal(np.sort(ref.lin(l, r)), np.sort(ref.lin(l, rr))):
            raise Violation("refined_indices", f"level {l} shape {shp}: got {r.T.tolist()[:12]} expected {rr.T.tolist()[:12]} {dd}")
        nr = rr.shape[1]
        stats["refined"] += nr
        stats["padded"] += lev[l]["idx"].shape[1] - nr
        k = ref.nchildren(l)
        ch_raw = ev(ga.children, rr)
        require(ch_raw.shape[:2] == (nd, nr) and int(np.prod(ch_raw.shape[2:])) == k, "children:shape",
                f"level {l}: {ch_raw.shape} for {nr} indices with {k} children each {dd}")
        ch = as_index(ch_raw.reshape(nd, nr, k), (nd, nr, k), "children")
        in_range(ch, shpn, "children", dd)
        stats["children"] += nr * k
        lin = ref.lin(l + 1, ch.reshape(nd, -1)).reshape(nr, k)
        # closed form (as a set per parent)
        exp = ref.children(l, rr)
        elin = ref.lin(l + 1, exp.reshape(nd, -1)).reshape(nr, k)
        if not np.array_equal(np.sort(lin, axis=1), np.sort(elin, axis=1)):
            b = first_bad((np.sort(lin, axis=1) != np.sort(elin, axis=1)).any(axis=1))
            raise Violation("children_closed_form:" + "+".join(sorted(set(ref.kinds))),
                            f"level {l} shape {shp} index {rr[:, b[0]].tolist()}: children "
                            f"{ch[:, b[0]].T.tolist()} expected {exp[:, b[0]].T.tolist()} {dd}")
        # partition of the next level
        allc = np.sort(lin.ravel())
        if allc.size != ref.size(l + 1) or not np.array_equal(allc, np.arange(ref.size(l + 1))):
            dup = allc[1:][np.diff(allc) == 0]
            miss = np.setdiff1d(np.arange(ref.size(l + 1)), allc)
            raise Violation("children_do_not_partition_next_level",
                            f"level {l}->{l + 1} shapes {shp}->{shpn}: {allc.size} children for {ref.size(l + 1)} indices, "
                            f"duplicates {dup[:6].tolist()} missing {miss[:6].tolist()} {dd}")
        # parent of every child
        flatc = ch.reshape(nd, -1)
        par = as_index(ev(gb.parent, flatc), flatc.shape, "parent")
        want = np.repeat(rr, k, axis=1)
        if not np.array_equal(par, want):
            b = first_bad((par != want).any(axis=0))
            raise Violation("parent_of_child", f"level {l} shape {shp}: child {flatc[:, b[0]].tolist()} of "
                            f"{want[:, b[0]].tolist()} has parent {par[:, b[0]].tolist()} {dd}")
        # parent of every index of the next level (the children cover it, so this is the same set; evaluated in
        # the level's own enumeration order)
        idn = lev[l + 1]["idx"]
        pall_raw = ev(gb.parent, idn)
        pall = as_index(pall_raw, idn.shape, "parent")
        pexp = ref.parent(l + 1, idn)
        if not np.array_equal(pall, pexp):
            b = first_bad((pall != pexp).any(axis=0))
            raise Violation("parent_closed_form", f"level {l + 1} shape {shpn}: index {idn[:, b[0]].tolist()} has parent "
                            f"{pall[:, b[0]].tolist()} expected {pexp[:, b[0]].tolist()} {dd}")
        lev[l + 1]["res"]["parent"] = pall_raw
        # volumes
        vp = lev[l]["vol"][ref.lin(l, rr)]
        vc = lev[l + 1]["vol"][lin].sum(axis=1)
        bad = vc > vp * (1 + 1e-12)
        if bad.any():
            b = first_bad(bad)
            raise Violation("children_volume_exceeds_parent", f"level {l} index {rr[:, b[0]].tolist()}: sum of children "
                            f"volumes {vc[b[0]]!r} > parent volume {vp[b[0]]!r} {dd}")
        t0, t1 = float(lev[l]["vol"].sum()), float(lev[l + 1]["vol"].sum())
        require(t1 <= t0 * (1 + 1e-12), "level_total_volume_grows", f"level {l}: {t0!r} -> level {l + 1}: {t1!r} {dd}")
        if rr.shape[1] == lev[l]["idx"].shape[1]:
            lev[l]["res"]["children_all"] = ch_raw if np.array_equal(rr, lev[l]["idx"]) else ev(ga.children, lev[l]["idx"])
    if with_batch:
        for l in range(depth + 1):
            check_batch_shapes(lev[l]["ga"], ref, l, lev[l]["idx"], windows[0] if windows else None,
                               probes, dd, lev[l]["res"], "all" if with_batch is True else with_batch)
    return stats


# ------------------------------------------------------------------------------------------ check functions
def _classes(rec, ref, stats):
    d = rec["desc"]
    kinds = desc_kinds(d)
    cl = ["kind:" + kinds[0]] + sorted({"has:" + k for k in kinds[1:]})
    cl.append(f"depth{ref.depth}")
    if d.get("depth", 0) is None or d.get("grid", {}).get("depth", 0) is None:
        cl.append("factory_chosen_depth")
    base = ref
    while isinstance(base, (FlatRef, SparseRef)):
        base = base.fl if isinstance(base, SparseRef) else base.under
    cl.append(f"{base.ndim}axes")
    if stats["padded"]:
        cl.append("unrefined_indices_present")
    if stats["free"]:
        cl.append("hp_missing_neighbours" if "hp" in base.kinds else "neighbours_outside_mapping")
    ws = [x for w in rec.get("windows", []) for x in w]
    if any(x % 2 == 0 for x in ws):
        cl.append("even_window")
    if any(x >= 4 and x != 9 for x in ws):
        cl.append("window>=4")
    splits = []
    comps = base.comps if isinstance(base, MRef) else [base]
    for c in comps:
        for s in c.splits:
            splits.extend(np.atleast_1d(s).tolist())
    if 1 in splits:
        cl.append("split_1")
    if any(s >= 3 for s in splits):
        cl.append("split>=3")
    cl.append("size<=50" if stats["maxsize"] <= 50 else ("size<=200" if stats["maxsize"] <= 200 else "size>200"))
    return cl


def check_desc(rec):
    _TIER[0] = rec.get("tier", "quick")
    _PAD[0] = bool(rec.get("pad", True))
    grid, ref = build(rec["desc"])
    stats = check_grid(grid, ref, rec, with_batch=rec.get("batch", True))
    nontrivial = ref.depth >= 1 and stats["children"] > stats["refined"] >= 2
    return dict(nontrivial=bool(nontrivial), classes=_classes(rec, ref, stats))


def check_hp_all(rec):
    """HEALPix window == size: 'all neighbours' - every row is a permutation of all pixels"""
    _, GI = _mg()
    g = GI.HEALPixGrid(nside0=rec["nside0"], depth=0)
    ga = g.at(0)
    n = 12 * rec["nside0"] ** 2
    idx = np.arange(n, dtype=np.int64)[None]
    got = as_index(ga.neighborhood(idx, (n,)), (1, n, n), "neighborhood_all")
    require(np.array_equal(np.sort(got[0], axis=1), np.broadcast_to(np.arange(n), (n, n))),
            "neighborhood_all_not_all_pixels", f"nside {rec['nside0']}")
    one = as_index(ga.neighborhood(idx, (1,)), (1, n, 1), "neighborhood_one")
    require(np.array_equal(one[0, :, 0], idx[0]), "neighborhood_one", f"nside {rec['nside0']}")
    return dict(nontrivial=True, classes=[f"nside{rec['nside0']}"])


# ------------------------------------------------------------------------------------------ generators
DY = [0.25, 0.5, 0.75, 1.0, 1.5, 2.0, 3.0]


@st.composite
def axis_grid(draw, depth, max0, maxsize, allow=("grid", "open", "simple", "log", "blog"), maxdim=3):
    # (BrokenLogGrid re-traces jnp.piecewise on every call: expensive, so it is drawn less often)
    weight = {"grid": 3, "open": 4, "simple": 3, "log": 2, "blog": 1}
    kind = draw(st.sampled_from([k for k in allow for _ in range(weight[k])]))
    if kind in ("grid", "open"):
        nd = draw(st.integers(1, maxdim))
        hi = max(1, min(max0, int(round(maxsize ** (1.0 / nd) / 2)) + 1))
        shp = [draw(st.integers(1, hi)) for _ in range(nd)]
        splits, pads = [], []
        cur = list(shp)
        if kind == "open":
            # make room for the first padding
            cur = [c + 2 * draw(st.integers(0, 2)) for c in cur]
            shp = list(cur)
        for _ in range(depth):
            sp = [draw(st.sampled_from([1, 2, 2, 2, 3, 4])) for _ in range(nd)]
            if kind == "open":
                pd = [draw(st.integers(0, min(2, (c - 1) // 2))) for c in cur]
            else:
                pd = [0] * nd
            nxt = [s * (c - 2 * p) for s, c, p in zip(sp, cur, pd)]
            if int(np.prod(nxt)) > maxsize:
                sp = [1 if c - 2 * p > 1 else s for s, c, p in zip(sp, cur, pd)]
                nxt = [s * (c - 2 * p) for s, c, p in zip(sp, cur, pd)]
                if int(np.prod(nxt)) > maxsize:
                    break
            splits.append(sp)
            pads.append(pd)
            cur = nxt
        while len(splits) < depth:            # keep the requested depth (MGrid needs equal depths)
            nd_ = len(shp)
            pd = [0] * nd_
            splits.append([1] * nd_)
            pads.append(pd)
        d = {"k": kind, "shape0": shp, "splits": splits}
        if kind == "open":
            d["padding"] = pads
        return d
    nd = 1 if kind in ("log", "blog") else draw(st.integers(1, min(2, maxdim)))
    top = max(2, int(round(maxsize ** (1.0 / nd))) - 8)
    ms = [draw(st.integers(1, max(1, min(24, top)))) for _ in range(nd)]
    wk = draw(st.sampled_from(["int", "int", "axis"]))
    window = draw(st.sampled_from([1, 2, 3, 3, 3, 4, 5]))
    if wk == "axis" and nd > 1:
        window = [draw(st.sampled_from([1, 2, 3, 4, 5])) for _ in range(nd)]
    sk = draw(st.sampled_from(["int", "int", "axis", "levels"]))
    if sk == "int":
        splits = draw(st.sampled_from([2, 2, 3]))
    elif sk == "axis":
        splits = [draw(st.sampled_from([1, 2, 3])) for _ in range(nd)]
        if all(s == 1 for s in splits):
            splits[0] = 2
    else:
        splits = [[draw(st.sampled_from([1, 2, 2, 3])) for _ in range(nd)] for _ in range(depth)] if depth > 0 else 2
    wmax = max(window) if isinstance(window, list) else window
    if wmax >= 3 and "simple_open_grid_split_one_padding" in _KNOWN_TAGS:
        # recorded known finding (known_findings.json): with padding > 0 the factory's "conservative" shape0 is not
        # conservative for levels that do not refine (split 1) -> AssertionError; excluded by construction
        if isinstance(splits, list):
            splits = [[max(2, v) for v in lv] if isinstance(lv, list) else max(2, lv) for lv in splits]
    d = {"k": kind, "min_shape": ms, "window": window, "splits": splits, "depth": depth, "size0": None, "dist": None}
    if kind == "simple":
        dk = draw(st.sampled_from(["none", "scalar", "axis"]))
        if dk == "scalar":
            d["dist"] = draw(st.sampled_from(DY))
        elif dk == "axis":
            d["dist"] = [draw(st.sampled_from(DY)) for _ in range(nd)]
    else:
        d["rmin"] = draw(st.sampled_from([0.125, 0.25, 0.5, 1.0, 2.0, 3.0]))
        d["rmax"] = d["rmin"] * draw(st.sampled_from([1.5, 2.0, 4.0, 10.0, 64.0]))
        if kind == "blog":
            f = draw(st.sampled_from([0.0, 0.125, 0.25, 0.5, 0.75]))
            d["rlin"] = d["rmin"] + f * (d["rmax"] - d["rmin"])
    return d


@st.composite
def auto_depth_grid(draw):
    """SimpleOpenGrid family with depth=None: the factory derives the depth from min_shape and desired_size0"""
    kind = draw(st.sampled_from(["simple", "log", "blog"]))
    nd = 1 if kind != "simple" else draw(st.integers(1, 2))
    ms = [draw(st.integers(2, 40 if nd == 1 else 14)) for _ in range(nd)]
    d = {"k": kind, "min_shape": ms, "window": draw(st.sampled_from([1, 2, 3, 3, 4, 5])),
         "splits": draw(st.sampled_from([2, 2, 3])), "depth": None, "size0": draw(st.sampled_from([2, 4, 8, 16, 128])),
         "dist": None}
    if kind == "simple":
        d["dist"] = draw(st.sampled_from([None, 0.5, 2.0]))
    else:
        d["rmin"] = draw(st.sampled_from([0.25, 1.0, 3.0]))
        d["rmax"] = d["rmin"] * draw(st.sampled_from([2.0, 10.0, 64.0]))
        if kind == "blog":
            d["rlin"] = d["rmin"] + draw(st.sampled_from([0.0, 0.25, 0.5])) * (d["rmax"] - d["rmin"])
    return d


def _axes_of(d):
    if d["k"] in ("grid", "open"):
        return len(d["shape0"])
    if d["k"] in ("simple", "log", "blog"):
        return len(d["min_shape"])
    if d["k"] == "hp":
        return 1
    if d["k"] in ("hplogr", "hpblogr"):
        return 2
    if d["k"] == "mgrid":
        return sum(_axes_of(x) for x in d["grids"])
    return _axes_of(d["grid"])


def _hp_axes(d):
    """per structured axis: True if HEALPix"""
    if d["k"] in ("grid", "open"):
        return [False] * len(d["shape0"])
    if d["k"] in ("simple", "log", "blog"):
        return [False] * len(d["min_shape"])
    if d["k"] == "hp":
        return [True]
    if d["k"] in ("hplogr", "hpblogr"):
        return [True, False]
    if d["k"] == "mgrid":
        return [x for g in d["grids"] for x in _hp_axes(g)]
    return _hp_axes(d["grid"])


def _has_open(d):
    return any(k in ("open", "simple", "log", "blog", "hplogr", "hpblogr") for k in desc_kinds(d))


def level_sizes(d):
    """sizes of all levels of a structured desc (exact for grid/open; for the SimpleOpenGrid family the documented
    'conservative estimate' of shape0 is replicated - only used to keep generated grids small)"""
    k = d["k"]
    if k in ("grid", "open"):
        cur = np.array(d["shape0"], dtype=np.int64)
        out = [int(np.prod(cur))]
        for l, sp in enumerate(d["splits"]):
            pd = np.array(d["padding"][l]) if k == "open" else 0
            cur = np.array(sp) * (cur - 2 * pd)
            out.append(int(np.prod(cur)))
        return out
    if k in ("simple", "log", "blog"):
        ms = np.array(d["min_shape"], dtype=np.float64)
        nd, depth = ms.size, d["depth"]
        sp = np.array(d["splits"], dtype=np.int64)
        sp = np.broadcast_to(sp, (depth, nd)) if sp.ndim != 2 else sp
        pad = np.broadcast_to((np.array(d["window"], dtype=np.int64) - 1) // 2, (depth, nd))
        cur = np.ceil(ms / np.prod(sp, axis=0, initial=1) + (2 + 2 / np.min(sp, axis=0, initial=1))
                      * np.max(pad, axis=0, initial=0) + 1).astype(np.int64)
        out = [int(np.prod(cur))]
        for si, pd in zip(sp, pad):
            cur = si * (cur - 2 * pd)
            out.append(int(np.prod(cur)))
        return out
    if k == "mgrid":
        parts = [level_sizes(x) for x in d["grids"]]
        return [int(np.prod([p[l] for p in parts])) for l in range(len(parts[0]))]
    raise ValueError(k)


def truncate(d, depth):
    """the same grid with only the first `depth` refinement levels"""
    d = dict(d)
    k = d["k"]
    if k in ("grid", "open"):
        d["splits"] = d["splits"][:depth]
        if k == "open":
            d["padding"] = d["padding"][:depth]
    elif k == "mgrid":
        d["grids"] = [truncate(x, depth) for x in d["grids"]]
    else:
        d["depth"] = depth
        if isinstance(d["splits"], list) and d["splits"] and isinstance(d["splits"][0], list):
            d["splits"] = d["splits"][:depth] if depth > 0 else 2
    return d


def fit(d, maxsize):
    """shrink a structured desc until every level has at most maxsize indices"""
    depth = len(level_sizes(d)) - 1
    while max(level_sizes(d)) > maxsize:
        if d["k"] == "mgrid" and len(d["grids"]) > 2:
            d = dict(d, grids=d["grids"][:-1])
        elif depth > 0:
            depth -= 1
            d = truncate(d, depth)
        elif d["k"] == "mgrid":
            d = d["grids"][0]
        else:
            break
    return d


@st.composite
def dense_recipes(draw, tier):
    maxsize = 500 if tier == "quick" else 2500
    depth = draw(st.sampled_from([0, 1, 1, 2, 2, 2, 3, 3]))
    wrap = draw(st.sampled_from(["none", "none", "none", "serial", "serial", "nest", "sparse"]))
    allow = ("grid",) if wrap in ("nest", "sparse") else ("grid", "open", "simple", "log", "blog")
    top = draw(st.sampled_from(["axis", "axis", "axis", "mgrid", "mgrid", "mgrid", "auto"]))
    if top == "auto" and len(allow) == 1:
        top = "axis"
    if top == "auto":
        base = draw(auto_depth_grid())
    elif top == "axis":
        base = draw(axis_grid(depth, 6, maxsize, allow=allow))
    else:
        nc = draw(st.integers(2, 3))
        per = int(round(maxsize ** (1.0 / nc)))
        base = {"k": "mgrid", "grids": [draw(axis_grid(depth, 4, per, allow=allow, maxdim=2 if nc == 2 else 1))
                                        for _ in range(nc)]}
    if top == "auto":
        depth = 3                      # (only bounds the length of `sel`; the factory chooses the depth)
    else:
        base = fit(base, maxsize)
        depth = len(level_sizes(base)) - 1
    d = base
    if wrap in ("serial", "nest"):
        d = {"k": "flat", "grid": base, "ordering": wrap}
    elif wrap == "sparse":
        sel = [draw(st.lists(st.integers(0, 999), min_size=1, max_size=8)) for _ in range(depth + 1)]
        d = {"k": "sparse", "grid": base, "sel": sel}
    na = _axes_of(base)
    nw = draw(st.integers(1, 2))
    windows = [[draw(st.sampled_from([1, 2, 3, 3, 3, 4, 5])) for _ in range(na)] for _ in range(nw)]
    return {"desc": d, "windows": windows, "probes": draw(st.lists(st.integers(0, 9999), min_size=1, max_size=2)),
            "tier": tier, "pad": draw(st.sampled_from([True, True, True, False])),
            "batch": draw(st.sampled_from(["single", "single", "all"]))}


def _wrap_variants(base, periodic):
    out = [base, {"k": "flat", "grid": base, "ordering": "serial"}]
    if periodic:
        out.append({"k": "flat", "grid": base, "ordering": "nest"})
    return out


SWEEP_SHARDS = 4


def _cluster_for_shards(families, shards):
    """the runner hands shard s the cases [s::n].  Lay the list out so that every family of similar grids (similar
    array shapes => the eagerly compiled jax kernels are reused) is dealt to its own group of shards and is
    started at once, in a fixed pseudo-random order (so that a run cut short by the time budget on a busy machine
    has still seen every family and every depth)"""
    import hashlib
    n = max(1, min(shards, int(os.environ.get("VERIF_NPROC", "16"))))
    fams = [sorted(f, key=lambda r: hashlib.sha1(repr(r["desc"]).encode()).hexdigest()) for f in families if f]
    total = sum(len(f) for f in fams)
    lists = [[] for _ in range(n)]
    if n < len(fams):
        merged = [r for f in fams for r in f]
        merged.sort(key=lambda r: hashlib.sha1(repr(r["desc"]).encode()).hexdigest())
        return merged
    alloc = [max(1, int(round(n * len(f) / total))) for f in fams]
    while sum(alloc) > n:
        alloc[int(np.argmax(alloc))] -= 1
    while sum(alloc) < n:
        alloc[int(np.argmax([len(f) / a_ for f, a_ in zip(fams, alloc)]))] += 1
    first = 0
    for f, a_ in zip(fams, alloc):
        for j, r in enumerate(f):
            lists[first + j % a_].append(r)
        first += a_
    want = [len(range(s_, total, n)) for s_ in range(n)]
    spill = []
    for s_ in range(n):
        while len(lists[s_]) > want[s_]:
            spill.append(lists[s_].pop())
    for s_ in range(n):
        while len(lists[s_]) < want[s_]:
            lists[s_].append(spill.pop())
    out = [None] * total
    for s_ in range(n):
        out[s_::n] = lists[s_]
    return out


def sweep_cases(tier, seed):
    fam_p, fam_o, fam_2 = [], [], []
    wins1 = [[3], [2], [5]]
    top_p, top_o = (4, 5) if tier == "quick" else (6, 8)
    # 1-D periodic
    for n0 in range(1, top_p + 1):
        for depth in range(0, 3):
            for sp in itertools.product([1, 2, 3, 4], repeat=depth):
                base = {"k": "grid", "shape0": [n0], "splits": [[s] for s in sp]}
                for i, d in enumerate(_wrap_variants(base, True)):
                    fam_p.append({"desc": d, "windows": [wins1[(n0 + depth + i) % 3], [4]], "probes": [n0], "tier": tier,
                                "batch": i == 0})
    # 1-D open
    for n0 in range(1, top_o + 1):
        for depth in range(0, 3):
            for sp in itertools.product([1, 2, 3], repeat=depth):
                for pd in itertools.product([0, 1, 2], repeat=depth):
                    cur, ok = n0, True
                    for s_, p_ in zip(sp, pd):
                        cur = s_ * (cur - 2 * p_)
                        if cur <= 0:
                            ok = False
                            break
                    if not ok:
                        continue
                    base = {"k": "open", "shape0": [n0], "splits": [[s_] for s_ in sp], "padding": [[p_] for p_ in pd]}
                    for i, d in enumerate(_wrap_variants(base, False)):
                        fam_o.append({"desc": d, "windows": [wins1[(n0 + i) % 3]], "probes": [n0 + 1], "tier": tier,
                                    "batch": i == 0})
    # 2-D periodic, one level
    for s0 in itertools.product([1, 2, 3], repeat=2):
        for sp in itertools.product([1, 2, 3], repeat=2):
            base = {"k": "grid", "shape0": list(s0), "splits": [list(sp)]}
            var = _wrap_variants(base, True)
            if tier == "quick":      # plain + one of the two flat orderings (alternating)
                var = [var[0], var[1 + (s0[0] + s0[1] + sp[0] + sp[1]) % 2]]
            for i, d in enumerate(var):
                fam_2.append({"desc": d, "windows": [[3, 2] if i % 2 else [2, 3]], "probes": [s0[0] + 2 * s0[1]], "tier": tier,
                            "batch": i == 0 and (s0[0] + sp[1]) % 2 == 0})
    # sparse selections of small 1-D / 2-D periodic grids
    fam_s = []
    sels = [[[0, 2], [0], [1]], [[0, 1, 3], [1, 2], [0, 3]], [[1], [0, 1], [2]]]
    for n0 in (2, 3, 4):
        for depth in (1, 2):
            for sp in itertools.product([2, 3], repeat=depth):
                for si, sel in enumerate(sels):
                    base = {"k": "grid", "shape0": [n0], "splits": [[x] for x in sp]}
                    if (n0 + si) % 3 == 0:
                        base = {"k": "grid", "shape0": [n0, 2], "splits": [[x, 1 + (x + si) % 2] for x in sp]}
                    fam_s.append({"desc": {"k": "sparse", "grid": base, "sel": sel[:depth + 1]},
                                  "windows": [[3] * len(base["shape0"])], "probes": [n0 + si], "tier": tier,
                                  "batch": "single" if si == 0 else False})
    return _cluster_for_shards([fam_p, fam_o, fam_2, fam_s], SWEEP_SHARDS)


def hp_cases(tier, seed):
    """fixed list of HEALPix-bearing grids (few distinct nside / batch shapes, so that the eagerly vmapped
    jhealpix kernels are traced for few shapes)"""
    hp = lambda n0, sp, **kw: dict({"k": "hp", "nside0": n0, "splits": sp}, **kw)   # noqa: E731
    descs = []
    for n0, sp in [(1, []), (1, [4]), (1, [4, 4]), (2, [4]), (1, [16]), (1, [1, 4]), (1, [4, 1]), (2, [1])]:
        descs.append(hp(n0, sp))
    descs.append(hp(1, [4, 4], plain=False))
    flats = [{"k": "flat", "grid": hp(1, [4, 4]), "ordering": "serial"},
             {"k": "flat", "grid": hp(1, [4, 4]), "ordering": "nest"},
             {"k": "flat", "grid": hp(2, [4]), "ordering": "nest"},
             {"k": "sparse", "grid": hp(1, [4, 4]), "sel": [[0, 3, 4, 7, 11], [0, 2, 5, 9, 13, 19], [0]]},
             {"k": "sparse", "grid": hp(2, [4]), "sel": [[1, 2, 3, 17, 30, 47], [0, 1, 3, 5]]}]
    g1 = {"k": "grid", "shape0": [2], "splits": [[2], [3]]}
    o1 = {"k": "open", "shape0": [5], "splits": [[2], [1]], "padding": [[1], [2]]}
    g2 = {"k": "grid", "shape0": [3], "splits": [[2]]}
    prods = [{"k": "mgrid", "grids": [hp(1, [4, 1]), g1]},
             {"k": "mgrid", "grids": [g2, hp(1, [4])]},
             {"k": "mgrid", "grids": [hp(1, [4, 1]), o1]},
             {"k": "flat", "grid": {"k": "mgrid", "grids": [hp(1, [4]), g2]}, "ordering": "nest"},
             {"k": "flat", "grid": {"k": "mgrid", "grids": [o1, hp(1, [4, 1])]}, "ordering": "serial"},
             {"k": "sparse", "grid": {"k": "mgrid", "grids": [hp(1, [4]), g2]}, "sel": [[0, 5, 7, 20, 33, 35], [0, 1, 4]]},
             {"k": "hplogr", "nside0": 1, "depth": 1, "rn": 4, "rmin": 1.0, "rmax": 8.0, "rw": 3},
             {"k": "hplogr", "nside0": 2, "depth": 0, "rn": 5, "rmin": 0.25, "rmax": 16.0, "rw": 5},
             {"k": "hplogr", "nside0": 1, "depth": 0, "rn": 9, "rmin": 0.5, "rmax": 2.0, "rw": 1},
             {"k": "hpblogr", "nside0": 1, "depth": 1, "rn": 6, "rmin": 1.0, "rlin": 2.0, "rmax": 8.0, "rw": 3},
             {"k": "hpblogr", "nside0": 2, "depth": 0, "rn": 7, "rmin": 0.5, "rlin": 0.5, "rmax": 4.0, "rw": 3}]
    if tier != "quick":
        descs += [hp(4, [4]), hp(2, [4, 4]), hp(8, []), hp(1, [16, 4]), hp(4, [1, 4])]
        prods += [{"k": "mgrid", "grids": [hp(1, [4, 4]), g1]},
                  {"k": "mgrid", "grids": [g1, hp(1, [4, 4])]},
                  {"k": "hplogr", "nside0": 1, "depth": 2, "rn": 3, "rmin": 0.5, "rmax": 2.0, "rw": 3},
                  {"k": "hpblogr", "nside0": 1, "depth": 2, "rn": 3, "rmin": 0.5, "rlin": 0.5, "rmax": 4.0, "rw": 3},
                  {"k": "hplogr", "nside0": 2, "depth": 1, "rn": 6, "rmin": 1.0, "rmax": 100.0, "rw": 3}]
    out = []
    for i, d in enumerate(descs + flats + prods):
        na = _axes_of(d if d["k"] not in ("flat", "sparse") else d["grid"])
        hpa = _hp_axes(d)
        w9 = [9 if h else 3 for h in hpa]
        w1 = [1 if h else (2 + (i % 3)) for h in hpa]
        assert len(w9) == na
        out.append({"desc": d, "windows": [w9, w1] if i % 4 == 0 else [w9], "probes": [7 * i + 1], "tier": tier,
                    "batch": "all" if i % 5 == 0 else ("single" if i % 2 == 0 else False)})
    return out


def hp_all_cases(tier, seed):
    return [{"nside0": n} for n in ((1, 2) if tier == "quick" else (1, 2, 4))]


def probe_simple_open_grid_split_one():
    """re-executes the recorded failing input; returns a description while it still fails"""
    from nifty.re.multi_grid import grid_impl as _GI
    try:
        _GI.SimpleOpenGrid(min_shape=(3,), window_size=3, splits=[[1], [1], [3]])
    except AssertionError as e:
        return f"AssertionError in OpenGrid.__init__ (shape at a level is 0): {e!r}"
    except Exception as e:  # noqa: BLE001
        return f"{type(e).__name__}: {e}"
    return None


KNOWN_PROBES = {"probe_simple_open_grid_split_one": probe_simple_open_grid_split_one}

SUBS = [
    Sub(name="healpix", check=check_desc, cases=hp_cases, exhaustive=False, shards=6, jax=True, budget_quick=120.0,
        rule="fixed list: HEALPixGrid nside0 in {1,2}, splits from {1,4,16} (nside<=4), FlatGrid serial/nest and "
             "SparseGrid over it, MGrid products with a periodic / an open axis in both orders (also flattened), "
             "HPLogRGrid and HPBrokenLogRGrid; windows 9 (vs ducc0 neighbours) and 1; non-trivial as above"),
    Sub(name="sweep", check=check_desc, cases=sweep_cases, exhaustive=True, shards=SWEEP_SHARDS, jax=True,
        rule="EXHAUSTIVE: every 1-D Grid (shape0 1..4, depth 0..2, splits in {1,2,3,4}), every valid 1-D OpenGrid "
             "(shape0 1..5, depth 0..2, splits in {1,2,3}, paddings in {0,1,2}), every 2-D Grid (shape0 in {1,2,3}^2, "
             "one level, splits in {1,2,3}^2), each plain, as FlatGrid serial and (periodic) FlatGrid nest (2-D: one "
             "of the two orderings, alternating), plus 54 SparseGrid selections of small 1-D/2-D grids; windows "
             "2..5; all indices of all levels; non-trivial = depth>=1, >=2 refined indices, >=2 children per index"),
    Sub(name="dense_random", check=check_desc, strategy=dense_recipes, quick=150, thorough=4000, shards=5, jax=True,
        rule="random Grid/OpenGrid (1-3 axes)/SimpleOpenGrid (1-2 axes, windows 1..5, scalar/per-axis/per-level "
             "splits, distances, given or factory-chosen depth)/LogGrid/BrokenLogGrid, MGrid products of 2-3 of them, "
             "wrapped as FlatGrid serial/nest or SparseGrid (valid mappings from the nest rule); depth 0..3, <=~500 indices per level; 1-2 "
             "window tuples with entries 1..5; all indices of all levels; non-trivial as above"),
    Sub(name="healpix_all_window", check=check_hp_all, cases=hp_all_cases, exhaustive=True, shards=1, jax=True,
        rule="HEALPix neighbourhood with window == size ('all neighbours') is a permutation of all pixels for every "
             "pixel, window 1 is the pixel itself; nside 1, 2"),
]
