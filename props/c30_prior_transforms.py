"""C30 - prior transforms map a standard normal to the documented distribution (DESIGN 2/C30).

Formulation.  A probability is generated as a *tail* probability t in [1e-12, 1/2] together with a side:
    side "lo":  p = t,      xi = Phi^-1(t)          reference quantile  dist.ppf(t)
    side "hi":  p = 1 - t,  xi = -Phi^-1(t)         reference quantile  dist.isf(t)
so that the reference is exact on both sides (|xi| <= 7.04).  The property demands T(xi) == quantile(p).

Conditioning.  The repository's transforms are allowed to go through a float64 value of Phi(xi) (its own
tests grant a growing tolerance for xi -> 8 for this reason, test_re/test_stats_distributions.py), therefore a
result is accepted if it lies between the quantiles of p -+ K ulp(p) (K = 4 per evaluation of a cdf), widened by
the numerical tolerance.  For |xi| <= 5 this band is narrower than 1e-9 relative, at xi = 7 it is ~4e-4 in the
upper tail probability.

Interpolated transforms (nifty.re invgamma_prior / InvGammaPrior, classic InverseGamma / LogInverseGamma /
Gamma / Beta operators) are documented as *linear* interpolations of a table with spacing `step` / `delta`
(for the inverse gamma in log space).  Their stated accuracy is therefore the error of a linear interpolation
with that spacing:  rel. error <= step^2/8 * max |g''| on the surrounding interval, g = f or log f.  The
oracle evaluates g'' by second differences of the exact SciPy quantile function at spacing `step` around the
test point and grants SAFETY * step^2/8 * max|g''| + 1e-9 with g = log f for the inverse-gamma family (table in
log space; for a = 2, step = 1e-2 this is <= 1.25e-5, the repository's test asserts 1e-5 there) and g = f
(relative: |f''/f|) for gamma and beta; the bound shrinks quadratically with the step.
"""
import warnings

import numpy as np
from hypothesis import strategies as st
from scipy import special, stats

import nifty.cl as ift
from vlib import Discard, Sub, Violation, require
from vlib import strat as S

PROPERTY = "C30"
LEVEL = "exploration"
RULE = ("Generated distribution parameters (dyadic, documented ranges; scalars, arrays, fields, pytrees; every "
        "documented parametrisation) and 27 probabilities + a 33-point grid per case (log-spaced tails down to "
        "1e-12 on both sides, linear grid, fixed extremes and median), latent value xi = Phi^-1(p); oracle = scipy.stats "
        "ppf/isf of the documented target distribution, closed-form log-normal moments, round trips, monotony on "
        "a generated sorted grid (spacing 2^-3 .. 2^-36), classic-vs-JAX differential.")
LEVEL_TEXT = ("Search over generated parameters and probabilities: every case compares the transform at 60 latent "
              "values including both 1e-12 tails with an independent SciPy quantile, checks every provided inverse "
              "against the exact quantile and in a round trip, and monotony on a generated grid. A wrong parameter "
              "mapping, sign, swapped argument or too coarse table is seen on the first case that exercises it. "
              "Exploration: float64 only, parameters of moderate size, |xi| <= 7.04.")
LEVEL_NOTE = ("Trusted: scipy.stats norm/lognorm/uniform/laplace/invgamma/gamma/beta ppf+isf and scipy.special.ndtri "
              "(SciPy's beta.ppf is itself wrong for a few (a,b) pairs with a 0.5 entry; cases in which SciPy's own "
              "quantile table over [-8.2, 8.2] is not monotone or emits a convergence warning are discarded). "
              "Tolerance model: a result may be the quantile of a probability that differs from Phi(xi) by 4 ulp.")
TECHNIQUE = "PBT: SciPy quantile reference on both tails, linear-interpolation error bound from the table step, round trips"
ASSUMPTIONS = [
    "float64 only (jax_enable_x64=True); float32 evaluation is not generated",
    "probabilities 1e-12 <= p <= 1-1e-12, i.e. |xi| <= 7.04; interpolation tables are documented for [-8.2, 8.2]",
    "a transform may evaluate Phi(xi) in float64: results between the quantiles of p -+ 4 ulp(p) are accepted "
    "(8 ulp for interpolated tables and round trips, which evaluate a cdf twice / at neighbouring nodes)",
    "interpolated transforms are held to the documented scheme: error of a linear interpolation with the given "
    "step (inverse-gamma family: of log f, as the repository's own accuracy test implies; gamma/beta: of f), "
    "SAFETY=2 on the second-difference estimate, floor 1e-9 relative; nifty.re invgamma with loc != 0 may "
    "tabulate log(loc + scale f) instead of log f",
    "parameters: means/locations in [-4,4], scales/shapes dyadic in [1/8,16]; inverse-gamma/gamma/beta shapes >= 1/4",
    "inverse gamma by (mode, mean): mean > mode strictly (docstring); alpha=(mean+mode)/(mean-mode), "
    "q=2 mean mode/(mean-mode) follow from the documented mode=q/(alpha+1), mean=q/(alpha-1)",
    "nifty.re invgamma_prior: array-like scale only with loc == 0 (documented TypeError otherwise)",
    "BetaOperator: (a,b) pairs for which SciPy's own beta.ppf table is broken are excluded (SciPy defect, "
    "e.g. a=0.5,b=3: ppf(1e-8)=0.5)",
    "monotony: non-decreasing up to 4 ulp of the output on the sorted grid, strictly increasing wherever the "
    "exact increment exceeds 1000 ulp of the output and the increment of Phi(xi) exceeds 1000 ulp of Phi(xi)",
]

EPS53 = 2.0 ** -53
K1 = 4.0          # ulps of the probability per cdf evaluation
K2 = 8.0          # interpolation tables (neighbouring nodes) and round trips
TOL = 1e-9        # after transcendental functions (DESIGN 1.4)
SAFETY = 2.0      # on the linear-interpolation bound (second differences instead of the sup of g'')
FIXED_PS = [2 * 93, 2 * 93 + 1, 2 * (94 + 511)]     # t = 1e-12 on both sides, t = 1/2
NLOG = 94
NP = 24          # generated probabilities per case


# ------------------------------------------------------------------------------------------------ points
def points(rec_ps):
    """tail probability t, side flag and latent value for the recipe's probability specs"""
    t, hi = [], []
    for c in list(rec_ps) + FIXED_PS:
        # code c: bit 0 = side; c//2 < 94: t = 10^-((c//2+3)/8) (1e-12 .. 0.42), else t = (c//2-93)/1024
        r = int(c) // 2
        t.append(10.0 ** (-(r + 3) / 8.0) if r < NLOG else (r - NLOG + 1) / 1024.0)
        hi.append(int(c) % 2 == 1)
    t = np.clip(np.array(t, dtype=np.float64), 1e-12, 0.5)
    hi = np.array(hi)
    xi = special.ndtri(t)
    xi = np.where(hi, -xi, xi)
    return t, hi, xi


NG = 33


def grid(rec_grid):
    """sorted grid of NG latent values around x0 with spacing 2^-k, clipped to [-7, 7] (may contain repeats)"""
    x0, k = rec_grid["x0"], rec_grid["k"]
    return np.clip(x0 + np.arange(-(NG // 2), NG // 2 + 1) * 2.0 ** (-k), -7.0, 7.0)


def allpoints(rec):
    """the case's latent vector: NP generated + 3 fixed probabilities, then the sorted grid (slice G).
    Grid points are ordinary test points as well (their probability is Phi(x))."""
    t, hi, xi = points(rec["ps"])
    g = grid(rec["grid"])
    tg, hg = tails_of(g)
    return np.concatenate([t, tg]), np.concatenate([hi, hg]), np.concatenate([xi, g]), slice(xi.size, None)


def mono(g, yg, fprime, kind, detail=""):
    keep = np.concatenate([[True], np.diff(g) > 0])
    return monotone_check(g[keep], np.asarray(yg)[keep], fprime(g[keep]), kind, detail)


def tails_of(xs):
    """(t, hi) for arbitrary latent values (used for grids and finite differences)"""
    xs = np.asarray(xs, dtype=np.float64)
    hi = xs > 0
    t = special.ndtr(-np.abs(xs))
    return t, hi


def quant(dist, t, hi, dk=0.0):
    """exact quantile at tail probability t perturbed by dk ulps of the *probability* p (p = t or 1-t).

    dk > 0 moves p upwards.  ulp(p) = 2^-53 for p in [1/2, 1), 2^-52 p (upper bound) below."""
    t = np.asarray(t, dtype=np.float64)
    thi = np.clip(t - dk * EPS53, 1e-300, 0.5)          # p = 1 - t up  <=> t down
    tlo = np.clip(t * (1.0 + dk * 2 * EPS53), 1e-300, 0.5)
    with warnings.catch_warnings():
        warnings.simplefilter("ignore")
        return np.where(hi, dist.isf(thi), dist.ppf(tlo))


def latent_of(t, hi, dk=0.0, dp=0.0):
    """Phi^-1 of the perturbed probability (dk ulps of p plus an absolute perturbation dp of p)"""
    thi = np.clip(t - dk * EPS53 - dp, 1e-300, 1.0)
    tlo = np.clip(t * (1.0 + dk * 2 * EPS53) + dp, 1e-300, 1.0)
    return np.where(hi, -special.ndtri(thi), special.ndtri(tlo))


def in_band(y, lo, hi, tol, kind, detail=""):
    """lo - tol <= y <= hi + tol elementwise (lo/hi unordered); y must be finite and of the right shape"""
    y = np.asarray(y, dtype=np.float64)
    lo, hi = np.minimum(lo, hi), np.maximum(lo, hi)
    if y.shape != lo.shape:
        raise Violation(kind + ":shape", f"{y.shape} vs {lo.shape} {detail}")
    if not np.all(np.isfinite(y)):
        i = int(np.argmax(~np.isfinite(y)))
        raise Violation(kind + ":nonfinite", f"result[{i}]={y.flat[i]!r}, expected {lo.flat[i]!r} {detail}")
    tol = np.broadcast_to(np.asarray(tol, dtype=np.float64), y.shape)
    bad = (y < lo - tol) | (y > hi + tol)
    if np.any(bad):
        err = np.maximum(lo - tol - y, y - hi - tol)
        i = int(np.argmax(np.where(bad, err / np.maximum(tol, 1e-300), -1.0)))
        raise Violation(kind, f"index {i}: got {y.flat[i]!r}, accepted [{lo.flat[i]!r}, {hi.flat[i]!r}] "
                              f"+- {tol.flat[i]:.3e} {detail}")


def forward_check(y, dist, t, hi, scale, kind, k=K1, tol=TOL, extra=0.0, detail=""):
    """T(xi) == quantile(p) within the probability-rounding band and tol*scale (+ extra absolute)"""
    a = quant(dist, t, hi, -k)
    b = quant(dist, t, hi, +k)
    in_band(y, a, b, tol * np.asarray(scale) + extra, kind, detail)


def inverse_check(xb, t, hi, kind, k=K1, dp=0.0, tol=TOL, extra=0.0, detail=""):
    """inverse(y) == xi within the band of Phi^-1(p -+ k ulp -+ dp) and tol*(1+|xi|) (+ extra)"""
    a = latent_of(t, hi, -k, -dp)
    b = latent_of(t, hi, +k, +dp)
    xi = latent_of(t, hi)
    in_band(xb, a, b, tol * (1.0 + np.abs(xi)) + extra, kind, detail)


def monotone_check(xs, ys, fprime, kind, detail=""):
    """ys non-decreasing on the sorted grid xs up to 4 ulp; strictly increasing where the exact increment
    fprime*dx exceeds 1000 ulp of the output"""
    ys = np.asarray(ys, dtype=np.float64)
    if ys.shape != xs.shape:
        raise Violation(kind + ":shape", f"{ys.shape} vs {xs.shape}")
    if not np.all(np.isfinite(ys)):
        raise Violation(kind + ":nonfinite", f"{ys!r} {detail}")
    if xs.size < 2:
        return 0
    d = np.diff(ys)
    ulp = np.spacing(np.maximum(np.abs(ys[1:]), np.abs(ys[:-1])))
    bad = d < -4 * ulp
    if np.any(bad):
        i = int(np.argmax(bad))
        raise Violation(kind + ":decreasing", f"T({xs[i]!r})={ys[i]!r} > T({xs[i+1]!r})={ys[i+1]!r} {detail}")
    expect = 0.5 * (fprime[1:] + fprime[:-1]) * np.diff(xs)
    # a transform may go through a float64 value of Phi(xi): increments of the probability below its
    # resolution cannot be demanded to show
    pr = special.ndtr(xs)
    dpr = np.minimum(stats.norm.pdf(xs[1:]), stats.norm.pdf(xs[:-1])) * np.diff(xs)
    need = (expect > 1000 * ulp) & (dpr > 1000 * np.spacing(pr[1:]))
    bad = need & (d <= 0)
    if np.any(bad):
        i = int(np.argmax(bad))
        raise Violation(kind + ":not_strict", f"T({xs[i]!r})={ys[i]!r} == T({xs[i+1]!r}), exact increment "
                                              f"{expect[i]:.3e} {detail}")
    return int(np.sum(need))


def at_latent(dist, z):
    """exact quantile function of `dist` composed with Phi at latent values z (accurate on both sides)"""
    t, hi = tails_of(z)
    return quant(dist, t, hi)


def deriv(dist, xs, e=2.0 ** -10):
    """d quantile / d xi by central differences of the exact reference (only used to decide where strictness
    can be demanded)"""
    return np.maximum(at_latent(dist, xs + e) - at_latent(dist, xs - e), 0.0) / (2 * e)


def interp_tol(fstd, x, h, space):
    """relative error bound of a linear interpolation with spacing h of the exact function fstd around x,
    tabulated in `space`: "log" (inverse gamma family: the table holds log f, documented accuracy 1e-5 for
    a=2, step=1e-2) -> SAFETY*h^2/8*max|(log f)''|;  "lin" (gamma, beta: the table holds f) ->
    SAFETY*h^2/8*max|f''/f|.  Maxima over [x-2h, x+2h] from second differences of the exact function."""
    x = np.asarray(x, dtype=np.float64)
    F = np.array([fstd(x + o * h) for o in (-2, -1, 0, 1, 2)])
    with np.errstate(divide="ignore", invalid="ignore"):
        if space == "log":
            L = np.log(F)
            d2 = np.abs(L[:-2] - 2 * L[1:-1] + L[2:]) / h ** 2
        else:
            d2 = np.abs(F[:-2] - 2 * F[1:-1] + F[2:]) / h ** 2 / np.min(F, axis=0)
    M = np.max(d2, axis=0)
    if not np.all(np.isfinite(M)):
        raise Discard()      # reference underflows: outside the supported range
    return SAFETY * h * h / 8.0 * M


def logslope(fstd, x, h):
    """d log f / d xi of the exact function (central difference at spacing h)"""
    return (np.log(fstd(x + h)) - np.log(fstd(x - h))) / (2 * h)


def scipy_table_ok(dist, delta):
    """SciPy's own quantile table over the documented table range must be usable (trusted base)"""
    xs = np.arange(-8.2, 8.2, delta)
    with warnings.catch_warnings(record=True) as w:
        warnings.simplefilter("always")
        tab = dist.ppf(stats.norm._cdf(xs))
    return (not w) and bool(np.all(np.isfinite(tab[xs < 8.0]))) and bool(np.all(np.diff(tab) >= 0))


def arr(v, n):
    """recipe parameter -> numpy value: number or list (cycled to length n)"""
    if isinstance(v, list):
        return np.resize(np.array(v, dtype=np.float64), n)
    return float(v)


def lognormal_params(mean, std):
    """closed form written down independently: sigma^2 = log(1 + (std/mean)^2), mu = log(mean) - sigma^2/2"""
    mean, std = np.asarray(mean, dtype=np.float64), np.asarray(std, dtype=np.float64)
    s2 = np.log1p((std / mean) ** 2)
    return np.log(mean) - 0.5 * s2, np.sqrt(s2)


def check_lognormal_moments(lm, ls, mean, std, kind):
    """the moments of exp(N(lm, ls^2)) are the requested ones: E = exp(lm + ls^2/2), Var = (exp(ls^2)-1) E^2"""
    lm, ls = np.asarray(lm, dtype=np.float64), np.asarray(ls, dtype=np.float64)
    mean, std = np.broadcast_to(mean, lm.shape), np.broadcast_to(std, lm.shape)
    require(np.all(np.isfinite(lm)) and np.all(np.isfinite(ls)) and np.all(ls > 0), kind + ":nonfinite",
            f"{lm!r} {ls!r}")
    m = np.exp(lm + 0.5 * ls ** 2)
    s = np.sqrt(np.expm1(ls ** 2)) * m
    # conditioning of exp(): eps * |lm + ls^2/2|
    bad = (np.abs(m - mean) > 1e-12 * mean * (1 + np.abs(lm))) | (np.abs(s - std) > 1e-10 * std * (1 + np.abs(lm)))
    if np.any(bad):
        i = int(np.argmax(bad))
        raise Violation(kind, f"requested mean/std {mean.flat[i]!r}/{std.flat[i]!r}, moments of the returned "
                              f"log-normal {m.flat[i]!r}/{s.flat[i]!r}")
    dist = stats.lognorm(s=ls, scale=np.exp(lm))
    bad = (np.abs(dist.mean() - mean) > 1e-9 * mean) | (np.abs(dist.std() - std) > 1e-9 * std)
    if np.any(bad):
        raise Violation(kind + ":scipy", f"scipy lognorm moments {dist.mean()!r} {dist.std()!r}")


def pclass(t, hi):
    """classes of the *generated* probabilities (the fixed extremes are always present)"""
    t, hi = t[:NP], hi[:NP]
    cl = []
    if np.any(hi & (t < 1e-9)):
        cl.append("generated_p>1-1e-9")
    if np.any(~hi & (t < 1e-9)):
        cl.append("generated_p<1e-9")
    if np.any((t > 0.4)):
        cl.append("generated_near_median")
    return cl


# ============================================================================ classic closed-form operators
def _mf(key, dom, x):
    return ift.MultiField.from_dict({key: ift.makeField(dom, x)})


def check_cl_closed(rec):
    t, hi, xi, G = allpoints(rec)
    n = xi.size
    kind = rec["kind"]
    classes = [kind] + pclass(t, hi)
    dom = ift.UnstructuredDomain(n)
    if kind in ("normal", "lognormal"):
        ncop = rec["ncopies"]
        mean, sig = arr(rec["mean"], n), arr(rec["sigma"], n)
        isarr = isinstance(mean, np.ndarray) or isinstance(sig, np.ndarray)
        classes.append("array_param" if isarr else "scalar_param")
        classes.append("scalar_domain" if ncop == 0 else "N_copies")
        if kind == "normal":
            mu, sd = np.asarray(mean), np.asarray(sig)
            dist = lambda m, s: stats.norm(loc=m, scale=s)
            mk = lambda m, s, N: ift.NormalTransform(m, s, "xi", N)
        else:
            lm, ls = ift.utilities.lognormal_moments(mean, sig, n if isarr else 0)
            check_lognormal_moments(lm, ls, mean, sig, "cl_lognormal_moments")
            mu, sd = lognormal_params(mean, sig)
            dist = lambda m, s: stats.lognorm(s=s, scale=np.exp(m))
            mk = lambda m, s, N: ift.LognormalTransform(m, s, "xi", N)
        if ncop == 0:
            # scalar field: one latent value per application; scalar parameters only
            m0, s0 = float(mean), float(sig)
            op = mk(m0, s0, 0)
            sdom = ift.DomainTuple.scalar_domain()
            require(op.target == sdom, "scalar_target", f"{op.target}")
            idx = np.array(list(range(0, NP, 4)) + [NP, NP + 1, NP + 2, NP + 3, n - 1])
            y = np.array([float(op(_mf("xi", sdom, np.array(xi[i]))).asnumpy()) for i in idx])
            d0 = dist(float(mu), float(sd))
            ref = quant(d0, t[idx], hi[idx])
            scale = np.abs(ref) + (abs(m0) + s0 if kind == "normal" else 0.0)
            forward_check(y, d0, t[idx], hi[idx], scale, f"cl_{kind}_scalar_domain")
        else:
            op = mk(mean, sig, n)
            require(op.target == ift.DomainTuple.make(dom), "target", f"{op.target}")
            y = op(_mf("xi", dom, xi)).asnumpy()
            d = dist(mu, sd)
            ref = quant(d, t, hi)
            scale = np.abs(ref) + (np.abs(mean) + sig if kind == "normal" else 0.0)
            forward_check(y, d, t, hi, scale, f"cl_{kind}_quantile")
            if not isarr:
                ns = mono(xi[G], y[G], lambda z: deriv(d, z), f"cl_{kind}_monotone")
                classes.append("strict>=8" if ns >= 8 else "strict<8")
        return dict(nontrivial=True, classes=classes)

    loc, sc = float(rec["loc"]), float(rec["scale"])
    if rec.get("default"):
        classes.append("default_args")
        loc, sc = 0.0, 1.0
        op = ift.UniformOperator(dom) if kind == "uniform" else ift.LaplaceOperator(dom)
    elif kind == "uniform":
        op = ift.UniformOperator(dom, loc=loc, scale=sc)
    else:
        op = ift.LaplaceOperator(dom, loc=loc, scale=sc)
    d = stats.uniform(loc=loc, scale=sc) if kind == "uniform" else stats.laplace(loc=loc, scale=sc)
    y = op(ift.makeField(dom, xi)).asnumpy()
    ref = quant(d, t, hi)
    scale = np.abs(ref) + abs(loc) + sc
    forward_check(y, d, t, hi, scale, f"cl_{kind}_quantile", detail=f"loc={loc} scale={sc}")
    # inverse on the exact quantile and as a round trip.  The quantile y is a rounded float: the inverse sees
    # a probability perturbed by pdf(y)*ulp(y) in addition.
    dp = d.pdf(ref) * 2 * np.spacing(scale)
    xb = op.inverse(ift.makeField(dom, ref))
    require(xb.domain == op.domain, "inverse_domain", f"{xb.domain}")
    inverse_check(xb.asnumpy(), t, hi, f"cl_{kind}_inverse_of_exact", k=K1, dp=dp, detail=f"loc={loc} scale={sc}")
    xb = op.inverse(op(ift.makeField(dom, xi)))
    inverse_check(xb.asnumpy(), t, hi, f"cl_{kind}_roundtrip", k=K2, dp=2 * dp, detail=f"loc={loc} scale={sc}")
    ns = mono(xi[G], y[G], lambda z: deriv(d, z), f"cl_{kind}_monotone", f"loc={loc} scale={sc}")
    classes.append("strict>=8" if ns >= 8 else "strict<8")
    classes.append("loc<0" if loc < 0 else "loc>=0")
    return dict(nontrivial=True, classes=classes)


# ============================================================================ classic interpolated operators
def _fieldify(dom, v, n):
    """recipe value (number or list) -> (argument for the operator, numpy array/float for the oracle)"""
    if isinstance(v, list):
        a = np.resize(np.array(v, dtype=np.float64), n)
        return ift.makeField(dom, a), a
    return float(v), float(v)


def node_band(std, fstd, xi, h, k=K2):
    """relative band [lo, up] around the exact value: the table nodes are quantiles of float64 cdf values at
    the nodes -> band of the worst node within one step"""
    lo = np.minimum.reduce([quant(std, *tails_of(xi + o * h), -k) / fstd(xi + o * h) for o in (-1, 0, 1)])
    up = np.maximum.reduce([quant(std, *tails_of(xi + o * h), +k) / fstd(xi + o * h) for o in (-1, 0, 1)])
    return np.minimum(lo, 1.0), np.maximum(up, 1.0)


def check_cl_interp(rec):
    t, hi, xi, G = allpoints(rec)
    n = xi.size
    kind = rec["kind"]
    delta = float(rec["delta"])
    dom = ift.UnstructuredDomain(n)
    dflt = bool(rec.get("default_delta"))
    kw = {} if dflt else {"delta": delta}
    if dflt:
        delta = 1e-2
    classes = [kind, f"delta={delta:g}"] + pclass(t, hi) + (["default_delta"] if dflt else [])
    how = rec.get("how", "")
    classes.append(f"{kind}:{how}")
    logout = False
    if kind in ("invgamma", "loginvgamma"):
        if how == "mode_mean":
            mode, mean = float(rec["mode"]), float(rec["mean"])
            alpha = (mean + mode) / (mean - mode)
            qa, mult = None, 2.0 * mean * mode / (mean - mode)
            op = ift.InverseGammaOperator(dom, mode=mode, mean=mean, **kw)
        else:
            alpha = float(rec["alpha"])
            qa, mult = _fieldify(dom, rec["q"], n)
            if kind == "invgamma":
                op = ift.InverseGammaOperator(dom, alpha=alpha, q=qa, **kw)
            else:
                logout = True
                op = ift.LogInverseGammaOperator(dom, alpha, qa, **kw)
        std = stats.invgamma(alpha)
    elif kind == "gamma":
        if how == "mean_var":
            mean, var = float(rec["mean"]), float(rec["var"])
            alpha, qa, mult = mean * mean / var, None, var / mean
            op = ift.GammaOperator(dom, mean=mean, var=var, **kw)
        elif how == "alpha_beta":
            alpha = float(rec["alpha"])
            qa, bv = _fieldify(dom, rec["q"], n)
            mult = 1.0 / np.asarray(bv)
            op = ift.GammaOperator(dom, alpha=alpha, beta=qa, **kw)
        else:
            alpha = float(rec["alpha"])
            qa, mult = _fieldify(dom, rec["q"], n)
            op = ift.GammaOperator(dom, alpha=alpha, theta=qa, **kw)
        std = stats.gamma(alpha)
    else:
        a, b = float(rec["a"]), float(rec["b"])
        std = stats.beta(a, b)
        if not scipy_table_ok(std, delta):
            raise Discard()
        qa, mult = None, 1.0
        op = ift.BetaOperator(dom, a, b, **kw)
        classes.append("beta_" + ("U" if a < 1 and b < 1 else "J" if a < 1 or b < 1 else "bell"))
    fieldq = isinstance(qa, ift.Field)
    classes.append("field_scale" if fieldq else "scalar_scale")
    if std.args[0] < 1:
        classes.append("shape<1")
    detail = f"{kind} {how} shape={std.args} delta={delta}"

    require(op.target == ift.DomainTuple.make(dom), "target", f"{op.target}")
    y = op(ift.makeField(dom, xi)).asnumpy()
    fstd = lambda z: at_latent(std, z)
    rtol = interp_tol(fstd, xi, delta, "log" if kind in ("invgamma", "loginvgamma") else "lin") + TOL
    lo, up = node_band(std, fstd, xi, delta)
    ref = quant(std, t, hi)
    mult_a = np.broadcast_to(np.asarray(mult, dtype=np.float64), ref.shape)
    if logout:
        in_band(y, np.log(mult_a * ref * lo), np.log(mult_a * ref * up), rtol, f"cl_{kind}_quantile", detail)
    else:
        in_band(y, mult_a * ref * lo, mult_a * ref * up, rtol * mult_a * ref, f"cl_{kind}_quantile", detail)
    # monotone on the grid (scalar scale only: a field-valued scale differs per pixel)
    if not fieldq:
        m0 = float(np.asarray(mult))
        fp = (lambda z: deriv(std, z) / fstd(z)) if logout else (lambda z: deriv(std, z) * m0)
        ns = mono(xi[G], y[G], fp, f"cl_{kind}_monotone", detail)
        classes.append("strict>=8" if ns >= 8 else "strict<8")
    return dict(nontrivial=True, classes=classes)


# ============================================================================ nifty.re closed-form priors
def _jx():
    import jax
    import jax.numpy as jnp

    import nifty.re as jft
    return jax, jnp, jft


NV1 = 20   # first leaf of the two-leaf jft.Vector (second leaf is 2-D)


def _split(jft, jnp, v):
    """array -> jft.Vector with two leaves (the second one 2-D) to exercise tree-like parameters"""
    v = np.asarray(v, dtype=np.float64)
    return jft.Vector({"a": jnp.asarray(v[:NV1]), "b": jnp.asarray(v[NV1:]).reshape(1, -1)})


def _unsplit(vec):
    tr = vec.tree
    return np.concatenate([np.asarray(tr["a"]).reshape(-1), np.asarray(tr["b"]).reshape(-1)])


def check_re_closed(rec):
    jax, jnp, jft = _jx()
    t, hi, xi, G = allpoints(rec)
    n = xi.size
    kind, api, pk = rec["kind"], rec["api"], rec["pkind"]
    classes = [kind, "api_" + api, "param_" + pk] + pclass(t, hi)
    p1, p2 = rec["p1"], rec["p2"]
    if pk == "scalar":
        a1, a2 = float(p1), float(p2)
    else:
        a1, a2 = np.resize(np.array(p1, dtype=np.float64), n), np.resize(np.array(p2, dtype=np.float64), n)
    # oracle side -----------------------------------------------------------------------------------
    if kind == "normal":
        d = stats.norm(loc=a1, scale=a2)
        base = np.abs(a1) + a2
    elif kind == "lognormal":
        mu, sd = lognormal_params(a1, a2)
        d = stats.lognorm(s=sd, scale=np.exp(mu))
        base = 0.0
    elif kind == "uniform":
        if rec.get("unit"):
            a1, a2 = (0.0, 1.0) if rec["unit"] == "float" else (0, 1)
            classes.append("unit_" + rec["unit"])
        else:
            a2 = a1 + a2                                   # p2 is the width
        d = stats.uniform(loc=np.asarray(a1, dtype=np.float64), scale=np.asarray(a2 - a1, dtype=np.float64))
        base = np.abs(a1) + np.abs(a2)
    else:
        d = stats.laplace(scale=a1)
        base = a1
    ref = quant(d, t, hi)
    scale = np.abs(ref) + base
    # code under test ---------------------------------------------------------------------------------
    vec = pk == "vector"
    wrap = (lambda v: _split(jft, jnp, v)) if vec else (lambda v: v if np.isscalar(v) else jnp.asarray(v))
    unwrap = _unsplit if vec else np.asarray
    w1, w2 = wrap(a1), wrap(a2)
    f = inv = None
    if api == "function":
        if kind == "normal":
            f, inv = jft.normal_prior(w1, w2), jft.normal_invprior(w1, w2)
        elif kind == "lognormal":
            f, inv = jft.lognormal_prior(w1, w2), jft.lognormal_invprior(w1, w2)
            lm, ls = jft.lognormal_moments(w1, w2)
            check_lognormal_moments(unwrap(lm), unwrap(ls), np.asarray(a1), np.asarray(a2), "re_lognormal_moments")
        elif kind == "uniform":
            f = jft.uniform_prior(w1, w2)
        else:
            f = jft.laplace_prior(w1)
        y = unwrap(f(wrap(xi)))
    else:
        named = api == "model_named"
        kw = dict(shape=(n,), dtype=jnp.float64)
        if named:
            kw["name"] = "lat"
        if kind == "normal":
            m = jft.NormalPrior(w1, w2, **kw)
        elif kind == "lognormal":
            m = jft.LogNormalPrior(w1, w2, **kw)
        elif kind == "uniform":
            m = jft.UniformPrior(w1, w2, **kw)
        else:
            m = jft.LaplacePrior(w1, **kw)
        inp = {"lat": jnp.asarray(xi)} if named else jnp.asarray(xi)
        y = np.asarray(m(inp))
        if rec.get("jit"):
            classes.append("jit")
            yj = np.asarray(jax.jit(m)(inp))
            in_band(yj, y, y, 1e-12 * (np.abs(y) + base), f"re_{kind}_jit_vs_eager")
    detail = f"api={api} params={pk} p1={p1} p2={p2}"
    forward_check(y, d, t, hi, scale, f"re_{kind}_quantile", detail=detail)
    if inv is not None:
        dp = d.pdf(ref) * 2 * np.spacing(scale)
        xb = unwrap(inv(wrap(ref)))
        inverse_check(xb, t, hi, f"re_{kind}_inverse_of_exact", k=K1, dp=dp, detail=detail)
        xb = unwrap(inv(f(wrap(xi))))
        inverse_check(xb, t, hi, f"re_{kind}_roundtrip", k=K2, dp=2 * dp, detail=detail)
        classes.append("inverse")
    if pk == "scalar":
        ns = mono(xi[G], y[G], lambda z: deriv(d, z), f"re_{kind}_monotone", detail)
        classes.append("strict>=8" if ns >= 8 else "strict<8")
    return dict(nontrivial=True, classes=classes)


# ============================================================================ nifty.re inverse gamma
def check_re_invgamma(rec):
    jax, jnp, jft = _jx()
    t, hi, xi, G = allpoints(rec)
    n = xi.size
    a, loc, step = rec["a"], float(rec["loc"]), float(rec["step"])
    api = rec["api"]
    sc = rec["scale"]
    arrscale = isinstance(sc, list)
    scv = np.resize(np.array(sc, dtype=np.float64), n) if arrscale else float(sc)
    default_step = bool(rec.get("default_step"))
    if default_step:
        step = 1e-2
    classes = ["api_" + api, f"step={step:g}", "loc=0" if loc == 0 else ("loc>0" if loc > 0 else "loc<0"),
               "array_scale" if arrscale else "scalar_scale"] + pclass(t, hi)
    if default_step:
        classes.append("default_step")
    if rec.get("int_a"):
        a = int(a)
        classes.append("int_a")
    else:
        a = float(a)
    if a < 1:
        classes.append("a<1")
    std = stats.invgamma(a)
    fstd = lambda z: at_latent(std, z)
    # code under test
    args = (a, scv)
    kw = {}
    if loc != 0.0 or rec.get("pass_loc"):
        kw["loc"] = loc
    if not default_step:
        kw["step"] = step
    detail = f"a={a} scale={sc} loc={loc} step={step} api={api}"
    if arrscale and loc != 0.0:
        # documented restriction
        try:
            jft.invgamma_prior(*args, **kw)
        except TypeError:
            return dict(nontrivial=False, classes=classes + ["array_scale_with_loc_raises"])
        raise Violation("re_invgamma_array_scale_with_loc_accepted", "no TypeError " + detail)
    if api == "function":
        y = np.asarray(jft.invgamma_prior(*args, **kw)(jnp.asarray(xi)))
    else:
        y = np.asarray(jft.InvGammaPrior(*args, **kw, shape=(n,), dtype=jnp.float64)(jnp.asarray(xi)))
    # tolerance: linear interpolation of the table (documented: log space; linear space is granted as well)
    scal = np.asarray(scv, dtype=np.float64)
    ref_std = quant(std, t, hi)
    ref = loc + scal * ref_std
    rt_std = interp_tol(fstd, xi, step, "log") + TOL   # relative to scale*f
    rt = rt_std
    if loc != 0.0:
        # the tabulated function may be loc + scale*f (or its log where that is positive) instead of f:
        # any of these ways to tabulate is accepted
        full = lambda z: loc + float(scv) * fstd(z)
        if full(np.array([-7.3]))[0] > 0:
            rt_full = (interp_tol(full, xi, step, "log") + TOL) * np.abs(ref) / (scal * ref_std)
            rt = np.maximum(rt_std, rt_full)
    tol_abs = rt * scal * ref_std + TOL * abs(loc)
    lo, up = node_band(std, fstd, xi, step)
    in_band(y, loc + scal * ref_std * lo, loc + scal * ref_std * up, tol_abs, "re_invgamma_quantile", detail)
    if not arrscale:
        ns = mono(xi[G], y[G], lambda z: deriv(std, z) * float(scv), "re_invgamma_monotone", detail)
        classes.append("strict>=8" if ns >= 8 else "strict<8")
        # inverse: documented signature invgamma_invprior(a, scale, loc, step)
        inv = jft.invgamma_invprior(a, scv, **kw)
        # a relative error e of scale*f moves the latent value by e / (d log f / d xi)
        slope = np.abs(logslope(fstd, xi, step))
        extra = rt / slope
        # the argument of the inverse is a rounded float
        dp = stats.norm.pdf(xi) / (slope * scal * ref_std) * 2 * np.spacing(np.abs(ref) + abs(loc))
        xb = np.asarray(inv(jnp.asarray(ref)))
        inverse_check(xb, t, hi, "re_invgamma_inverse_of_exact", k=K2, dp=dp, extra=extra, detail=detail)
        xb = np.asarray(inv(jnp.asarray(y)))
        inverse_check(xb, t, hi, "re_invgamma_roundtrip", k=2 * K2, dp=2 * dp, extra=2 * extra, detail=detail)
        classes.append("inverse")
    return dict(nontrivial=True, classes=classes)


# ============================================================================ classic vs JAX
def check_pair(rec):
    jax, jnp, jft = _jx()
    t, hi, xi, G = allpoints(rec)
    n = xi.size
    kind = rec["kind"]
    dom = ift.UnstructuredDomain(n)
    fx = ift.makeField(dom, xi)
    jx = jnp.asarray(xi)
    classes = [kind] + pclass(t, hi)
    p1, p2 = float(rec["p1"]), float(rec["p2"])
    kw = dict(shape=(n,), dtype=jnp.float64)
    detail = f"p1={p1} p2={p2}"
    if kind == "normal":
        yc = ift.NormalTransform(p1, p2, "xi", n)(_mf("xi", dom, xi)).asnumpy()
        yj = np.asarray(jft.NormalPrior(p1, p2, **kw)(jx))
        d, base = stats.norm(p1, p2), abs(p1) + p2
    elif kind == "lognormal":
        yc = ift.LognormalTransform(p1, p2, "xi", n)(_mf("xi", dom, xi)).asnumpy()
        yj = np.asarray(jft.LogNormalPrior(p1, p2, **kw)(jx))
        mu, sd = lognormal_params(p1, p2)
        d, base = stats.lognorm(s=sd, scale=np.exp(mu)), 0.0
        lc = ift.utilities.lognormal_moments(p1, p2)
        lj = jft.lognormal_moments(p1, p2)
        for u, v, nm in ((lc[0], lj[0], "logmean"), (lc[1], lj[1], "logstd")):
            require(abs(float(u) - float(v)) <= 1e-12 * (1 + abs(float(u))), "pair_lognormal_moments",
                    f"{nm}: classic {float(u)!r} vs re {float(v)!r}")
    elif kind == "uniform":
        yc = ift.UniformOperator(dom, loc=p1, scale=p2)(fx).asnumpy()
        yj = np.asarray(jft.UniformPrior(p1, p1 + p2, **kw)(jx))
        d, base = stats.uniform(p1, p2), abs(p1) + p2
    elif kind == "laplace":
        yc = ift.LaplaceOperator(dom, loc=0.0, scale=p1)(fx).asnumpy()
        yj = np.asarray(jft.LaplacePrior(p1, **kw)(jx))
        d, base = stats.laplace(scale=p1), p1
    else:
        step = float(rec["step"])
        classes.append(f"step={step:g}")
        yc = ift.InverseGammaOperator(dom, alpha=p1, q=p2, delta=step)(fx).asnumpy()
        yj = np.asarray(jft.InvGammaPrior(p1, p2, step=step, **kw)(jx))
        std = stats.invgamma(p1)
        fstd = lambda z: at_latent(std, z)
        ref = p2 * quant(std, t, hi)
        rtol = 2 * (interp_tol(fstd, xi, step, "log") + TOL)
        lo, up = node_band(std, fstd, xi, step)
        band = ref * (up - lo)
        require(np.all(np.isfinite(yj)), "pair_invgamma:nonfinite", detail)
        in_band(yc, yj - band, yj + band, rtol * ref, "pair_invgamma", detail + f" step={step}")
        return dict(nontrivial=True, classes=classes)
    ref = quant(d, t, hi)
    band = np.abs(quant(d, t, hi, K1) - quant(d, t, hi, -K1))
    require(np.all(np.isfinite(yj)), f"pair_{kind}:nonfinite", detail)
    in_band(yc, yj - band, yj + band, 2 * TOL * (np.abs(ref) + base), f"pair_{kind}", detail)
    return dict(nontrivial=True, classes=classes)


# ------------------------------------------------------------------------------------------------ strategies
def _ps():
    # half of the points log-spaced in the tail probability, half on the linear grid
    code = st.one_of(st.integers(0, 2 * NLOG - 1), st.integers(2 * NLOG, 2 * (NLOG + 512) - 1))
    return st.lists(code, min_size=NP, max_size=NP)


def _grid():
    return st.fixed_dictionaries({"x0": S.dyadic(-7, 7, 8), "k": st.integers(3, 36)})


POS = S.dyadic_nz(0.125, 8.0, 8, signed=False)        # scales, widths, means of positive quantities
SHAPE = st.one_of(S.dyadic_nz(0.25, 0.875, 8, signed=False), S.dyadic_nz(1.0, 4.0, 8, signed=False),
                  S.dyadic_nz(0.25, 16.0, 4, signed=False))
LOC = S.dyadic(-4, 4, 8)


def _maybe_list(elem, maxlen=5):
    return st.one_of(elem, st.lists(elem, min_size=1, max_size=maxlen))


@st.composite
def cl_closed_recipes(draw, tier):
    kind = draw(st.sampled_from(["normal", "lognormal", "uniform", "laplace"]))
    rec = {"kind": kind, "ps": draw(_ps()), "grid": draw(_grid())}
    if kind in ("normal", "lognormal"):
        ncop = draw(st.sampled_from([0, 1, 1, 1]))
        rec["ncopies"] = ncop
        melem = LOC if kind == "normal" else POS
        if ncop == 0:
            rec["mean"], rec["sigma"] = draw(melem), draw(POS)
        else:
            rec["mean"], rec["sigma"] = draw(_maybe_list(melem)), draw(_maybe_list(POS))
    else:
        rec["loc"], rec["scale"] = draw(LOC), draw(POS)
        rec["default"] = draw(st.integers(0, 7)) == 0
    return rec


DELTAS = [1e-2, 1e-2, 2e-2, 5e-2, 5e-3, 2.5e-3]


@st.composite
def cl_interp_recipes(draw, tier):
    kind = draw(st.sampled_from(["invgamma", "invgamma", "loginvgamma", "gamma", "gamma", "beta"]))
    rec = {"kind": kind, "ps": draw(_ps()), "grid": draw(_grid()), "delta": draw(st.sampled_from(DELTAS)),
           "default_delta": draw(st.integers(0, 5)) == 0}
    if kind == "invgamma":
        how = draw(st.sampled_from(["alpha_q", "alpha_q", "mode_mean"]))
        rec["how"] = how
        if how == "mode_mean":
            mode = draw(POS)
            rec["mode"] = mode
            rec["mean"] = mode + draw(st.one_of(POS, S.dyadic_nz(0.125, 64.0, 8, signed=False)))
        else:
            rec["alpha"], rec["q"] = draw(SHAPE), draw(_maybe_list(POS))
    elif kind == "loginvgamma":
        rec["how"] = "alpha_q"
        rec["alpha"], rec["q"] = draw(SHAPE), draw(_maybe_list(POS))
    elif kind == "gamma":
        how = draw(st.sampled_from(["alpha_theta", "alpha_beta", "mean_var"]))
        rec["how"] = how
        if how == "mean_var":
            # alpha = mean^2/var in [1/4, 16]
            mean = draw(POS)
            alpha = draw(SHAPE)
            rec["mean"], rec["var"] = mean, mean * mean / alpha
        else:
            rec["alpha"], rec["q"] = draw(SHAPE), draw(_maybe_list(POS))
    else:
        rec["how"] = "a_b"
        a, b = draw(SHAPE), draw(SHAPE)
        if (a == 0.5 and b in (2.0, 3.0)) or (b == 0.5 and a in (2.0, 3.0)):
            a = a + 0.125          # SciPy's beta.ppf is broken there (trusted base), see ASSUMPTIONS
        rec["a"], rec["b"] = a, b
    return rec


@st.composite
def re_closed_recipes(draw, tier):
    kind = draw(st.sampled_from(["normal", "lognormal", "uniform", "laplace"]))
    api = draw(st.sampled_from(["function", "function", "model", "model_named"]))
    pk = draw(st.sampled_from(["scalar", "scalar", "array", "vector"]))
    if api != "function" and pk == "vector":
        pk = "array"
    rec = {"kind": kind, "api": api, "pkind": pk, "ps": draw(_ps()), "grid": draw(_grid())}
    e1 = LOC if kind in ("normal", "uniform") else POS
    if pk == "scalar":
        rec["p1"], rec["p2"] = draw(e1), draw(POS)
    else:
        rec["p1"] = draw(st.lists(e1, min_size=1, max_size=5))
        rec["p2"] = draw(st.lists(POS, min_size=1, max_size=5))
    if kind == "uniform" and pk == "scalar" and draw(st.integers(0, 5)) == 0:
        rec["unit"] = draw(st.sampled_from(["float", "int"]))
    elif kind == "uniform" and pk == "scalar" and draw(st.integers(0, 3)) == 0:
        # special widths (unit-width intervals away from 0 are what shortcuts for the standard interval must not catch)
        rec["p2"] = draw(st.sampled_from([1.0, 1.0, 2.0, 0.5]))
    if api != "function":
        rec["jit"] = draw(st.integers(0, 31)) == 0
    return rec


STEPS = [1e-2, 1e-2, 2e-2, 5e-2, 1e-1, 5e-3, 2.5e-3]


@st.composite
def re_invgamma_recipes(draw, tier):
    rec = {"ps": draw(_ps()), "grid": draw(_grid()), "api": draw(st.sampled_from(["function", "model"])),
           "step": draw(st.sampled_from(STEPS)), "default_step": draw(st.integers(0, 5)) == 0}
    if draw(st.integers(0, 5)) == 0:
        rec["a"], rec["int_a"] = draw(st.integers(1, 8)), True
    else:
        rec["a"] = draw(SHAPE)
    rec["loc"] = draw(st.one_of(st.just(0.0), st.just(0.0), LOC))
    rec["pass_loc"] = draw(st.booleans())
    # array-like scale is documented for loc == 0 only (TypeError otherwise: probed rarely)
    want_array = draw(st.integers(0, 3 if rec["loc"] == 0.0 else 11)) == 0
    rec["scale"] = draw(st.lists(POS, min_size=1, max_size=5)) if want_array else draw(POS)
    return rec


@st.composite
def pair_recipes(draw, tier):
    kind = draw(st.sampled_from(["normal", "lognormal", "uniform", "laplace", "invgamma"]))
    rec = {"kind": kind, "ps": draw(_ps()), "grid": draw(_grid())}
    if kind in ("normal", "uniform"):
        rec["p1"], rec["p2"] = draw(LOC), draw(POS)
    elif kind == "invgamma":
        rec["p1"], rec["p2"], rec["step"] = draw(SHAPE), draw(POS), draw(st.sampled_from([1e-2, 2e-2, 5e-2]))
    else:
        rec["p1"], rec["p2"] = draw(POS), draw(POS)
    return rec


NT = ("non-trivial = the case evaluated 27 probabilities including both 1e-12 tails plus the 33-point grid and all "
      "oracle relations ran")
SUBS = [
    Sub(name="cl_closed_form", check=check_cl_closed, strategy=cl_closed_recipes, quick=1600, thorough=60000,
        shards=3,
        rule="NormalTransform / LognormalTransform (N_copies 0 and n, scalar and array parameters; "
             "cl.utilities.lognormal_moments against the closed-form moments), UniformOperator, LaplaceOperator "
             "(loc, scale, defaults): value == scipy quantile, .inverse on the exact quantile and round trip, "
             "monotone grid; " + NT),
    Sub(name="cl_interpolated", check=check_cl_interp, strategy=cl_interp_recipes, quick=960, thorough=40000,
        shards=3,
        rule="InverseGammaOperator (alpha,q | mode,mean; q scalar or Field), LogInverseGammaOperator, "
             "GammaOperator (alpha,theta | alpha,beta | mean,var; Field scale), BetaOperator; delta in "
             "{2.5e-3..5e-2} or default: value == scipy quantile within the linear-interpolation bound of the "
             "given delta, monotone grid; " + NT),
    Sub(name="re_closed_form", check=check_re_closed, strategy=re_closed_recipes, quick=800, thorough=40000,
        shards=2, jax=True, budget_quick=150.0,
        rule="normal/lognormal/uniform/laplace _prior functions and NormalPrior/LogNormalPrior/UniformPrior/"
             "LaplacePrior models (named or not, eager and jit), scalar / array / jft.Vector parameters: value == "
             "scipy quantile; normal_invprior, lognormal_invprior on the exact quantile and round trip; "
             "re lognormal_moments against the closed-form moments; monotone grid; " + NT),
    Sub(name="re_invgamma", check=check_re_invgamma, strategy=re_invgamma_recipes, quick=600, thorough=30000,
        shards=2, jax=True, budget_quick=150.0,
        rule="invgamma_prior / InvGammaPrior with generated a, scale (scalar or array), loc (0, positive, "
             "negative), step in {2.5e-3..1e-1} or default: value == scipy invgamma quantile within the "
             "linear-interpolation bound of the given step; invgamma_invprior on the exact quantile and round "
             "trip; monotone grid; array scale with loc raises TypeError; non-trivial = all relations ran "
             "(not the TypeError case)"),
    Sub(name="classic_vs_jax", check=check_pair, strategy=pair_recipes, quick=400, thorough=20000, shards=1,
        jax=True, budget_quick=150.0,
        rule="same distribution, same parameters, same latent values through the classic operator and the "
             "nifty.re prior model (normal, lognormal incl. both lognormal_moments, uniform, laplace, inverse "
             "gamma with the same table step): results agree within the sum of the two stated tolerances; " + NT),
]
